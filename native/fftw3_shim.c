#include "fftw3.h"
#include <complex.h>
#include <math.h>
#include <stdio.h>
#include <stdlib.h>
#include <string.h>

#define MAXRANK 8
struct fftw_plan_s {
    int kind; /* 0 c2c, 1 r2c, 2 c2r */
    int rank, howmany, sign;
    int n[MAXRANK], ine[MAXRANK], one[MAXRANK];
    int istride, idist, ostride, odist;
    void *in, *out;
};

/* ---- allocation registry so that out-of-extent plans are detected ---- */
#define MAXALLOC 4096
static void *g_ptr[MAXALLOC];
static size_t g_sz[MAXALLOC];
static int g_nalloc = 0;
static int g_error = 0;
static long g_nexec = 0;
int fftw_shim_error(void) { return g_error; }
void fftw_shim_clear_error(void) { g_error = 0; }
long fftw_shim_nexec(void) { return g_nexec; }
int fftw_shim_live_allocs(void) { return g_nalloc; }
static long g_nplans = 0;
long fftw_shim_live_plans(void) { return g_nplans; }

void *fftw_malloc(size_t n) {
    void *p = NULL;
    if (posix_memalign(&p, 64, n ? n : 1)) return NULL;
    if (g_nalloc < MAXALLOC) { g_ptr[g_nalloc] = p; g_sz[g_nalloc] = n; g_nalloc++; }
    return p;
}
void fftw_free(void *p) {
    for (int i = 0; i < g_nalloc; i++)
        if (g_ptr[i] == p) { g_ptr[i] = g_ptr[g_nalloc-1]; g_sz[i] = g_sz[g_nalloc-1]; g_nalloc--; break; }
    free(p);
}
/* returns 1 if [p+lo, p+hi) bytes is known to be outside its allocation */
static int out_of_bounds(const void *base, size_t hi_bytes) {
    for (int i = 0; i < g_nalloc; i++)
        if (g_ptr[i] == base) return hi_bytes > g_sz[i];
    return 0; /* unknown buffer: cannot judge */
}
int fftw_init_threads(void) { return 1; }
void fftw_plan_with_nthreads(int n) { (void)n; }
void fftw_cleanup_threads(void) {}

static void pad(int rank, const int *n, const int *nembed, int inplace, int cmplx, int *res) {
    /* api/rdft2-pad.c */
    if (nembed) { memcpy(res, nembed, sizeof(int)*rank); return; }
    memcpy(res, n, sizeof(int)*rank);
    if (rank > 0 && (inplace || cmplx)) res[rank-1] = (n[rank-1]/2 + 1) * (1 + !cmplx);
}
static fftw_plan mk(int kind, int rank, const int *n, int howmany, void *in, const int *ine,
                    int is, int id, void *out, const int *one, int os, int od, int sign) {
    if (rank < 1 || rank > MAXRANK || howmany < 0) return NULL;
    fftw_plan p = calloc(1, sizeof(*p));
    p->kind = kind; p->rank = rank; p->howmany = howmany; p->sign = sign;
    memcpy(p->n, n, sizeof(int)*rank);
    int inplace = (in == out);
    if (kind == 0) {
        memcpy(p->ine, ine ? ine : n, sizeof(int)*rank);
        memcpy(p->one, one ? one : n, sizeof(int)*rank);
    } else if (kind == 1) {
        pad(rank, n, ine, inplace, 0, p->ine); pad(rank, n, one, inplace, 1, p->one);
    } else {
        pad(rank, n, ine, inplace, 1, p->ine); pad(rank, n, one, inplace, 0, p->one);
    }
    p->istride = is; p->idist = id; p->ostride = os; p->odist = od; p->in = in; p->out = out;
    g_nplans++;
    return p;
}
fftw_plan fftw_plan_many_dft(int rank, const int *n, int howmany, fftw_complex *in, const int *ine,
    int is, int id, fftw_complex *out, const int *one, int os, int od, int sign, unsigned flags) {
    (void)flags; return mk(0, rank, n, howmany, in, ine, is, id, out, one, os, od, sign);
}
fftw_plan fftw_plan_many_dft_r2c(int rank, const int *n, int howmany, double *in, const int *ine,
    int is, int id, fftw_complex *out, const int *one, int os, int od, unsigned flags) {
    (void)flags; return mk(1, rank, n, howmany, in, ine, is, id, out, one, os, od, FFTW_FORWARD);
}
fftw_plan fftw_plan_many_dft_c2r(int rank, const int *n, int howmany, fftw_complex *in, const int *ine,
    int is, int id, double *out, const int *one, int os, int od, unsigned flags) {
    (void)flags; return mk(2, rank, n, howmany, in, ine, is, id, out, one, os, od, FFTW_BACKWARD);
}
void fftw_destroy_plan(fftw_plan p) { if (p) g_nplans--; free(p); }

static size_t lin(int rank, const int *idx, const int *nembed) {
    size_t r = 0;
    for (int d = 0; d < rank; d++) r = r * nembed[d] + idx[d];
    return r;
}
static void dft_axis(double complex *a, int rank, const int *n, int ax, int sign) {
    size_t tot = 1, inner = 1;
    for (int d = 0; d < rank; d++) tot *= n[d];
    for (int d = ax + 1; d < rank; d++) inner *= n[d];
    int N = n[ax];
    size_t outer = tot / (inner * N);
    double complex *tmp = malloc(sizeof(double complex) * N);
    double complex *w = malloc(sizeof(double complex) * N);
    for (int k = 0; k < N; k++) w[k] = cexp(sign * 2.0 * M_PI * I * k / N);
    for (size_t o = 0; o < outer; o++) for (size_t i = 0; i < inner; i++) {
        double complex *x = a + o * N * inner + i;
        for (int k = 0; k < N; k++) {
            double complex s = 0;
            for (int j = 0; j < N; j++) s += x[j * inner] * w[(int)(((long)j * k) % N)];
            tmp[k] = s;
        }
        for (int k = 0; k < N; k++) x[k * inner] = tmp[k];
    }
    free(tmp); free(w);
}
void fftw_execute(const fftw_plan p) {
    if (!p) { g_error |= 1; return; }
    g_nexec++;
    int rank = p->rank;
    size_t tot = 1;
    for (int d = 0; d < rank; d++) tot *= p->n[d];
    int nh[MAXRANK]; memcpy(nh, p->n, sizeof(int)*rank); nh[rank-1] = p->n[rank-1]/2 + 1;
    size_t htot = tot / p->n[rank-1] * nh[rank-1];
    /* extent check */
    {
        size_t imax = 0, omax = 0; int idx[MAXRANK];
        const int *nin = (p->kind == 2) ? nh : p->n, *nout = (p->kind == 1) ? nh : p->n;
        for (int d = 0; d < rank; d++) idx[d] = nin[d]-1;
        imax = (size_t)(p->howmany-1) * p->idist + lin(rank, idx, p->ine) * p->istride + 1;
        for (int d = 0; d < rank; d++) idx[d] = nout[d]-1;
        omax = (size_t)(p->howmany-1) * p->odist + lin(rank, idx, p->one) * p->ostride + 1;
        size_t isz = (p->kind == 1) ? sizeof(double) : sizeof(fftw_complex);
        size_t osz = (p->kind == 2) ? sizeof(double) : sizeof(fftw_complex);
        if (p->howmany > 0 && tot > 0 &&
            (out_of_bounds(p->in, imax*isz) || out_of_bounds(p->out, omax*osz))) {
            g_error |= 2; return;
        }
    }
    double complex *buf = malloc(sizeof(double complex) * tot * (p->howmany ? p->howmany : 1));
    int idx[MAXRANK];
    /* gather all batches first (in-place safe) */
    for (int b = 0; b < p->howmany; b++) {
        double complex *a = buf + (size_t)b * tot;
        for (size_t t = 0; t < tot; t++) {
            size_t r = t;
            for (int d = rank-1; d >= 0; d--) { idx[d] = r % p->n[d]; r /= p->n[d]; }
            if (p->kind == 0) {
                const fftw_complex *in = p->in;
                size_t off = (size_t)b * p->idist + lin(rank, idx, p->ine) * p->istride;
                a[t] = in[off][0] + I * in[off][1];
            } else if (p->kind == 1) {
                const double *in = p->in;
                size_t off = (size_t)b * p->idist + lin(rank, idx, p->ine) * p->istride;
                a[t] = in[off];
            } else {
                const fftw_complex *in = p->in;
                int j[MAXRANK], conj = 0;
                memcpy(j, idx, sizeof(int)*rank);
                if (idx[rank-1] >= nh[rank-1]) {
                    conj = 1;
                    for (int d = 0; d < rank; d++) j[d] = (p->n[d] - idx[d]) % p->n[d];
                }
                size_t off = (size_t)b * p->idist + lin(rank, j, p->ine) * p->istride;
                a[t] = in[off][0] + (conj ? -1 : 1) * I * in[off][1];
            }
        }
    }
    for (int b = 0; b < p->howmany; b++)
        for (int ax = 0; ax < rank; ax++) dft_axis(buf + (size_t)b * tot, rank, p->n, ax, p->sign);
    for (int b = 0; b < p->howmany; b++) {
        double complex *a = buf + (size_t)b * tot;
        for (size_t t = 0; t < tot; t++) {
            size_t r = t;
            for (int d = rank-1; d >= 0; d--) { idx[d] = r % p->n[d]; r /= p->n[d]; }
            if (p->kind == 1 && idx[rank-1] >= nh[rank-1]) continue;
            size_t off = (size_t)b * p->odist + lin(rank, idx, p->one) * p->ostride;
            if (p->kind == 2) { ((double *)p->out)[off] = creal(a[t]); }
            else { fftw_complex *out = p->out; out[off][0] = creal(a[t]); out[off][1] = cimag(a[t]); }
        }
    }
    (void)htot;
    free(buf);
}
