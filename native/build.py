"""Compile the CiderPress C back end from the *current working tree* of VERIF_REPO.

The stock CMake build downloads libxc and FFTW and cannot run offline, so the
sources are compiled directly with gcc.  The build is keyed by a hash of every
C source / header under ciderpress/lib (except the GPAW-only pwutil), the FFTW
test double and the flags, so an edited file always gives a fresh build while an
unchanged tree is compiled once.

Usage:  python native/build.py [--asan] [--repo PATH]   -> prints the lib dir
"""
import hashlib
import os
import shutil
import subprocess
import sys
import sysconfig
import time
from concurrent.futures import ThreadPoolExecutor

HERE = os.path.dirname(os.path.abspath(__file__))
VERIF = os.path.dirname(HERE)
BUILD_ROOT = os.path.join(VERIF, ".build")

LIBS = {
    "fft_wrapper": ["fft_wrapper/cider_fft.c"],
    "mcider": [
        "mod_cider/" + f
        for f in (
            "frac_lapl.c cider_coefs.c cider_grids.c spline.c sph_harm.c "
            "conv_interpolation.c convolutions.c fast_sdmx.c pbc_tools.c "
            "debug_numint.c model_utils.c"
        ).split()
    ],
    "numint": ["numint_cider/nr_numint.c"],
    "xc_utils": ["xc_utils/libxc_baselines.c"],
    "sbt": ["sbt/sbt.c"],
}
SRC_DIRS = ["fft_wrapper", "mod_cider", "numint_cider", "xc_utils", "sbt"]

CONFIG_H = """#ifndef _CIDER_FFT_CONFIG_H
#define _CIDER_FFT_CONFIG_H
#define FFT_MKL_BACKEND 1
#define FFT_FFTW_BACKEND 2
#define HAVE_MPI 0
#define FFT_BACKEND 2
#endif
"""

FLAGS = {
    "plain": ["-O2", "-g", "-fPIC", "-fopenmp", "-std=gnu11", "-w"],
    "asan": [
        "-O1",
        "-g",
        "-fPIC",
        "-fopenmp",
        "-std=gnu11",
        "-w",
        "-fgnu89-inline",
        "-fno-omit-frame-pointer",
        "-fsanitize=address,undefined",
        "-fno-sanitize-recover=undefined",
    ],
}


def pyscf_deps():
    import importlib.util

    spec = importlib.util.find_spec("pyscf")
    root = os.path.join(os.path.dirname(spec.origin), "lib", "deps")
    return os.path.join(root, "include"), os.path.join(root, "lib")


def repo_root():
    return os.path.abspath(os.environ.get("VERIF_REPO", "/repo"))


def _source_files(libroot):
    out = []
    for d in SRC_DIRS:
        full = os.path.join(libroot, d)
        if not os.path.isdir(full):
            continue
        for f in sorted(os.listdir(full)):
            if f.endswith((".c", ".h")) and f != "cider_fft_config.h":
                out.append(os.path.join(d, f))
    return out


def source_hash(repo, variant):
    libroot = os.path.join(repo, "ciderpress", "lib")
    h = hashlib.sha256()
    for rel in _source_files(libroot):
        h.update(rel.encode())
        with open(os.path.join(libroot, rel), "rb") as f:
            h.update(f.read())
    for f in ("fftw3.h", "fftw3_shim.c", "build.py"):
        with open(os.path.join(HERE, f), "rb") as fh:
            h.update(fh.read())
    h.update(" ".join(FLAGS[variant]).encode())
    return h.hexdigest()[:20]


class BuildError(RuntimeError):
    pass


def _run(cmd, cwd=None):
    p = subprocess.run(cmd, cwd=cwd, capture_output=True, text=True)
    if p.returncode != 0:
        raise BuildError("command failed: %s\n%s\n%s" % (" ".join(cmd), p.stdout, p.stderr))


def _prune(keep):
    """Keep disk use bounded: retain the most recent few build directories."""
    try:
        ents = [
            os.path.join(BUILD_ROOT, e)
            for e in os.listdir(BUILD_ROOT)
            if e.startswith("b_") and os.path.isdir(os.path.join(BUILD_ROOT, e))
        ]
    except FileNotFoundError:
        return
    ents.sort(key=lambda p: os.path.getmtime(p), reverse=True)
    now = time.time()
    for p in ents[6:]:
        # a directory touched in the last three hours may be in use by a check running concurrently against another tree
        if p != keep and now - os.path.getmtime(p) > 3 * 3600:
            shutil.rmtree(p, ignore_errors=True)


def build(variant="plain", repo=None, verbose=False):
    """Return the directory holding lib*.so for `variant` built from `repo`."""
    repo = repo or repo_root()
    libroot = os.path.join(repo, "ciderpress", "lib")
    hsh = source_hash(repo, variant)
    bdir = os.path.join(BUILD_ROOT, "b_%s_%s" % (variant, hsh))
    stamp = os.path.join(bdir, "OK")
    if os.path.exists(stamp):
        os.utime(bdir)
        return bdir
    t0 = time.time()
    tmp = bdir + ".tmp%d" % os.getpid()
    shutil.rmtree(tmp, ignore_errors=True)
    os.makedirs(os.path.join(tmp, "src"))
    # copy sources so that our generated config header is the one found by
    # #include "cider_fft_config.h" (quotes search the including file's dir)
    for rel in _source_files(libroot):
        dst = os.path.join(tmp, "src", rel)
        os.makedirs(os.path.dirname(dst), exist_ok=True)
        shutil.copyfile(os.path.join(libroot, rel), dst)
    with open(os.path.join(tmp, "src", "fft_wrapper", "cider_fft_config.h"), "w") as f:
        f.write(CONFIG_H)
    shutil.copyfile(os.path.join(HERE, "fftw3.h"), os.path.join(tmp, "src", "fft_wrapper", "fftw3.h"))
    shutil.copyfile(os.path.join(HERE, "fftw3_shim.c"), os.path.join(tmp, "src", "fft_wrapper", "fftw3_shim.c"))
    inc, libdir = pyscf_deps()
    flags = FLAGS[variant]
    src = os.path.join(tmp, "src")
    cc = os.environ.get("CC", "gcc")
    jobs = []
    libs = {k: list(v) for k, v in LIBS.items()}
    libs["fft_wrapper"].append("fft_wrapper/fftw3_shim.c")
    for lib, files in libs.items():
        for rel in files:
            obj = os.path.join(tmp, rel.replace("/", "_")[:-2] + ".o")
            cmd = [cc] + flags + [
                "-I", os.path.join(src, "fft_wrapper"),
                "-I", os.path.join(src, "mod_cider"),
                "-I", inc,
                "-c", os.path.join(src, rel), "-o", obj,
            ]
            jobs.append((lib, obj, cmd))
    with ThreadPoolExecutor(8) as ex:
        list(ex.map(lambda j: _run(j[2]), jobs))
    link_extra = {
        "fft_wrapper": ["-lm"],
        "mcider": ["-L", tmp, "-lfft_wrapper", "-lopenblas", "-llapack", "-lm"],
        "numint": ["-lopenblas", "-lm"],
        "xc_utils": ["-L", libdir, "-lxc", "-Wl,-rpath," + libdir, "-lopenblas", "-lm"],
        "sbt": ["-L", tmp, "-lfft_wrapper", "-lopenblas", "-lm"],
    }
    for lib in ["fft_wrapper", "mcider", "numint", "xc_utils", "sbt"]:
        objs = [o for (l, o, _) in jobs if l == lib]
        cmd = [cc] + flags + ["-shared", "-o", os.path.join(tmp, "lib%s.so" % lib)] + objs
        cmd += link_extra[lib] + ["-Wl,-rpath,$ORIGIN"]
        _run(cmd)
    with open(os.path.join(tmp, "OK"), "w") as f:
        f.write("%s %s %.1fs\n" % (variant, repo, time.time() - t0))
    try:
        os.rename(tmp, bdir)
    except OSError:
        # somebody else finished first
        shutil.rmtree(tmp, ignore_errors=True)
    _prune(bdir)
    if verbose:
        print("built %s in %.1fs" % (bdir, time.time() - t0), file=sys.stderr)
    return bdir


def asan_preload():
    cc = os.environ.get("CC", "gcc")
    a = subprocess.check_output([cc, "-print-file-name=libasan.so"], text=True).strip()
    u = subprocess.check_output([cc, "-print-file-name=libubsan.so"], text=True).strip()
    return os.path.realpath(a) + ":" + os.path.realpath(u)


if __name__ == "__main__":
    variant = "asan" if "--asan" in sys.argv else "plain"
    repo = None
    if "--repo" in sys.argv:
        repo = sys.argv[sys.argv.index("--repo") + 1]
    try:
        print(build(variant, repo, verbose=True))
    except BuildError as e:
        print(str(e), file=sys.stderr)
        sys.exit(2)
