"""G-settings -- generators for every CiderPress settings class (DESIGN.md 4.1).

Public API (stable; other property modules import this)
=======================================================

Every ``st_*`` function returns a Hypothesis strategy that yields a *plain JSON-able spec
dict* (ints, floats, str, lists, dicts, None) with a ``"cls"`` key; every ``build_*``
function turns such a dict into the object of the tree under test.  ``build_settings(spec)``
dispatches on ``spec["cls"]``.  Nothing of ciderpress is imported at module import time.

Strategies
----------
st_semilocal(modes=SL_MODES)
    {"cls": "SemilocalSettings", "mode": "nst"|"npa"|"ns"|"np"}
st_params(level, spec="se")
    one parameter tuple [a0, grad_mul] (GGA) / [a0, grad_mul, tau_mul] (MGGA), plus erf_mul
    for spec "se_erf_rinv".  a0 in [0.5, 8] (log-uniform, sometimes an int), grad_mul in
    {0} U [0, 0.1], tau_mul in {0} U [0, 0.1] with a0 > tau_fac(tau_mul) (so B > 0),
    erf_mul in [0.25, 4].
st_nldf(version=None, level=None, rho_mult=None, max_feat=4, allow_empty=False,
        avoid_gga_expnt=False)
    {"cls": "NLDFSettingsVI"|"NLDFSettingsVJ"|"NLDFSettingsVIJ"|"NLDFSettingsVK",
     "sl_level", "theta_params", "rho_mult",
     "l0_feat_specs", "l1_feat_specs", "l1_feat_dots" (list of [j, k]), "dot_type"   (VI, VIJ)
     "feat_specs", "feat_params"                                                 (VJ, VIJ)
     "feat_params", "rho_damp"                                                   (VK)}
    spec lists are drawn from the ALLOWED_* tables in arbitrary order, with repeats;
    l1_feat_dots over all legal index pairs including -1.
st_sdmx(kinds=SDMX_KINDS, ueg_only=True)
    {"cls": "SDMXSettings", "pows"} | {"cls": "SDMXGSettings", "pows", "ndt"} |
    {"cls": "SDMX1Settings", "pows", "n1"} | {"cls": "SDMXG1Settings", "pows", "nd", "n1"} |
    {"cls": "SDMXFullSettings", "settings": [[ratio, pows, [n0, nd, n1, n1d]], ...]} |
    {"cls": "SADMSettings", "mode"}
    ueg_only=True keeps pows in {0,1,2} and ratios in {1,1.5,2} (the documented UEG domain).
st_fraclapl()
    {"cls": "FracLaplSettings", "slist", "nk0", "nk1", "l1_dots", "nd1", "ld_dots", "ndd"}
st_settings()                      any single settings spec of the above
st_feature_settings(families=("nldf","nlof","sdmx"), normalizers=("default","reasonable","list"),
                    sl_modes=SL_MODES, avoid_gga_expnt=False, min_families=0)
    {"cls": "FeatureSettings", "sl": spec, "nldf": spec|None, "nlof": spec|None,
     "sdmx": spec|None, "normalizers": {"kind": "default"|"reasonable"|"list", "list": [...]}}
    the NLDF level is GGA whenever the semilocal mode is ns/np (docs/features/sl.rst);
    "reasonable" is only drawn where reasonable_normalizer_available(spec) holds.

Builders
--------
build_settings(spec)               any spec with a "cls" key (incl. FeatureSettings)
build_feature_settings(spec)       FeatureSettings incl. normalisers (kind "reasonable" falls back to the default list and
                                   sets fs._verif_norm_fallback = True if the tree raises NotImplementedError)
ctor_args(spec) -> (cls_name, [[arg_name, value], ...])   positional constructor arguments
build_from_ctor(cls_name, args)    call the constructor with (possibly mutated) arguments

Model-independent bookkeeping re-typed from the documentation (usable as oracles)
---------------------------------------------------------------------------------
spec_nfeat(spec)                   number of features the docs say the settings define
spec_usps(spec)                    uniform-scaling powers from the documented tables
family_counts(fs_spec)             [nsl, nnldf, nnlof, nsdmx]
reasonable_normalizer_available(spec, known_defects=True)
class_label(spec)                  short label for ctx.event
assert_tables_current()            the generator's copies of the ALLOWED_* tables equal the tree's
TAU_FAC                            tau_fac = TAU_FAC * tau_mul  (1.2 (6 pi^2)^(2/3) / pi)
"""
import math

from hypothesis import strategies as st

SL_MODES = ["nst", "npa", "ns", "np"]
LEVELS = ["GGA", "MGGA"]
RHO_MULTS = ["one", "expnt"]
I_SPECS_L0 = ["se", "se_r2", "se_apr2", "se_ap", "se_ap2r2", "se_lapl"]
I_SPECS_L1 = ["se_grad", "se_rvec"]
J_SPECS = ["se", "se_ar2", "se_a2r4", "se_erf_rinv"]
RHO_DAMPS = ["exponential"]
NLDF_CLASSES = {"i": "NLDFSettingsVI", "j": "NLDFSettingsVJ", "ij": "NLDFSettingsVIJ", "k": "NLDFSettingsVK"}
SDMX_KINDS = ["SDMXSettings", "SDMXGSettings", "SDMX1Settings", "SDMXG1Settings", "SDMXFullSettings",
              "SADMSettings"]
TAU_FAC = 1.2 * (6 * math.pi ** 2) ** (2.0 / 3) / math.pi

# uniform-scaling powers as documented in the SPEC_USPS / RHO_MULT_USPS tables of settings.py
_USPS = {"se": 0, "se_r2": -2, "se_ar2": 0, "se_a2r4": 0, "se_erf_rinv": 0, "se_ap": 2, "se_apr2": 0,
         "se_ap2r2": 2, "se_lapl": 2, "se_grad": 1, "se_rvec": -1, "grad_rho": 4}
_RHO_MULT_USPS = {"one": 0, "expnt": 2}


def assert_tables_current():
    from ciderpress.dft import settings as S

    assert list(S.ALLOWED_I_SPECS_L0) == I_SPECS_L0, "generator out of date: ALLOWED_I_SPECS_L0"
    assert list(S.ALLOWED_I_SPECS_L1) == I_SPECS_L1, "generator out of date: ALLOWED_I_SPECS_L1"
    assert list(S.ALLOWED_J_SPECS) == J_SPECS, "generator out of date: ALLOWED_J_SPECS"
    assert list(S.ALLOWED_K_SPECS) == J_SPECS, "generator out of date: ALLOWED_K_SPECS"
    assert list(S.ALLOWED_RHO_MULTS) == RHO_MULTS, "generator out of date: ALLOWED_RHO_MULTS"
    assert list(S.ALLOWED_RHO_DAMPS) == RHO_DAMPS, "generator out of date: ALLOWED_RHO_DAMPS"


def _logfloat(lo, hi):
    return st.floats(math.log(lo), math.log(hi)).map(lambda t: float(math.exp(t)))


# ------------------------------------------------------------------------------------------------
# strategies

@st.composite
def st_semilocal(draw, modes=None):
    return {"cls": "SemilocalSettings", "mode": draw(st.sampled_from(list(modes or SL_MODES)))}


@st.composite
def st_params(draw, level, spec="se"):
    k = draw(st.integers(0, 9))
    if k == 0:
        a0 = draw(st.sampled_from([1, 2, 4]))  # ints are accepted by _check_params
    else:
        a0 = draw(_logfloat(0.5, 8.0))
    zero_or = lambda hi: draw(st.one_of(st.just(0.0), st.floats(0.0, hi)))  # noqa: E731
    params = [a0, zero_or(0.1)]
    if level == "MGGA":
        params.append(zero_or(min(0.1, 0.9 * float(a0) / TAU_FAC)))
    if spec == "se_erf_rinv":
        params.append(draw(_logfloat(0.25, 4.0)))
    return params


@st.composite
def _st_vi_part(draw, max_feat, allow_empty):
    l0 = draw(st.lists(st.sampled_from(I_SPECS_L0), min_size=0, max_size=max_feat))
    l1 = draw(st.lists(st.sampled_from(I_SPECS_L1), min_size=0, max_size=3))
    idx = st.integers(-1, len(l1) - 1)
    dots = draw(st.lists(st.tuples(idx, idx).map(list), min_size=0, max_size=3))
    if not allow_empty and not l0 and not dots:
        l0 = [draw(st.sampled_from(I_SPECS_L0))]
    return {"l0_feat_specs": l0, "l1_feat_specs": l1, "l1_feat_dots": dots,
            "dot_type": draw(st.sampled_from(["tuple", "list"]))}


@st.composite
def _st_vj_part(draw, level, max_feat, min_feat=1):
    specs = draw(st.lists(st.sampled_from(J_SPECS), min_size=min_feat, max_size=max_feat))
    return {"feat_specs": specs, "feat_params": [draw(st_params(level, s)) for s in specs]}


@st.composite
def st_nldf(draw, version=None, level=None, rho_mult=None, max_feat=4, allow_empty=False,
            avoid_gga_expnt=False):
    version = version or draw(st.sampled_from(["i", "j", "ij", "k"]))
    level = level or draw(st.sampled_from(LEVELS))
    if rho_mult is None:
        rho_mult = "one" if (avoid_gga_expnt and level == "GGA") else draw(st.sampled_from(RHO_MULTS))
    spec = {"cls": NLDF_CLASSES[version], "sl_level": level, "theta_params": draw(st_params(level)),
            "rho_mult": rho_mult}
    if version in ("i", "ij"):
        spec.update(draw(_st_vi_part(max_feat, allow_empty or version == "ij")))
    if version in ("j", "ij"):
        spec.update(draw(_st_vj_part(level, max_feat, 0 if allow_empty else 1)))
    if version == "k":
        n = draw(st.integers(0 if allow_empty else 1, max_feat))
        spec["feat_params"] = [draw(st_params(level)) for _ in range(n)]
        spec["rho_damp"] = "exponential"
    return spec


def _st_pows(ueg_only, min_size=1, max_size=3):
    if ueg_only:
        elem = st.sampled_from([0, 1, 2, 0, 1, 2, 1.0, 2.0])
    else:
        elem = st.one_of(st.sampled_from([0, 1, 2]), st.sampled_from([0.5, 1.5, 3, -1]))
    return st.one_of(st.permutations([0, 1, 2]).flatmap(
        lambda p: st.integers(max(min_size, 1), max_size).map(lambda n: list(p[:n]))),
        st.lists(elem, min_size=min_size, max_size=max_size))


@st.composite
def st_sdmx(draw, kinds=None, ueg_only=True):
    kind = draw(st.sampled_from(list(kinds or SDMX_KINDS)))
    if kind == "SADMSettings":
        return {"cls": kind, "mode": draw(st.sampled_from(["smooth", "exact"]))}
    if kind == "SDMXFullSettings":
        ratios = [1.0, 1.5, 2.0, 1, 2] if ueg_only else [1.0, 1.5, 2.0, 1.25, 3.0]
        nr = draw(st.integers(1, 3))
        chosen = []
        for r in draw(st.permutations(ratios)):
            if all(float(r) != float(c) for c in chosen):
                chosen.append(r)
            if len(chosen) == nr:
                break
        items = []
        for r in chosen:
            pows = draw(_st_pows(ueg_only))
            nums = [draw(st.integers(0, len(pows))) for _ in range(4)]
            items.append([r, pows, nums])
        return {"cls": kind, "settings": items}
    pows = draw(_st_pows(ueg_only))
    spec = {"cls": kind, "pows": pows}
    if kind == "SDMXGSettings":
        spec["ndt"] = draw(st.integers(0, len(pows)))
    elif kind == "SDMX1Settings":
        spec["n1"] = draw(st.integers(0, len(pows)))
    elif kind == "SDMXG1Settings":
        spec["nd"] = draw(st.integers(0, len(pows)))
        spec["n1"] = draw(st.integers(0, len(pows)))
    return spec


@st.composite
def st_fraclapl(draw):
    s_elem = st.one_of(st.sampled_from([-0.5, 0.0, 0.5, 1.0, 1.5]), st.floats(-1.0, 2.0))
    slist = draw(st.lists(s_elem, min_size=1, max_size=4))
    npow = len(slist)
    nk0 = draw(st.integers(0, npow))
    nk1 = draw(st.integers(0, npow))
    nd1 = draw(st.integers(0, npow))
    ndd = draw(st.integers(0, nd1))
    i1 = st.integers(-1, nk1 - 1)
    id_ = st.integers(-1, nd1 - 1)
    l1_dots = draw(st.lists(st.tuples(i1, i1).map(list), min_size=0, max_size=3))
    ld_dots = draw(st.lists(st.tuples(id_, id_).map(list), min_size=0, max_size=3))
    if nk0 + len(l1_dots) + len(ld_dots) + ndd == 0:
        nk0 = 1
    return {"cls": "FracLaplSettings", "slist": slist, "nk0": nk0, "nk1": nk1, "l1_dots": l1_dots,
            "nd1": nd1, "ld_dots": ld_dots, "ndd": ndd}


def st_settings(avoid_gga_expnt=False):
    return st.one_of(st_semilocal(), st_nldf(avoid_gga_expnt=avoid_gga_expnt), st_sdmx(), st_fraclapl())


@st.composite
def st_feature_settings(draw, families=("nldf", "nlof", "sdmx"), normalizers=("default", "reasonable", "list"),
                        sl_modes=None, avoid_gga_expnt=False, min_families=0, nldf_kwargs=None):
    from props.c12 import st_normalizer

    sl = draw(st_semilocal(sl_modes))
    fams = list(families)
    present = [f for f in fams if draw(st.booleans())]
    while len(present) < min(min_families, len(fams)):
        present.append(draw(st.sampled_from([f for f in fams if f not in present])))
    spec = {"cls": "FeatureSettings", "sl": sl, "nldf": None, "nlof": None, "sdmx": None}
    if "nldf" in present:
        level = "GGA" if sl["mode"] in ("ns", "np") else None
        spec["nldf"] = draw(st_nldf(level=level, avoid_gga_expnt=avoid_gga_expnt, **(nldf_kwargs or {})))
    if "nlof" in present:
        spec["nlof"] = draw(st_fraclapl())
    if "sdmx" in present:
        spec["sdmx"] = draw(st_sdmx())
    kind = draw(st.sampled_from(list(normalizers)))
    if kind == "reasonable" and not reasonable_normalizer_available(spec):
        kind = "list" if "list" in normalizers else "default"
    norm = {"kind": kind}
    if kind == "list":
        nsl, nrest = family_counts(spec)[0], sum(family_counts(spec)[1:])
        lst = [None] * nsl
        for _ in range(nrest):
            lst.append(None if draw(st.integers(0, 5)) == 0 else draw(st_normalizer()))
        norm["list"] = lst
    spec["normalizers"] = norm
    return spec


# ------------------------------------------------------------------------------------------------
# bookkeeping re-typed from the documentation

def _dots_usps(l1_specs, dots, usp0):
    """Dot products of l=1 integrals: every nonlocal vector integral carries the scaling of the rho_mult factor b(r')
    (nldf.rst: "G has the same uniform scaling behavior as b"), the semilocal density gradient (index -1) does not."""
    out = []
    for j, k in dots:
        s1 = "grad_rho" if j == -1 else l1_specs[j]
        s2 = "grad_rho" if k == -1 else l1_specs[k]
        nvec = (j != -1) + (k != -1)
        out.append(nvec * usp0 + _USPS[s1] + _USPS[s2])
    return out


def spec_usps(spec):
    """Uniform-scaling power of every feature, from the documented tables (SPEC_USPS docstring,
    docs/features/sdmx.rst: lambda^(3+j), FracLaplSettings: 3+2s, sl.rst)."""
    c = spec["cls"]
    if c == "SemilocalSettings":
        return {"nst": [3, 8, 5], "npa": [3, 0, 0], "ns": [3, 8], "np": [3, 0]}[spec["mode"]]
    if c.startswith("NLDFSettings"):
        u0 = _RHO_MULT_USPS[spec["rho_mult"]]
        out = []
        if c in ("NLDFSettingsVJ", "NLDFSettingsVIJ"):
            out += [u0 + _USPS[s] for s in spec["feat_specs"]]
        if c == "NLDFSettingsVK":
            out += [u0] * len(spec["feat_params"])
        if c in ("NLDFSettingsVI", "NLDFSettingsVIJ"):
            out += [u0 + _USPS[s] for s in spec["l0_feat_specs"]]
            out += _dots_usps(spec["l1_feat_specs"], spec["l1_feat_dots"], u0)
        return out
    if c == "SADMSettings":
        return [4]
    if c == "SDMXSettings":
        return [3 + n for n in spec["pows"]]
    if c == "SDMXGSettings":
        u = [3 + n for n in spec["pows"]]
        return u + u[: spec["ndt"]]
    if c == "SDMX1Settings":
        u = [3 + n for n in spec["pows"]]
        return u + u[: spec["n1"]]
    if c == "SDMXG1Settings":
        u = [3 + n for n in spec["pows"]]
        u = u + u[: spec["nd"]]
        return u + u[: spec["n1"]]
    if c == "SDMXFullSettings":
        items = sorted(spec["settings"], key=lambda it: float(it[0]))
        out = []
        for _, pows, nums in items:
            out += [3 + n for n in pows[: nums[0]]] + [3 + n for n in pows[: nums[1]]]
        for _, pows, nums in items:
            out += [3 + n for n in pows[: nums[2]]] + [3 + n for n in pows[: nums[3]]]
        return out
    if c == "FracLaplSettings":
        us = [3 + 2 * s for s in spec["slist"]] + [3]
        out = [us[i] for i in range(spec["nk0"])]
        for j, k in spec["l1_dots"] + spec["ld_dots"]:
            out.append(us[j] + us[k] + 2)
        out += [us[i] + 2 for i in range(spec["ndd"])]
        return out
    if c == "FeatureSettings":
        out = []
        for key in ("sl", "nldf", "nlof", "sdmx"):
            if spec.get(key) is not None:
                out += spec_usps(spec[key])
        return out
    raise ValueError(c)


def spec_nfeat(spec):
    return len(spec_usps(spec))


def family_counts(fs_spec):
    return [0 if fs_spec.get(k) is None else spec_nfeat(fs_spec[k]) for k in ("sl", "nldf", "nlof", "sdmx")]


def reasonable_normalizer_available(spec, known_defects=True):
    """False where get_reasonable_normalizer() is documented/observed to raise NotImplementedError
    (VI powers outside {0,-2,2,5}; SDMX pows outside {0,1,2}; ratios outside {1,1.5,2}) and, with
    known_defects, where it hits the GGA + rho_mult='expnt' IndexError (DESIGN 6 item 10)."""
    c = spec["cls"]
    if c == "FeatureSettings":
        return all(reasonable_normalizer_available(spec[k], known_defects)
                   for k in ("sl", "nldf", "nlof", "sdmx") if spec.get(k) is not None)
    if c.startswith("NLDFSettings"):
        if known_defects and spec["sl_level"] == "GGA" and spec["rho_mult"] == "expnt":
            return False
        if c in ("NLDFSettingsVI", "NLDFSettingsVIJ"):
            u0 = _RHO_MULT_USPS[spec["rho_mult"]]
            vi = [u0 + _USPS[s] for s in spec["l0_feat_specs"]]
            vi += _dots_usps(spec["l1_feat_specs"], spec["l1_feat_dots"], u0)
            return all(u in (0, -2, 2, 5) for u in vi)
        return True
    if c in ("SDMXSettings", "SDMXGSettings", "SDMX1Settings", "SDMXG1Settings"):
        return all(p in (0, 1, 2) for p in spec["pows"])
    if c == "SDMXFullSettings":
        return all(float(r) in (1.0, 1.5, 2.0) and all(p in (0, 1, 2) for p in pows)
                   for r, pows, _ in spec["settings"])
    return True


def class_label(spec):
    c = spec["cls"]
    if c == "SemilocalSettings":
        return "SL:" + spec["mode"]
    if c.startswith("NLDFSettings"):
        return "%s:%s:%s" % (c[len("NLDFSettings"):], spec["sl_level"], spec["rho_mult"])
    if c == "FeatureSettings":
        return "FS[" + ",".join(class_label(spec[k]) for k in ("sl", "nldf", "nlof", "sdmx")
                                if spec.get(k) is not None) + "]"
    return c.replace("Settings", "")


# ------------------------------------------------------------------------------------------------
# builders

def _dots(spec, key="l1_feat_dots"):
    conv = tuple if spec.get("dot_type", "tuple") == "tuple" else list
    return [conv(d) for d in spec[key]]


def ctor_args(spec):
    """(class name, [[argument name, value], ...]) in positional order of the constructor."""
    c = spec["cls"]
    if c == "SemilocalSettings":
        return c, [["mode", spec["mode"]]]
    if c.startswith("NLDFSettings"):
        head = [["sl_level", spec["sl_level"]], ["theta_params", list(spec["theta_params"])],
                ["rho_mult", spec["rho_mult"]]]
        vi = lambda sfx="": [["l0_feat_specs" + sfx, list(spec["l0_feat_specs"])],  # noqa: E731
                             ["l1_feat_specs" + sfx, list(spec["l1_feat_specs"])],
                             ["l1_feat_dots" + sfx, _dots(spec)]]
        vj = lambda sfx="": [["feat_specs" + sfx, list(spec["feat_specs"])],  # noqa: E731
                             ["feat_params" + sfx, [list(p) for p in spec["feat_params"]]]]
        if c == "NLDFSettingsVI":
            return c, head + vi()
        if c == "NLDFSettingsVJ":
            return c, head + vj()
        if c == "NLDFSettingsVIJ":
            return c, head + vi("_i") + vj("_j")
        if c == "NLDFSettingsVK":
            return c, head + [["feat_params", [list(p) for p in spec["feat_params"]]],
                              ["rho_damp", spec["rho_damp"]]]
    if c == "SADMSettings":
        return c, [["mode", spec["mode"]]]
    if c == "SDMXSettings":
        return c, [["pows", list(spec["pows"])]]
    if c == "SDMXGSettings":
        return c, [["pows", list(spec["pows"])], ["ndt", spec["ndt"]]]
    if c == "SDMX1Settings":
        return c, [["pows", list(spec["pows"])], ["n1", spec["n1"]]]
    if c == "SDMXG1Settings":
        return c, [["pows", list(spec["pows"])], ["nd", spec["nd"]], ["n1", spec["n1"]]]
    if c == "SDMXFullSettings":
        return c, [["settings_dict", [[r, list(p), list(n)] for r, p, n in spec["settings"]]]]
    if c == "FracLaplSettings":
        return c, [["slist", list(spec["slist"])], ["nk0", spec["nk0"]], ["nk1", spec["nk1"]],
                   ["l1_dots", [tuple(d) for d in spec["l1_dots"]]], ["nd1", spec["nd1"]],
                   ["ld_dots", [tuple(d) for d in spec["ld_dots"]]], ["ndd", spec["ndd"]]]
    raise ValueError(c)


def build_from_ctor(cls_name, args):
    """Call the constructor of `cls_name` with the positional `args` ([[name, value], ...]).
    SDMXFullSettings' JSON-able item list is turned into the documented dict here."""
    from ciderpress.dft import settings as S

    cls = getattr(S, cls_name)
    vals = [v for _, v in args]
    if cls_name == "SDMXFullSettings" and isinstance(vals[0], list):
        try:
            vals[0] = {it[0]: (it[1], it[2]) for it in vals[0]}
        except (TypeError, IndexError, KeyError):
            pass
    return cls(*vals)


def build_feature_settings(spec):
    from ciderpress.dft import settings as S
    from ciderpress.dft.feat_normalizer import FeatNormalizerList

    kw = {}
    for key, arg in (("sl", "sl_settings"), ("nldf", "nldf_settings"), ("nlof", "nlof_settings"),
                     ("sdmx", "sdmx_settings")):
        if spec.get(key) is not None:
            kw[arg] = build_settings(spec[key])
    norm = spec.get("normalizers") or {"kind": "default"}
    if norm["kind"] == "list":
        from props.c12 import build_normalizer

        lst = [None if n is None else build_normalizer(n) for n in norm["list"]]
        kw["normalizers"] = FeatNormalizerList(lst, slmode=spec["sl"]["mode"])
    fs = S.FeatureSettings(**kw)
    fs._verif_norm_fallback = False
    if norm["kind"] == "reasonable":
        try:
            fs.assign_reasonable_normalizer()
        except NotImplementedError:
            # reasonable_normalizer_available() mirrors the tree the generator was written for; on a tree where the
            # recommendation is not implemented for this combination the default (identity) normalisers are kept
            fs._verif_norm_fallback = True
    return fs


def build_settings(spec):
    if spec["cls"] == "FeatureSettings":
        return build_feature_settings(spec)
    return build_from_ctor(*ctor_args(spec))
