import os
import sys


def main(argv):
    from . import bootstrap

    bootstrap.early_env()
    from . import runner

    if "--replay" in argv:
        return runner.replay_cli(argv[argv.index("--replay") + 1])
    prop = argv[0].upper()
    tier = os.environ.get("VERIF_TIER", "quick")
    if "--tier" in argv:
        tier = argv[argv.index("--tier") + 1]
    only = None
    if "--only" in argv:
        only = set(argv[argv.index("--only") + 1].split(","))
    seed = int(os.environ.get("VERIF_SEED", "1") or "1")
    return runner.check_main(prop, tier, seed, only=only)


if __name__ == "__main__":
    sys.exit(main(sys.argv[1:]))
