"""G-layout: synthetic and real AtomicGridsIndexer / ATCBasis / ConvolutionCollection /
interpolator layouts for C05, C10 (DESIGN 4.1).

Everything here is a pure function of a JSON-able *spec* (drawn by the Hypothesis strategies
below), so a saved case rebuilds the same objects.  The synthetic layouts follow the
construction of the real ones (gen_cider_grid.gen_atomic_grids_cider, AtomicGridsIndexer.from_tabs,
PyscfNLDFGenerator.from_mol_and_settings) but with free sizes: 1-3 atoms, per-atom lmax, 1-6
exponents per l from an even-tempered ladder, 1-12 radial shells with mixed Lebedev sizes,
index maps that are the identity / a permutation / a strict subset (density pruning), padding.

Domain restrictions taken from the code under test (constructed, never filtered):
  * indexer lmax >= lmax of every ATCBasis used with it (from_mol_and_settings raises otherwise;
    convert_rad2orb_ itself does not check);
  * input and output ATCBasis of a ConvolutionCollection have the same atoms and per-atom lmax
    (atco_out is always derived with get_convolution_expnts_from_expnts), every l keeps >= 1 exponent;
  * an interpolator with l=1 features (n1 > 0) needs lmax >= 1 on every atom (get_deriv_mol /
    fill_l1_coeff_* index the l-1 basis per atom);
  * no grid point coincides with a nucleus (real grids never do; directions are r/|r|).
"""
import os

# The checks change the OpenMP team size up to 64 inside 16 concurrent worker processes.  With
# libgomp's default active spinning that oversubscription costs minutes; the wait policy only
# changes how idle threads wait, never what is computed.  Must be set before libgomp is loaded
# (it is loaded together with libmcider, i.e. after this module is imported).
os.environ.setdefault("OMP_WAIT_POLICY", "passive")
os.environ.setdefault("GOMP_SPINCOUNT", "0")

import ctypes  # noqa: E402
from types import SimpleNamespace  # noqa: E402

import numpy as np  # noqa: E402
from hypothesis import strategies as st  # noqa: E402

from .oracles import rng_from  # noqa: E402

LEBEDEV_SMALL = [6, 14, 26, 38, 50]
LEBEDEV_ALL = [6, 14, 26, 38, 50, 74, 86, 110]
THREADS_C05 = [1, 3, 16]
TEAMS_C10 = [1, 2, 3, 5, 8, 16, 32, 64]
PRIMES = [3, 5, 7, 11, 13, 17, 19, 23, 29, 31, 37, 41, 43, 47, 53, 59, 61, 67, 71, 73, 79, 83, 89, 97, 101, 127, 131, 257]

_BASE_POS = [(0.0, 0.0, 0.0), (0.31, 0.52, 1.43), (-1.12, 0.93, -0.41)]


# ----------------------------------------------------------------------------------------------
# strategies (JSON-able specs)

def pfloat(lo, hi):
    return st.floats(np.log(lo), np.log(hi)).map(lambda t: float(np.exp(t)))


@st.composite
def st_atoms(draw, max_natm=3, max_l=4, max_nexp=4, min_l=0, same_lmax=False, min_l_first=0):
    """min_l: lower bound of every atom's lmax; min_l_first: lower bound for atom 0 (so that the
    largest lmax of the layout is >= min_l_first)."""
    natm = draw(st.integers(1, max_natm))
    scale = draw(st.floats(0.8, 2.0))
    atoms = []
    l0 = draw(st.integers(max(min_l, min_l_first), max_l))
    for ia in range(natm):
        lmax = l0 if (same_lmax or ia == 0) else draw(st.integers(min_l, max_l))
        nexp = [draw(st.integers(1, max_nexp)) for _ in range(lmax + 1)]
        jit = [draw(st.floats(-0.2, 0.2)) for _ in range(3)]
        xyz = [float(scale * b + j) for b, j in zip(_BASE_POS[ia], jit)]
        atoms.append({"xyz": xyz, "lmax": lmax, "nexp": nexp,
                      "emin": draw(pfloat(0.05, 0.6)), "beta": draw(st.floats(1.6, 3.0))})
    return atoms


@st.composite
def st_grid(draw, natm, max_nrad=12, lebedev=None, min_nrad=1):
    lebedev = lebedev or LEBEDEV_SMALL
    grid = []
    for ia in range(natm):
        nrad = draw(st.integers(min_nrad, max_nrad))
        mixed = draw(st.booleans())
        n0 = draw(st.sampled_from(lebedev))
        angs = [draw(st.sampled_from(lebedev)) if mixed else n0 for _ in range(nrad)]
        grid.append({"angs": angs, "rmin": draw(pfloat(0.02, 0.3)), "ratio": draw(st.floats(1.15, 1.9))})
    return grid


@st.composite
def st_idx(draw):
    return {"mode": draw(st.sampled_from(["identity", "perm", "perm", "subset"])),
            "padding": draw(st.sampled_from([0, 0, 3, 7])),
            "seed": draw(st.integers(0, 2**31 - 1))}


@st.composite
def st_alphas(draw, max_nalpha=12, min_nalpha=1):
    return {"nalpha": draw(st.integers(min_nalpha, max_nalpha)), "alpha0": draw(pfloat(0.004, 0.02)),
            "lambd": draw(st.floats(1.5, 3.0))}


@st.composite
def st_window(draw, nalpha):
    """stride / offset accepted by the wrappers: nalpha + offset <= stride."""
    if draw(st.integers(0, 2)) == 0:
        return {"offset": 0, "stride": nalpha}
    off = draw(st.integers(0, 4))
    return {"offset": off, "stride": nalpha + off + draw(st.integers(0, 4))}


@st.composite
def st_synth_layout(draw, max_natm=3, max_l=4, max_nexp=4, max_nrad=12, lebedev=None, min_l=0,
                    same_lmax=False, extra_idx_l=2, min_l_first=0):
    atoms = draw(st_atoms(max_natm, max_l, max_nexp, min_l, same_lmax, min_l_first))
    lmax = max(a["lmax"] for a in atoms)
    return {"kind": "synth", "atoms": atoms, "grid": draw(st_grid(len(atoms), max_nrad, lebedev)),
            # AtomicGridsIndexer needs lmax >= 1 (it reads the l=1 harmonics as directions)
            "idx_lmax": max(1, lmax + draw(st.integers(0, extra_idx_l))), "idx": draw(st_idx())}


REAL_MOLS = {
    "H2": "H 0.03 0.01 -0.37; H -0.02 0.04 0.38",
    "HF": "H 0.05 -0.02 0.0; F 0.11 0.21 0.93",
    "H2O": "O 0.02 0.03 0.01; H 0.05 0.757 0.587; H -0.03 -0.757 0.587",
    "He": "He 0.1 0.2 0.3",
    "LiH": "Li 0.0 0.1 0.0; H 0.2 0.1 1.6",
}


@st.composite
def st_real_layout(draw, mols=("H2", "HF", "H2O", "He"), levels=(0, 1), lmaxs=(2, 3, 4, 6)):
    return {"kind": "real", "mol": draw(st.sampled_from(list(mols))),
            "basis": draw(st.sampled_from(["sto-3g", "6-31g", "def2-svp"])),
            "level": draw(st.sampled_from(list(levels))), "lmax": draw(st.sampled_from(list(lmaxs))),
            "prune_rho": draw(st.integers(0, 3)) == 0}


NLDF_KINDS = ["j", "i", "ij", "k"]


@st.composite
def st_nldf(draw):
    """Settings for a real PyscfNLDFGenerator (spec lists as in the documented ALLOWED_* tables)."""
    kind = draw(st.sampled_from(NLDF_KINDS))
    spec = {"kind": kind, "level": draw(st.sampled_from(["GGA", "MGGA"])),
            "plan": draw(st.sampled_from(["gaussian", "spline"])),
            "interp": draw(st.sampled_from(["onsite_direct", "onsite_spline", "train_gen"])),
            "aux_lambd": draw(st.sampled_from([1.6, 1.8, 2.0, 2.4])),
            "nrad": draw(st.sampled_from([60, 120, 200]))}
    if kind in ("j", "ij", "k"):
        spec["nj"] = draw(st.integers(1, 3))
    if kind in ("i", "ij"):
        l0 = draw(st.lists(st.sampled_from(["se", "se_r2", "se_apr2", "se_ap", "se_ap2r2", "se_lapl"]),
                           min_size=0, max_size=3, unique=True))
        l1 = draw(st.lists(st.sampled_from(["se_grad", "se_rvec"]), min_size=0, max_size=2, unique=True))
        if not l0 and not l1:
            l0 = ["se_ap"]
        spec["l0"], spec["l1"] = l0, l1
    return spec


def team_sizes(T):
    """Problem sizes for a team of T: 0, 1, 2, T-1, T, T+1, primes, sizes below the team."""
    s = {0, 1, 2, max(T - 1, 0), T, T + 1, 2 * T + 1, 4 * T - 1}
    s.update(p for p in PRIMES if p < 4 * T + 40)
    return sorted(s)


@st.composite
def st_team_and_size(draw, teams=None, extra=(), min_size=0, max_size=None):
    T = draw(st.sampled_from(teams or TEAMS_C10))
    sizes = [n for n in team_sizes(T) if n >= min_size and (max_size is None or n <= max_size)]
    sizes += [n for n in extra if n >= min_size]
    return T, draw(st.sampled_from(sorted(set(sizes))))


# ----------------------------------------------------------------------------------------------
# builders

def _ang_grid(n):
    from pyscf.dft.gen_grid import libdft

    grid = np.empty((n, 4))
    libdft.MakeAngularGrid(grid.ctypes.data_as(ctypes.c_void_p), ctypes.c_int(n))
    return grid


_ANG_CACHE = {}


def _ylm_block(n, nlm, truncate=True):
    """Lebedev directions, weights and Y_lm exactly as gen_atomic_grids_cider tabulates them."""
    key = (n, nlm, truncate)
    if key not in _ANG_CACHE:
        from pyscf.dft.gen_grid import LEBEDEV_ORDER

        from ciderpress.dft.grids_indexer import libcider

        grid = _ang_grid(n)
        # recursive_sph_harm writes res[0..3] unconditionally: nlm = 1 overruns the buffer (reported
        # defect), so an lmax = 0 table is tabulated with nlm = 4 and sliced.
        nlm_t = max(nlm, 4)
        ylm = np.zeros((n, nlm_t), order="C")
        sphgd = np.ascontiguousarray(grid[:, :3])
        libcider.recursive_sph_harm_vec(ctypes.c_int(nlm_t), ctypes.c_int(n),
                                        sphgd.ctypes.data_as(ctypes.c_void_p),
                                        ylm.ctypes.data_as(ctypes.c_void_p))
        ylm = np.ascontiguousarray(ylm[:, :nlm])
        if truncate:
            lmax_shl = {v: k // 2 for k, v in LEBEDEV_ORDER.items()}[n]
            ylm[:, (lmax_shl + 1) ** 2:] = 0.0
        _ANG_CACHE[key] = (grid, ylm)
    return _ANG_CACHE[key]


def build_indexer(spec):
    """Synthetic AtomicGridsIndexer + coordinates.  Returns a namespace with
    indexer, atom_coords (natm,3), all_coords (atom ordered), all_weights, coords (sorted/pruned
    order + padding rows, C-contiguous), weights."""
    from ciderpress.dft.grids_indexer import AtomicGridsIndexer

    lmax = spec["idx_lmax"]
    nlm = (lmax + 1) ** 2
    atom_coords = np.ascontiguousarray([a["xyz"] for a in spec["atoms"]], dtype=np.float64)
    natm = len(spec["atoms"])
    full_rad_loc = np.array([0], dtype=np.int64)
    full_ylm_loc, rads, ar_loc, ra_loc = [], [], [], [0]
    full_ylm = np.empty((0, nlm))
    coords, wts = [], []
    for ia in range(natm):
        g = spec["grid"][ia]
        angs = np.array(g["angs"])
        nrad = len(angs)
        rad = g["rmin"] * g["ratio"] ** np.arange(nrad)
        dr = rad * np.log(g["ratio"])
        rw = 4 * np.pi * rad**2 * dr
        for n in sorted(set(angs.tolist())):
            grid, ylm = _ylm_block(n, nlm)
            idx = np.where(angs == n)[0]
            yloc = full_ylm.shape[0]
            full_ylm = np.append(full_ylm, ylm, axis=0)
            coords.append(np.einsum("i,jk->ijk", rad[idx], grid[:, :3]).reshape(-1, 3) + atom_coords[ia])
            wts.append(np.einsum("i,j->ij", rw[idx], grid[:, 3]).ravel())
            rads.append(rad[idx])
            full_rad_loc = np.append(full_rad_loc, full_rad_loc[-1] + n * np.arange(1, len(idx) + 1))
            full_ylm_loc.append(yloc * np.ones(idx.size, dtype=np.int32))
        ra_loc.append(full_rad_loc.size - 1)
        ar_loc.append(ia * np.ones(nrad, dtype=np.int32))
    indexer = AtomicGridsIndexer(
        natm, lmax,
        rad_arr=np.ascontiguousarray(np.concatenate(rads).astype(np.float64)),
        ar_loc=np.ascontiguousarray(np.concatenate(ar_loc).astype(np.int32)),
        ra_loc=np.array(ra_loc, dtype=np.int32, order="C"),
        rad_loc=np.ascontiguousarray(full_rad_loc.astype(np.int32)),
        ylm=np.ascontiguousarray(full_ylm.astype(np.float64)),
        ylm_loc=np.ascontiguousarray(np.concatenate(full_ylm_loc).astype(np.int32)),
    )
    all_coords = np.ascontiguousarray(np.vstack(coords))
    all_weights = np.ascontiguousarray(np.hstack(wts))
    indexer.set_weights(all_weights)
    ng = all_weights.size
    isp = spec.get("idx", {"mode": "identity", "padding": 0, "seed": 0})
    rng = rng_from(isp["seed"])
    if isp["mode"] == "identity":
        idx = np.arange(ng)
    else:
        idx = rng.permutation(ng)
        if isp["mode"] == "subset" and ng > 4:
            idx = idx[: max(2, (3 * ng) // 4)]
    indexer.set_idx(idx)
    pad = int(isp["padding"])
    indexer.set_padding(pad)
    cs = all_coords[idx]
    ws = all_weights[idx]
    if pad:
        cs = np.vstack([cs, np.repeat([[1e-4] * 3], pad, axis=0)])
        ws = np.hstack([ws, np.zeros(pad)])
    return SimpleNamespace(indexer=indexer, atom_coords=atom_coords, all_coords=all_coords,
                           all_weights=all_weights, coords=np.ascontiguousarray(cs),
                           weights=np.ascontiguousarray(ws), natm=natm)


def atco_dat(atoms):
    from ciderpress.dft.lcao_convolutions import get_gamma_lists_from_etb_list

    etb_list = []
    for a in atoms:
        etb_list.append([(l, a["nexp"][l], a["emin"] * 1.25**l, a["beta"]) for l in range(a["lmax"] + 1)])
    return get_gamma_lists_from_etb_list(etb_list)


def build_atco(atoms):
    from ciderpress.dft.lcao_convolutions import ATCBasis

    dat = atco_dat(atoms)
    return ATCBasis(*dat), dat


def alphas_from(aspec):
    alphas = aspec["alpha0"] * aspec["lambd"] ** np.arange(aspec["nalpha"], dtype=np.float64)
    return np.ascontiguousarray(alphas), np.ascontiguousarray((np.pi / (2 * alphas)) ** -0.75)


def build_atco_out(dat, alphas, gbuf):
    """Output basis exactly as from_mol_and_settings derives it (same atoms, same lmax)."""
    from ciderpress.dft.lcao_convolutions import ATCBasis, get_convolution_expnts_from_expnts

    new = get_convolution_expnts_from_expnts(alphas, dat[0], dat[1], dat[2], dat[4], gbuf=gbuf)
    return ATCBasis(*new), new


@st.composite
def st_ccl(draw, nalpha_max=8, allow_vk=True):
    vk = allow_vk and draw(st.integers(0, 4)) == 0
    spec = {"alphas": draw(st_alphas(nalpha_max)), "gbuf": draw(st.sampled_from([2.0, 4.0, 1e9])),
            "vk": vk, "solve": draw(st.booleans()), "out_is_inp": draw(st.integers(0, 4)) == 0}
    if not vk:
        has_vj = draw(st.booleans())
        l0 = sorted(draw(st.lists(st.sampled_from([0, 1, 2, 3, 4, 5]), max_size=3, unique=True)))
        l1 = sorted(draw(st.lists(st.sampled_from([6, 7]), max_size=2, unique=True)))
        if not has_vj and not l0 and not l1:
            has_vj = True
        spec.update(has_vj=has_vj, ifeat_ids=l0 + l1)
    return spec


def build_ccl(atoms, cspec):
    """ConvolutionCollection(K) on a synthetic basis.  Keeps references to the ATCBasis objects
    (the C object does not own them)."""
    from ciderpress.dft.lcao_convolutions import ConvolutionCollection, ConvolutionCollectionK

    atco_inp, dat = build_atco(atoms)
    alphas, norms = alphas_from(cspec["alphas"])
    if cspec.get("out_is_inp"):
        atco_out = atco_inp
    else:
        # alpha0 <= 0.02 < gbuf * (largest exponent of any l), so every l keeps >= 1 exponent
        atco_out, _ = build_atco_out(dat, alphas, cspec["gbuf"])
    if cspec["vk"]:
        ccl = ConvolutionCollectionK(atco_inp, atco_out, alphas, norms)
    else:
        ccl = ConvolutionCollection(atco_inp, atco_out, alphas, norms, has_vj=cspec["has_vj"],
                                    ifeat_ids=list(cspec["ifeat_ids"]))
    return ccl


def real_mol(spec):
    from pyscf import gto

    return gto.M(atom=REAL_MOLS[spec["mol"]], basis=spec["basis"], verbose=0, unit="Angstrom")


_REAL_CACHE = {}


def build_real_grids(spec):
    """CiderGrids of a small molecule (cached per spec within the process).  Optionally density-pruned
    the way the calculators do (grids_indexer index map becomes a strict subset)."""
    key = (spec["mol"], spec["basis"], spec["level"], spec.get("prune_rho", False))
    if key not in _REAL_CACHE:
        from pyscf import dft

        from ciderpress.pyscf.gen_cider_grid import CiderGrids

        mol = real_mol(spec)
        grids = CiderGrids(mol)
        grids.level = spec["level"]
        grids.build()
        if spec.get("prune_rho"):
            ks = dft.RKS(mol)
            dm = ks.get_init_guess()
            grids.prune_by_density_(ks._numint.get_rho(mol, dm, grids), 1e-2)
        if len(_REAL_CACHE) > 6:
            _REAL_CACHE.clear()
        _REAL_CACHE[key] = (mol, grids)
    return _REAL_CACHE[key]


def nldf_settings(nspec):
    from ciderpress.dft.settings import NLDFSettingsVI, NLDFSettingsVIJ, NLDFSettingsVJ, NLDFSettingsVK

    level = nspec["level"]
    theta = [1.0, 0.0, 0.03125] if level == "MGGA" else [1.0, 0.0]
    fp_all = [[2.0, 0.0, 0.04], [1.0, 0.0, 0.02], [4.0, 0.0, 0.08]]
    if level == "GGA":
        fp_all = [p[:2] for p in fp_all]
    kind = nspec["kind"]
    nj = nspec.get("nj", 1)
    jspecs = ["se", "se_ar2", "se_a2r4"][:nj]
    fps = [list(p) for p in fp_all[:nj]]
    l1 = nspec.get("l1", [])
    dots = [(-1, 0)] + ([(0, 0)] if l1 else [])
    if len(l1) > 1:
        dots.append((0, 1))
    if kind == "j":
        return NLDFSettingsVJ(level, theta, "one", jspecs, fps)
    if kind == "i":
        return NLDFSettingsVI(level, theta, "one", nspec["l0"], l1, dots if l1 else [])
    if kind == "ij":
        return NLDFSettingsVIJ(level, theta, "one", nspec["l0"], l1, dots if l1 else [], jspecs, fps)
    return NLDFSettingsVK(level, theta, "one", fps, "exponential")


def build_real_generator(lspec, nspec, nspin=1):
    from ciderpress.pyscf.nldf_convolutions import PyscfNLDFGenerator

    mol, grids = build_real_grids(lspec)
    gen = PyscfNLDFGenerator.from_mol_and_settings(
        mol, grids.grids_indexer, nspin, nldf_settings(nspec), plan_type=nspec["plan"],
        lmax=min(lspec["lmax"], grids.grids_indexer.lmax), aux_lambd=nspec["aux_lambd"],
        interpolator_type=nspec["interp"], nrad=nspec["nrad"],
        dparam=0.04 * 200.0 / nspec["nrad"])
    gen.interpolator.set_coords(grids.coords)
    return mol, grids, gen


def fill(rng, shape, lo=-1.0, hi=1.0):
    return np.ascontiguousarray(rng.uniform(lo, hi, shape))


def build_real_atco(lspec, beta=1.8):
    """Input ATCBasis of a real molecule exactly as from_mol_and_settings builds it."""
    from pyscf import gto

    from ciderpress.dft.lcao_convolutions import ATCBasis
    from ciderpress.pyscf.nldf_convolutions import aug_etb_for_cider, get_gamma_lists_from_mol

    mol, grids = build_real_grids(lspec)
    lmax = min(lspec["lmax"], grids.grids_indexer.lmax)
    basis = aug_etb_for_cider(mol, lmax=lmax, beta=beta)
    mol2 = gto.M(atom=mol.atom, basis=basis, spin=mol.spin, charge=mol.charge, unit=mol.unit, verbose=0)
    dat = get_gamma_lists_from_mol(mol2)
    return ATCBasis(*dat), dat, mol2


def real_layout_ns(lspec):
    """Namespace with the same fields as build_indexer() for a real CiderGrids."""
    mol, grids = build_real_grids(lspec)
    ind = grids.grids_indexer
    return SimpleNamespace(indexer=ind, atom_coords=np.ascontiguousarray(mol.atom_coords(unit="Bohr")),
                           all_coords=None, all_weights=ind.all_weights,
                           coords=np.ascontiguousarray(grids.coords), weights=grids.weights, natm=mol.natm)


def layout_ns(lspec):
    return real_layout_ns(lspec) if lspec["kind"] == "real" else build_indexer(lspec)


def distinct_l(atoms):
    return len(set(range(max(a["lmax"] for a in atoms) + 1)))


def build_interpolator(case, L, atco):
    from ciderpress.dft.lcao_interpolation import LCAOInterpolator, LCAOInterpolatorDirect

    nrad, a = case["nrad"], case["aparam"]
    d = float(np.log(case["rmax"] / a + 1.0) / (nrad - 1))
    if case["itype"] == "plain":
        it = LCAOInterpolator(L.atom_coords, atco, case["n0"], case["n1"], aparam=a, dparam=d, nrad=nrad)
    else:
        it = LCAOInterpolatorDirect(L.indexer, L.atom_coords, atco, case["n0"], case["n1"], aparam=a, dparam=d,
                                    nrad=nrad, onsite_direct=case["itype"] == "direct_onsite")
    return it


SDMX_KINDS = ["sdmx", "sdmxg", "sdmx1", "sdmxg1", "full"]


def sdmx_settings(kind):
    from ciderpress.dft import settings as S

    if kind == "sdmx":
        return S.SDMXSettings([0, 1, 2])
    if kind == "sdmxg":
        return S.SDMXGSettings([0, 1], 1)
    if kind == "sdmx1":
        return S.SDMX1Settings([1, 2], 1)
    if kind == "sdmxg1":
        return S.SDMXG1Settings([0, 1, 2], 2, 1)
    return S.SDMXFullSettings({1.0: ([0, 1, 2], [3, 1, 1, 1]), 2.0: ([1], [1, 1, 0, 0])})


def sdmx_setup(case):
    from ciderpress.pyscf.sdmx import EXXSphGenerator, _get_nrf

    mol = real_mol({"mol": case["mol"], "basis": case["basis"]})
    gen = EXXSphGenerator.from_settings_and_mol(sdmx_settings(case["kind"]), 1, mol)
    rng = rng_from(case["seed"])
    ac = mol.atom_coords(unit="Bohr")
    ng = case["ngrids"]
    # points scattered around the nuclei, never on one
    coords = ac[rng.integers(0, mol.natm, ng)] + rng.normal(size=(ng, 3)) * 0.9 + 0.013
    return mol, gen, np.asfortranarray(coords), int(_get_nrf(mol))
