"""Shared oracles: vectorised finite differences, dense-operator probing, small helpers."""
import numpy as np


def rng_from(seed):
    return np.random.default_rng(int(seed) & 0x7FFFFFFF)


def fd4(f, h):
    """4th-order central difference of f: step -> array (or scalar), elementwise."""
    return (8.0 * (f(h) - f(-h)) - (f(2 * h) - f(-2 * h))) / (12.0 * h)


def fd_check_vec(ctx, f, analytic, sig, h, rtol=1e-6, atol=0.0, xabs=None, **detail):
    """Compare `analytic` (array) with the derivative of f(step)->array at step 0.

    Two 4th-order estimates (h, h/2) must agree with each other, elementwise, else that
    element is counted fd_unresolved and is *not* judged (DESIGN 3.5).  h may be an array
    (per-element step) if f accepts it.  Returns the number of decided elements.
    """
    from .runner import Violation

    analytic = np.asarray(analytic, dtype=float)
    d1 = np.asarray(fd4(f, h), dtype=float)
    d2 = np.asarray(fd4(f, h / 2.0), dtype=float)
    if not (np.all(np.isfinite(d1)) and np.all(np.isfinite(d2)) and np.all(np.isfinite(analytic))):
        raise Violation((ctx.sc.name,) + tuple(sig) + ("nonfinite",), dict(detail))
    scale = np.maximum(np.abs(d2), np.abs(analytic))
    # round-off floor of the stencil: ~1.5*eps*|f|/h per estimate; 4e-14 gives a two-order margin
    f0 = np.abs(np.asarray(f(0.0 * h), dtype=float))
    tol = atol + rtol * scale + 4e-14 * f0 / np.abs(h)
    if xabs is not None:
        # the stepped argument x +- h is itself rounded (|error| <= eps |x| / 2 each side); with curvature f'' this
        # shifts every stencil estimate by up to ~ f'' eps |x|.  Matters where f' = 0 and |x| >> h (x = y of a
        # narrow kernel at large |x|).  f'' from the same samples.
        fpp = np.abs(np.asarray(f(h), dtype=float) + np.asarray(f(-h), dtype=float) - 2 * np.asarray(f(0.0 * h), dtype=float)) / np.abs(h) ** 2
        tol = tol + 9e-16 * np.abs(xabs) * fpp
    spread = np.abs(d1 - d2)
    unresolved = spread > tol
    nun = int(np.sum(unresolved))
    if nun:
        ctx.unresolved["fd_unresolved:" + "/".join(sig)] = ctx.unresolved.get("fd_unresolved:" + "/".join(sig), 0) + nun
    ctx.decided["/".join(sig)] = ctx.decided.get("/".join(sig), 0) + int(analytic.size - nun)
    lim = np.maximum(tol, 10 * spread)
    err = np.abs(analytic - d2)
    ok = unresolved | (err <= lim)
    dec = ~unresolved
    if dec.any():
        ctx.measure("/".join(sig), float(np.max(err[dec] / np.where(lim[dec] > 0, lim[dec], 1e-300))))
    if not np.all(ok):
        bad = np.argwhere(~ok)
        i = tuple(bad[0])
        raise Violation((ctx.sc.name,) + tuple(sig),
                        dict(detail, index=list(map(int, i)), analytic=float(analytic[i]), fd=float(d2[i]),
                             fd_coarse=float(d1[i]), tol=float(lim[i]), n_bad=int(len(bad))))
    return int(analytic.size - nun)


def dense_from_linear(apply, nin, shape_in=None):
    """Materialise a linear routine as a dense matrix by applying it to unit vectors."""
    cols = []
    for i in range(nin):
        e = np.zeros(nin)
        e[i] = 1.0
        x = e if shape_in is None else e.reshape(shape_in)
        cols.append(np.asarray(apply(x), dtype=float).ravel().copy())
    return np.array(cols).T  # (nout, nin)


def relerr(a, b):
    a, b = np.asarray(a, dtype=float), np.asarray(b, dtype=float)
    s = max(float(np.max(np.abs(b))) if b.size else 0.0, 1e-300)
    return float(np.max(np.abs(a - b))) / s if a.size else 0.0
