"""G-kernel (DESIGN 4.1): expression grammar over the classes of ciderpress/models/kernels.py.

A kernel is described by a plain JSON-able *spec* (nested dicts); `build(spec)` constructs the
object through the repository's public constructors, `walk(spec, X, Y)` enumerates the sub-kernels
bottom-up together with the inputs each of them sees, `family/cfg` give the structural class used
in violation signatures.  Strategies draw specs for a given number of input features.

Spec vocabulary (nf = number of feature columns the node receives):
  leaves     RBF Const White Linear Poly ARBF ARBFV2 AddRQ AddLLRBF AntisymRBF PartialRBF PartialARBF
             Subset(base in RBF ARBF AddLLRBF AddRQ Poly)  SpinSym(base in RBF ARBF Poly)
             SingleRBF SingleDot DensityNoise ExpDensityNoise FittedDensityNoise QARBF
  composites Sum Prod Exp Transform AD SpinSymK
Bounds entries are None (class default), [lo, hi] or "fixed".
"""
import os
import traceback

import numpy as np
from hypothesis import strategies as st

from . import bootstrap

ADDITIVE = ("ARBF", "ARBFV2", "AddRQ", "AddLLRBF")
MIXIN = ("ARBFV2", "AddRQ", "AddLLRBF")
SUBSET_BASES = ("RBF", "ARBF", "AddLLRBF", "AddRQ", "Poly")
SPINSYM_BASES = ("RBF", "ARBF", "Poly")
COMPOSITES = ("Sum", "Prod", "Exp", "Transform", "AD", "SpinSymK")
# classes that implement (or inherit) k_and_deriv
NO_KDERIV = ("SingleRBF", "SingleDot", "DensityNoise", "ExpDensityNoise", "FittedDensityNoise", "QARBF", "AD", "SpinSymK")
NOISE = ("DensityNoise", "ExpDensityNoise", "FittedDensityNoise")


# ------------------------------------------------------------------------------------------------
# helpers

def mk_index(idx):
    """index spec -> python object accepted by numpy column indexing"""
    if idx["k"] == "slice":
        a, b, c = idx["v"]
        return slice(a, b, c)
    if idx["k"] == "tuple":
        return tuple(idx["v"])
    return list(idx["v"])


def resolve(idx, nf):
    return [int(i) for i in np.arange(nf)[None, :][:, mk_index(idx)][0]]


def _bounds(v, default=(1e-5, 1e5)):
    if v == "fixed":
        return "fixed"
    if v is None:
        return default
    return (float(v[0]), float(v[1]))


def _arr(v):
    return np.array(v, dtype=float) if isinstance(v, (list, tuple)) else float(v)


def _K():
    from ciderpress.models import kernels

    return kernels


def build(spec):
    """Construct the kernel object of a spec with the repository's constructors / operators."""
    K = _K()
    t = spec["t"]
    if t == "RBF":
        return K.DiffRBF(length_scale=_arr(spec["ls"]), length_scale_bounds=_bounds(spec.get("lb")))
    if t == "Const":
        return K.DiffConstantKernel(spec["c"], constant_value_bounds=_bounds(spec.get("cb")))
    if t == "White":
        return K.DiffWhiteKernel(spec["noise"], noise_level_bounds=_bounds(spec.get("nb")))
    if t == "Linear":
        return K.DiffLinearKernel()
    if t == "Poly":
        return K.DiffPolyKernel(**_poly_kw(spec))
    if t in ADDITIVE:
        cls = {"ARBF": K.DiffARBF, "ARBFV2": K.DiffARBFV2, "AddRQ": K.DiffAddRQ, "AddLLRBF": K.DiffAddLLRBF}[t]
        return cls(**_additive_kw(spec, t))
    if t == "AntisymRBF":
        return K.DiffAntisymRBF(length_scale=_arr(spec["ls"]), length_scale_bounds=_bounds(spec.get("lb")))
    if t == "PartialRBF":
        return K.PartialRBF(length_scale=_arr(spec["ls"]), length_scale_bounds=_bounds(spec.get("lb")),
                            start=spec["start"], active_dims=spec.get("active"))
    if t == "PartialARBF":
        return K.PartialARBF(order=spec["order"], length_scale=_arr(spec["ls"]),
                             length_scale_bounds=_bounds(spec.get("lb")), scale=list(spec["scale"]),
                             scale_bounds=_bounds(spec.get("sb")), start=spec["start"], active_dims=spec.get("active"))
    if t == "Subset":
        b = spec["base"]
        cls = {"RBF": K.SubsetRBF, "ARBF": K.SubsetARBF, "AddLLRBF": K.SubsetAddLLRBF, "AddRQ": K.SubsetAddRQ,
               "Poly": K.SubsetPoly}[b]
        return cls(mk_index(spec["idx"]), **_base_kw(spec, b))
    if t == "SpinSym":
        b = spec["base"]
        cls = {"RBF": K.SpinSymRBF, "ARBF": K.SpinSymARBF, "Poly": K.SpinSymPoly}[b]
        return cls(mk_index(spec["a"]), mk_index(spec["b"]), **_base_kw(spec, b))
    if t == "SingleRBF":
        return K.SingleRBF(length_scale=float(spec["ls"]), length_scale_bounds=_bounds(spec.get("lb")), index=spec["index"])
    if t == "SingleDot":
        return K.SingleDot(sigma_0=float(spec["sigma0"]), sigma_0_bounds=_bounds(spec.get("gb")), index=spec["index"])
    if t == "DensityNoise":
        return K.DensityNoise(index=spec["index"])
    if t == "ExpDensityNoise":
        return K.ExponentialDensityNoise(exponent=spec["exponent"], exponent_bounds=_bounds(spec.get("eb"), (0.1, 10)))
    if t == "FittedDensityNoise":
        return K.FittedDensityNoise(decay_rate=spec["decay"], decay_rate_bounds=_bounds(spec.get("db")))
    if t == "QARBF":
        return K.QARBF(spec["ndim"], np.array(spec["ls"], dtype=float), list(spec["scale"]),
                       scale_bounds=_bounds(spec.get("sb")))
    if t == "Sum":
        return _combine(spec, "+")
    if t == "Prod":
        return _combine(spec, "*")
    if t == "Exp":
        k = build(spec["k"])
        if spec.get("via") == "class":
            return K.DiffExponentiation(k, spec["n"])
        return k ** spec["n"]
    if t == "Transform":
        return K.DiffTransform(build(spec["k"]), np.array(spec["matrix"], dtype=float),
                               std=None if spec.get("std") is None else np.array(spec["std"], dtype=float),
                               avg=None if spec.get("avg") is None else np.array(spec["avg"], dtype=float))
    if t == "AD":
        return K.ADKernel(build(spec["k"]), list(spec["dims"]))
    if t == "SpinSymK":
        return K.SpinSymKernel(build(spec["k"]), list(spec["up"]), list(spec["down"]))
    raise ValueError("unknown kernel spec type %r" % (t,))


def _combine(spec, op):
    K = _K()
    if spec.get("via") == "class":
        return (K.DiffSum if op == "+" else K.DiffProduct)(build(spec["l"]), build(spec["r"]))
    a = spec["l"]["c"] if spec["l"].get("raw") else build(spec["l"])
    b = spec["r"]["c"] if spec["r"].get("raw") else build(spec["r"])
    return a + b if op == "+" else a * b


def _poly_kw(spec):
    return dict(gamma=_arr(spec["gamma"]), gamma_bounds=_bounds(spec.get("gb")), order=spec["order"],
                factorial=bool(spec["factorial"]))


def _additive_kw(spec, t):
    kw = dict(order=spec["order"], length_scale=_arr(spec["ls"]), scale=list(spec["scale"]),
              length_scale_bounds=_bounds(spec.get("lb")), scale_bounds=_bounds(spec.get("sb")))
    if t in ("AddRQ", "AddLLRBF"):
        kw["alpha"] = float(spec["alpha"])
    return kw


def _base_kw(spec, b):
    if b == "RBF":
        return dict(length_scale=_arr(spec["ls"]), length_scale_bounds=_bounds(spec.get("lb")))
    if b == "Poly":
        return _poly_kw(spec)
    return _additive_kw(spec, b)


# ------------------------------------------------------------------------------------------------
# structure

def children(spec):
    t = spec["t"]
    if t in ("Sum", "Prod"):
        return [spec["l"], spec["r"]]
    if t in ("Exp", "Transform", "AD", "SpinSymK"):
        return [spec["k"]]
    return []


def base_type(spec):
    return spec["base"] if spec["t"] in ("Subset", "SpinSym") else spec["t"]


def family(spec):
    """Implementation family = the code that a defect would live in."""
    t = spec["t"]
    if t in MIXIN:
        return "AddMixin"
    if t in ("Subset", "SpinSym"):
        b = spec["base"]
        return "%s(%s)" % (t, "AddMixin" if b in MIXIN else b)
    return t


def cls_name(spec):
    t = spec["t"]
    if t in ("Subset", "SpinSym"):
        return t + spec["base"]
    return t


def cfg(spec, theta=False):
    """Configuration class of a node: only the distinctions that select different code paths (which
    hyper-parameters are fixed matters only where the hyper-parameter gradient is the subject: theta=True)."""
    tok = []
    b = base_type(spec)
    if b in ADDITIVE or b == "PartialARBF":
        o = spec["order"]
        if o >= 4:
            tok.append("o4+")
        elif o == 0:
            tok.append("o0")
        if theta and spec.get("lb") == "fixed" and spec.get("sb") != "fixed" and o > 0:
            tok = ["lfix_sfree"]  # preempts the order classes: the gradient array cannot even be filled
    if b == "Poly" and spec["order"] == 1:
        tok.append("o1")
    return ",".join(tok) or "std"


def describe(spec):
    t = spec["t"]
    if t in ("Sum", "Prod"):
        return "%s(%s,%s)" % (t, describe(spec["l"]), describe(spec["r"]))
    if t in ("Exp", "Transform", "AD", "SpinSymK"):
        return "%s(%s)" % (t, describe(spec["k"]))
    return cls_name(spec)


def all_nodes(spec):
    out = []
    for c in children(spec):
        out.extend(all_nodes(c))
    out.append(spec)
    return out


def leaf_types(spec):
    return sorted(set(cls_name(s) for s in all_nodes(spec) if not children(s)))


def is_diff(spec):
    """True if the built object is one of the repository's differentiable classes (DiffKernelMixin)"""
    t = spec["t"]
    if t in NO_KDERIV:
        return False
    if t in ("Sum", "Prod"):
        if spec.get("via") == "class":
            return True
        if spec["l"].get("raw"):
            return is_diff(spec["r"])
        return is_diff(spec["l"])
    if t == "Exp":
        return spec.get("via") == "class" or is_diff(spec["k"])
    return True


def has_kderiv(spec):
    return all(s["t"] not in NO_KDERIV for s in all_nodes(spec))


def needs_positive(spec):
    """column indices that must be > 0 (density-noise kernels), as seen from this node's inputs"""
    t = spec["t"]
    if t == "DensityNoise":
        return {spec["index"]}
    if t in ("ExpDensityNoise", "FittedDensityNoise"):
        return {0}
    out = set()
    for c in children(spec):
        sub = needs_positive(c)
        if not sub:
            continue
        if t == "AD":
            out |= {spec["dims"][i] for i in sub}
        elif t == "SpinSymK":
            out |= {spec["up"][i] for i in sub} | {spec["down"][i] for i in sub}
        elif t == "Transform":
            raise ValueError("noise kernel below a Transform is not generated")
        else:
            out |= sub
    return out


def transform_apply(spec, X):
    if X is None:
        return None
    if spec.get("avg") is not None:
        X = X - np.array(spec["avg"], dtype=float)
    if spec.get("std") is not None:
        X = X / np.array(spec["std"], dtype=float)
    return X.dot(np.array(spec["matrix"], dtype=float))


def base_spec(sub):
    """The kernel a Subset*/SpinSym*/Partial* wrapper applies to its selected columns, as a standalone leaf."""
    s = {k: v for k, v in sub.items() if k not in ("idx", "a", "b", "base", "start", "active")}
    s["t"] = {"PartialRBF": "RBF", "PartialARBF": "ARBF"}.get(sub["t"], sub.get("base", sub["t"]))
    return s


def selected_columns(sub, nf):
    t = sub["t"]
    if t == "Subset":
        return resolve(sub["idx"], nf)
    if t in ("PartialRBF", "PartialARBF"):
        return list(sub["active"]) if sub.get("active") is not None else list(range(sub["start"], nf))
    raise ValueError(t)


def walk(spec, X, Y=None):
    """Post-order list of (subspec, Xsub, Ysub): children before parents, so that the first node at
    which a relation fails is the deepest one, i.e. the one whose own code is responsible.  The base
    kernel of a Subset*/SpinSym*/Partial* wrapper is visited (on the inputs the wrapper hands to it)
    before the wrapper, so a defect of the base class is not booked on the wrapper."""
    t = spec["t"]
    out = []
    if t in ("Subset", "PartialRBF", "PartialARBF"):
        c = selected_columns(spec, X.shape[1])
        out.append((base_spec(spec), X[:, c], None if Y is None else Y[:, c]))
    elif t == "SpinSym":
        a, b = resolve(spec["a"], X.shape[1]), resolve(spec["b"], X.shape[1])
        out.append((base_spec(spec), np.vstack((X[:, a], X[:, b])), None if Y is None else np.vstack((Y[:, a], Y[:, b]))))
    if t in ("Sum", "Prod"):
        out += walk(spec["l"], X, Y) + walk(spec["r"], X, Y)
    elif t == "Exp":
        out += walk(spec["k"], X, Y)
    elif t == "Transform":
        out += walk(spec["k"], transform_apply(spec, X), transform_apply(spec, Y))
    elif t == "AD":
        d = list(spec["dims"])
        out += walk(spec["k"], X[:, d], None if Y is None else Y[:, d])
    elif t == "SpinSymK":
        u = list(spec["up"])
        out += walk(spec["k"], X[:, u], None if Y is None else Y[:, u])
    out.append((spec, X, Y))
    return out


# ------------------------------------------------------------------------------------------------
# exception attribution

def repo_frame(tb):
    root = os.path.join(bootstrap.REPO, "ciderpress")
    fr = None
    for f in traceback.extract_tb(tb):
        if os.path.abspath(f.filename).startswith(root):
            fr = "%s:%s:%d" % (os.path.relpath(f.filename, bootstrap.REPO), f.name, f.lineno)
    return fr


def guard(ctx, sig, fn, expected=(), always=False):
    """Run fn(); an exception raised from repository code becomes a Violation with *this* signature
    (the runner's automatic bucket only knows file:function, which would merge unrelated classes).
    `expected` exception types are returned as ('raised', exc) instead.  Harness-side errors propagate,
    unless `always` (for calls whose only subject is a repository object driven by library code, e.g.
    scikit-learn's clone() calling the class constructor: the failure has no repository frame)."""
    from .runner import Skip, Violation

    try:
        return fn()
    except (Violation, Skip, KeyboardInterrupt, SystemExit):
        raise
    except expected as e:  # noqa: B030
        return ("raised", e)
    except BaseException as e:
        fr = repo_frame(e.__traceback__)
        if fr is None and not always:
            raise
        sig = tuple(str(s) for s in sig)
        raise Violation((ctx.sc.name,) + sig + ("exception:" + type(e).__name__,),
                        {"message": str(e)[:300], "where": fr, "traceback": traceback.format_exc()[-1200:]})


# ------------------------------------------------------------------------------------------------
# independent reference values

def esp(vals, order):
    """elementary symmetric polynomials e_0..e_order of the last axis, by brute force over subsets"""
    from itertools import combinations

    nf = vals.shape[-1]
    out = []
    for n in range(order + 1):
        acc = np.zeros(vals.shape[:-1])
        for c in combinations(range(nf), n):
            term = np.ones(vals.shape[:-1])
            for i in c:
                term = term * vals[..., i]
            acc = acc + term
        out.append(acc)
    return out


def additive_factor(t, X, Y, ls, alpha=None):
    """per-dimension factor k0(x_i, y_i) of the additive kernels, re-typed from the class docstrings:
    squared exponential; rational quadratic (1 + d^2/(2 a l^2))^-a; linear-times-RBF (1 + xy/(a l^2)) exp(-d^2/2l^2)"""
    d = X[:, None, :] - Y[None, :, :]
    if t in ("ARBF", "ARBFV2", "PartialARBF"):
        return np.exp(-0.5 * (d / ls) ** 2)
    if t == "AddRQ":
        return (1.0 + d * d / (2.0 * alpha * ls**2)) ** (-alpha)
    if t == "AddLLRBF":
        return (1.0 + X[:, None, :] * Y[None, :, :] / (alpha * ls**2)) * np.exp(-0.5 * (d / ls) ** 2)
    raise ValueError(t)


def cond_matrix(spec, X, Y):
    """Per pair (i, j): magnitude of the terms whose signed sum is K_ij.  Additive kernels: the intermediates of the
    Newton-Girard recursion,
    sum_n |scale_n| (1/n) sum_k e_{n-1-k}(|k0|) p_{k+1}(|k0|)  (>= |K_ij|): the size against which the rounding error
    of that kernel entry has to be judged.  None for other kernels."""
    t = spec["t"]
    if Y is None:
        Y = X
    # other kernels that are sums of terms of both signs: the sum of the absolute terms
    if t == "AntisymRBF":
        ls = np.array(spec["ls"], dtype=float)
        d = (X[:, None, 2:] - Y[None, :, 2:]) / ls[1:]
        return 4.0 * np.exp(-0.5 * np.sum(d * d, axis=2))
    if t == "Linear":
        return np.abs(X).dot(np.abs(Y).T)
    if t == "SingleDot":
        i = spec["index"]
        return spec["sigma0"] ** 2 + np.abs(X[:, i: i + 1]).dot(np.abs(Y[:, i: i + 1]).T)
    if t == "Poly":
        from math import factorial

        dot = (np.abs(_arr(spec["gamma"])) * np.abs(X)).dot(np.abs(Y).T)
        return sum(dot**n / (factorial(n) if spec["factorial"] else 1.0) for n in range(spec["order"] + 1))
    if t not in ADDITIVE:
        return None
    v = np.abs(additive_factor(t, X, Y, _arr(spec["ls"]), spec.get("alpha")))
    order = spec["order"]
    e = esp(v, order)
    p = [None] + [np.sum(v**k, axis=-1) for k in range(1, order + 1)]
    out = abs(float(spec["scale"][0])) * np.ones(v.shape[:2])
    for n in range(1, order + 1):
        acc = np.zeros(v.shape[:2])
        for k in range(n):
            acc = acc + e[n - 1 - k] * p[k + 1]
        out = out + abs(float(spec["scale"][n])) * acc / n
    return out


def cond_scale(spec, X, Y):
    c = cond_matrix(spec, X, Y)
    return None if c is None else float(np.max(c))


def error_model(spec, A, B=None):
    """(|K|, R) for K = kernel(A, B) (B=None: the Y=None call): R_ij is the magnitude that rounding errors of K_ij
    scale with -- |K_ij| itself for plain kernels, the Newton-Girard intermediates for additive ones, propagated
    through sums, products, powers and the index wrappers.  Used as the `scale` of rounding-level identities and
    as the noise floor of finite differences (first-order forward error model, no claim of rigour)."""
    t = spec["t"]
    if t in ("Sum", "Prod"):
        (k1, r1), (k2, r2) = error_model(spec["l"], A, B), error_model(spec["r"], A, B)
        if t == "Sum":
            return k1 + k2, r1 + r2
        return k1 * k2, r1 * k2 + r2 * k1
    if t == "Exp":
        k1, r1 = error_model(spec["k"], A, B)
        n = spec["n"]
        return k1**n, n * k1 ** (n - 1) * r1
    if t == "Transform":
        return error_model(spec["k"], transform_apply(spec, A), transform_apply(spec, B))
    if t == "AD":
        d = list(spec["dims"])
        return error_model(spec["k"], A[:, d], None if B is None else B[:, d])
    if t == "SpinSymK":
        u, d = list(spec["up"]), list(spec["down"])
        ku, ru = error_model(spec["k"], A[:, u], None if B is None else B[:, u])
        kd, rd = error_model(spec["k"], A[:, d], None if B is None else B[:, d])
        return ku + kd, ru + rd
    if t in ("Subset", "PartialRBF", "PartialARBF"):
        c = selected_columns(spec, A.shape[1])
        return error_model(base_spec(spec), A[:, c], None if B is None else B[:, c])
    if t == "SpinSym":
        a, b = resolve(spec["a"], A.shape[1]), resolve(spec["b"], A.shape[1])
        As = np.vstack((A[:, a], A[:, b]))
        Bs = None if B is None else np.vstack((B[:, a], B[:, b]))
        k, r = error_model(base_spec(spec), As, Bs)
        na, nb = len(A), len(A) if B is None else len(B)

        def fold(M):
            M = M[:na] + M[na:]
            return M[:, :nb] + M[:, nb:]

        return fold(k), fold(r)
    K = np.abs(np.asarray(build(spec)(A) if B is None else build(spec)(A, B), dtype=float))
    if K.ndim == 0:
        K = K * np.ones((len(A), len(A) if B is None else len(B)))
    c = cond_matrix(spec, A, B)
    return K, (K if c is None else np.maximum(K, c))


def additive_reference(spec, X, Y):
    """K = sum_n scale[n] e_n(k0_1..k0_nf) for the additive family (spec is the base spec on X's columns)."""
    t = base_type(spec)
    k0 = additive_factor(t, X, Y, _arr(spec["ls"]), spec.get("alpha"))
    en = esp(k0, spec["order"])
    return sum(float(s) * e for s, e in zip(spec["scale"], en))


# ------------------------------------------------------------------------------------------------
# strategies

def logfloat(lo, hi):
    return st.floats(np.log(lo), np.log(hi)).map(lambda t: float(np.exp(t)))


@st.composite
def st_bounds(draw, value, p_fixed=0.3, lo=1e-5, hi=1e5):
    """None (default bounds), [lo, hi] around the value, or "fixed"."""
    r = draw(st.integers(0, 9))
    if r < int(p_fixed * 10):
        return "fixed"
    if r < int(p_fixed * 10) + 3:
        vmin = float(np.min(value))
        vmax = float(np.max(value))
        return [max(lo, vmin / draw(st.sampled_from([1.5, 10.0, 1e3]))), min(hi, vmax * draw(st.sampled_from([1.5, 10.0, 1e3])))]
    return None


@st.composite
def st_ls(draw, nf, force_array=False, lo=0.15, hi=8.0):
    if not force_array and draw(st.integers(0, 3)) == 0:
        return draw(logfloat(lo, hi))
    return [draw(logfloat(lo, hi)) for _ in range(nf)]


@st.composite
def st_index(draw, nf, size=None, kinds=("list", "tuple", "slice"), allow_neg=False, allow_none=True):
    """Index spec selecting >= 1 distinct columns of nf (exactly `size` if given, list/tuple only then)."""
    kind = draw(st.sampled_from(list(kinds)))
    if kind == "slice" and size is None:
        step = draw(st.sampled_from([None, 1, 1, 2, 2, 3]))
        s = step or 1
        start = draw(st.integers(0, nf - 1))
        nmax = (nf - 1 - start) // s + 1
        cnt = draw(st.integers(1, nmax))
        last = start + (cnt - 1) * s
        # any stop in (last, last + s] selects the same columns; None is allowed when it reaches the end
        stop_choices = [last + 1 + j for j in range(s) if last + 1 + j <= nf]
        if last + s >= nf and allow_none:
            stop_choices.append(None)
        stop = draw(st.sampled_from(stop_choices))
        st_start = start
        if start == 0 and allow_none and draw(st.booleans()):
            st_start = None
        elif allow_neg and start > 0 and draw(st.integers(0, 4)) == 0:
            st_start = start - nf
        return {"k": "slice", "v": [st_start, stop, step]}
    if kind == "slice":
        kind = "list"
    perm = draw(st.permutations(list(range(nf))))
    n = size if size is not None else draw(st.integers(1, nf))
    v = [int(i) for i in perm[:n]]
    if draw(st.booleans()):
        v = sorted(v)
    return {"k": kind, "v": v}


@st.composite
def st_additive_params(draw, nf, t, max_order=5, force_array=False, min_order=0):
    # order <= number of features: beyond that the elementary symmetric polynomials vanish identically and the
    # Newton-Girard recursion only produces cancellation noise
    order = min(max(min(draw(st.sampled_from([0, 1, 1, 2, 2, 2, 3, 3, 4, 5])), max_order), abs(min_order)), nf)
    ls = draw(st_ls(nf, force_array=force_array))
    scale = [draw(logfloat(0.05, 5.0)) for _ in range(order + 1)]
    lb = draw(st_bounds(ls, p_fixed=0.4))
    sb = draw(st_bounds(scale, p_fixed=0.4))
    if order == 0:
        # a one-element `scale` is a scalar hyper-parameter for scikit-learn; keep it fixed (see report)
        sb = "fixed"
    d = {"order": order, "ls": ls, "scale": scale, "lb": lb, "sb": sb}
    if t in ("AddRQ", "AddLLRBF"):
        d["alpha"] = draw(logfloat(0.3, 5.0))
    return d


@st.composite
def st_poly_params(draw, nf, min_order=0):
    """min_order: 0 = every order; 1 = no degenerate order (additive >= 1, polynomial >= 2);
    -1 = additive >= 1 but polynomial order 1 allowed"""
    g = draw(st_ls(nf, lo=0.05, hi=2.0))
    lo = 2 if min_order == 1 else 1
    return {"gamma": g, "gb": draw(st_bounds(g)), "order": draw(st.integers(lo, 5)), "factorial": draw(st.booleans())}


@st.composite
def st_rbf_params(draw, nf, force_array=False):
    ls = draw(st_ls(nf, force_array=force_array))
    return {"ls": ls, "lb": draw(st_bounds(ls))}


@st.composite
def st_base_params(draw, nf, b, force_array=False, max_order=5, min_order=0):
    """min_order=1 leaves out the degenerate orders (additive order 0, polynomial order 1)"""
    if b == "RBF":
        return draw(st_rbf_params(nf, force_array))
    if b == "Poly":
        return draw(st_poly_params(nf, min_order))
    return draw(st_additive_params(nf, b, force_array=force_array, max_order=max_order, min_order=min_order))


LEAVES_DIFF = ["RBF", "Const", "White", "Linear", "Poly", "ARBF", "ARBFV2", "AddRQ", "AddLLRBF", "AntisymRBF",
               "PartialRBF", "PartialARBF", "Subset", "SpinSym"]
LEAVES_PLAIN = ["SingleRBF", "SingleDot", "DensityNoise", "ExpDensityNoise", "FittedDensityNoise", "QARBF"]


@st.composite
def st_leaf(draw, nf, kinds=None, allow_neg=False, max_order=5, min_order=0):
    kinds = list(kinds or LEAVES_DIFF)
    if nf < 3 and "AntisymRBF" in kinds:
        kinds.remove("AntisymRBF")
    if nf < 2:
        kinds = [k for k in kinds if k not in ("SpinSym", "QARBF")]
    t = draw(st.sampled_from(kinds))
    s = {"t": t}
    if t == "RBF":
        s.update(draw(st_rbf_params(nf)))
    elif t == "Const":
        c = draw(logfloat(0.05, 20.0))
        s.update(c=c, cb=draw(st_bounds(c)))
    elif t == "White":
        v = draw(logfloat(1e-4, 1.0))
        s.update(noise=v, nb=draw(st_bounds(v)))
    elif t == "Linear":
        pass
    elif t == "Poly":
        s.update(draw(st_poly_params(nf, min_order)))
    elif t in ADDITIVE:
        s.update(draw(st_additive_params(nf, t, max_order=max_order, min_order=min_order)))
    elif t == "AntisymRBF":
        ls = [draw(logfloat(0.15, 8.0)) for _ in range(nf - 1)]
        s.update(ls=ls, lb=draw(st_bounds(ls)))
    elif t in ("PartialRBF", "PartialARBF"):
        if draw(st.booleans()):
            start = draw(st.integers(0, nf - 1))
            active, nact = None, nf - start
        else:
            idx = draw(st_index(nf, kinds=("list",)))
            start, active, nact = draw(st.integers(0, 1)), idx["v"], len(idx["v"])
        if t == "PartialRBF":
            s.update(draw(st_rbf_params(nact)))
        else:
            s.update(draw(st_additive_params(nact, "ARBF", max_order=min(3, max_order), min_order=min_order)))
        s.update(start=start, active=active)
    elif t == "Subset":
        b = draw(st.sampled_from(SUBSET_BASES))
        idx = draw(st_index(nf, allow_neg=allow_neg))
        s.update(base=b, idx=idx)
        s.update(draw(st_base_params(len(resolve(idx, nf)), b, max_order=max_order, min_order=min_order)))
    elif t == "SpinSym":
        b = draw(st.sampled_from(SPINSYM_BASES))
        m = draw(st.integers(1, nf // 2))
        if draw(st.booleans()):
            # two disjoint contiguous blocks as slices (the form used by the repository's tests)
            o = draw(st.integers(0, nf - 2 * m))
            a = {"k": "slice", "v": [o, o + m, None]}
            bb = {"k": "slice", "v": [o + m, o + 2 * m, None]}
            if draw(st.booleans()):
                a, bb = bb, a
        else:
            perm = [int(i) for i in draw(st.permutations(list(range(nf))))]
            a = {"k": "list", "v": perm[:m]}
            bb = {"k": "list", "v": perm[m: 2 * m]}
        s.update(base=b, a=a, b=bb)
        s.update(draw(st_base_params(m, b, max_order=max_order, min_order=min_order)))
    elif t == "SingleRBF":
        ls = draw(logfloat(0.15, 8.0))
        s.update(ls=ls, lb=draw(st_bounds(ls)), index=draw(st.integers(0, nf - 1)))
    elif t == "SingleDot":
        g = draw(logfloat(0.05, 3.0))
        s.update(sigma0=g, gb=draw(st_bounds(g)), index=draw(st.integers(0, nf - 1)))
    elif t == "DensityNoise":
        s.update(index=draw(st.integers(0, nf - 1)))
    elif t == "ExpDensityNoise":
        e = draw(st.floats(0.2, 5.0))
        s.update(exponent=e, eb=draw(st.sampled_from([None, "fixed", [0.1, 10.0]])))
    elif t == "FittedDensityNoise":
        d = draw(logfloat(0.05, 50.0))
        s.update(decay=d, db=draw(st_bounds(d)))
    elif t == "QARBF":
        nsc = 1 + nf + nf * (nf - 1) // 2
        sc = [draw(logfloat(0.05, 5.0)) for _ in range(nsc)]
        s.update(ndim=nf, ls=[draw(logfloat(0.15, 8.0)) for _ in range(nf)], scale=sc, sb=draw(st_bounds(sc)))
    else:
        raise ValueError(t)
    return s


@st.composite
def st_tree(draw, nf, depth=3, leaves=None, composites=("Sum", "Prod", "Exp", "Transform"), allow_neg=False, p_leaf=0.3,
            max_order=5, no_exp=False, min_order=0):
    """Kernel expression of depth <= `depth` on nf input columns."""
    if depth <= 0 or draw(st.floats(0, 1)) < p_leaf:
        return draw(st_leaf(nf, leaves, allow_neg=allow_neg, max_order=max_order, min_order=min_order))
    if no_exp:
        composites = [c for c in composites if c != "Exp"] or ["Sum"]
    comps = [c for c in composites if not (c in ("AD", "SpinSymK") and nf < 2)]
    t = draw(st.sampled_from(comps))
    via = draw(st.sampled_from(["op", "class"]))
    sub = dict(depth=depth - 1, leaves=leaves, composites=composites, allow_neg=allow_neg, p_leaf=p_leaf + 0.2,
               max_order=max_order, min_order=min_order)
    if t in ("Sum", "Prod"):
        lft, rgt = draw(st_tree(nf, **sub)), draw(st_tree(nf, **sub))
        if via == "op" and draw(st.integers(0, 5)) == 0:
            # python number as one operand: the operator wraps it in a DiffConstantKernel (default bounds)
            c = {"t": "Const", "c": draw(logfloat(0.05, 20.0)), "cb": None, "raw": True}
            if draw(st.booleans()) and rgt["t"] not in LEAVES_PLAIN + ["AD", "SpinSymK"]:
                lft = c
            elif lft["t"] not in LEAVES_PLAIN + ["AD", "SpinSymK"]:
                rgt = c
        return {"t": t, "via": via, "l": lft, "r": rgt}
    if t == "Exp":
        # no power of a power: (k**a)**b only inflates magnitudes
        return {"t": "Exp", "via": via, "n": draw(st.integers(1, 3)), "k": draw(st_tree(nf, no_exp=True, **sub))}
    if t == "Transform":
        nout = draw(st.integers(1, min(nf + 1, 6)))
        if nout < 3 and leaves is not None and set(leaves) <= {"AntisymRBF"}:
            nout = 3
        matrix = [[draw(st.floats(-1.5, 1.5)) for _ in range(nout)] for _ in range(nf)]
        std = [draw(logfloat(0.2, 5.0)) for _ in range(nf)] if draw(st.booleans()) else None
        avg = [draw(st.floats(-1.0, 1.0)) for _ in range(nf)] if draw(st.booleans()) else None
        inner_leaves = None if leaves is None else [x for x in leaves if x not in NOISE]
        sub2 = dict(sub, leaves=inner_leaves)
        return {"t": "Transform", "matrix": matrix, "std": std, "avg": avg, "k": draw(st_tree(nout, **sub2))}
    if t == "AD":
        idx = draw(st_index(nf, kinds=("list",)))
        return {"t": "AD", "dims": idx["v"], "k": draw(st_tree(len(idx["v"]), **sub))}
    if t == "SpinSymK":
        m = draw(st.integers(1, nf // 2))
        perm = [int(i) for i in draw(st.permutations(list(range(nf))))]
        return {"t": "SpinSymK", "up": perm[:m], "down": perm[m: 2 * m], "k": draw(st_tree(m, **sub))}
    raise ValueError(t)


@st.composite
def st_samples(draw, nf, nmin=2, nmax=12, lo=-2.0, hi=2.0, structure=True):
    """Sample matrix drawn element-wise (so it shrinks), then rows duplicated / moved far away."""
    n = draw(st.integers(nmin, nmax))
    X = [[draw(st.floats(lo, hi, allow_nan=False, width=32)) for _ in range(nf)] for _ in range(n)]
    if structure and n >= 2:
        if draw(st.integers(0, 3)) == 0:
            i, j = draw(st.integers(0, n - 1)), draw(st.integers(0, n - 1))
            X[j] = list(X[i])
        if draw(st.integers(0, 3)) == 0:
            j = draw(st.integers(0, n - 1))
            shift = draw(st.sampled_from([30.0, -30.0, 7.0]))
            X[j] = [v + shift for v in X[j]]
    return X


def as_matrix(rows, positive_cols=()):
    X = np.array(rows, dtype=float)
    for c in positive_cols:
        X[:, c] = np.abs(X[:, c]) + 0.05
    return X


def n_distinct_rows(X):
    return len(set(tuple(np.round(r, 12)) for r in np.asarray(X)))


# ------------------------------------------------------------------------------------------------
# feature lists (transform_data) used by DFTKernel and by the mapping tools

MAPS = ("L", "U", "V", "VZ")


@st.composite
def st_featlist(draw, n0, n1, l_bounds=None):
    """n1 maps over n0 raw features; l_bounds = [lo, hi] gives every LMap explicit finite bounds (needed for
    spline mapping: the default bounds of LMap are infinite)"""
    out = []
    for _ in range(n1):
        c = draw(st.sampled_from(MAPS))
        m = {"code": c, "i": draw(st.integers(0, n0 - 1))}
        if c == "L" and l_bounds is not None:
            m["bounds"] = [float(l_bounds[0]), float(l_bounds[1])]
        if c != "L":
            m["gamma"] = draw(logfloat(0.1, 5.0))
        if c in ("V", "VZ"):
            m["scale"] = draw(logfloat(0.5, 3.0))
            m["center"] = draw(st.floats(-0.5, 0.5))
        out.append(m)
    return out


def build_featlist(maps):
    from ciderpress.dft import transform_data as td

    fl = []
    for m in maps:
        if m["code"] == "L":
            fl.append(td.LMap(m["i"], bounds=None if m.get("bounds") is None else tuple(m["bounds"])))
        elif m["code"] == "U":
            fl.append(td.UMap(m["i"], m["gamma"]))
        elif m["code"] == "V":
            fl.append(td.VMap(m["i"], m["gamma"], scale=m["scale"], center=m["center"]))
        else:
            fl.append(td.VZMap(m["i"], m["gamma"], scale=m["scale"], center=m["center"]))
    return td.FeatureList(fl)


def my_features(maps, x0):
    """transformed features (nsamp, n1) of raw features x0 (n0, nsamp), formulas from the map docstrings/definitions"""
    out = []
    for m in maps:
        x = x0[m["i"]]
        if m["code"] == "L":
            out.append(x.copy())
        elif m["code"] == "U":
            out.append(m["gamma"] * x / (1 + m["gamma"] * x))
        elif m["code"] == "V":
            out.append(-m["center"] + m["scale"] * m["gamma"] * x / (1 + m["gamma"] * x))
        else:
            z = x + x * x
            out.append(-m["center"] + m["scale"] * m["gamma"] * z / (1 + m["gamma"] * z))
    return np.array(out).T


def feature_bounds(maps):
    """(lo, hi) arrays of the transformed features, from the documented ranges of the maps"""
    lo, hi = [], []
    for m in maps:
        if m["code"] == "L":
            b = m["bounds"]
        elif m["code"] == "U":
            b = (0.0, 1.0)
        else:
            b = (-m["center"], m["scale"] - m["center"])
        lo.append(float(b[0]))
        hi.append(float(b[1]))
    return np.array(lo), np.array(hi)
