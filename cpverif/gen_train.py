"""C16 support: synthetic training sets on disk for MOLGP.load_data, builders for the objects
under test, and an independent numpy model of the documented pipeline (docs/theory/gp.rst):

    k~_m   = sum_g w_g k(x_g, x~_a) m(x_g)          (covariance vector of system m, masked below 1e-6)
    d~_mi  = d/df_i of the same integral             (complex-step derivative of this model)
    K_mn   ~ k~_m K~^-1 k~_n,   alpha = K~^-1 K~n (K + Sigma_noise)^-1 y

Everything here is pure numpy written from the documentation and the textbook formulas (LDA / PBE
exchange, squared-exponential kernel, the feature maps' closed forms); it never calls the code under
test.  All functions accept complex feature arrays so that occupation derivatives are obtained by the
complex-step method (exact to rounding, no step-size error).
"""
import os
import shutil

import numpy as np

from .oracles import rng_from

EPS = 1e-9          # documented jitter (MOLGP.numerical_epsilon)
RHOCUT = 1e-6       # documented low-density masking threshold of the training integrals
CFC = (3.0 / 10) * (3 * np.pi ** 2) ** (2.0 / 3)
LDA_FACTOR = -3.0 / 4.0 * (3.0 / np.pi) ** (1.0 / 3)
DEFAULT_UNIT = 0.00159360109742136  # Eh per kcal/mol (documented default of add_reactions)
NSL = {"npa": 3, "nst": 3, "np": 2, "ns": 2}

# argument order of the feature-map constructors (indices first, then parameters)
MAP_ARGS = {
    "L": (["i"], []),
    "U": (["i"], ["gamma"]),
    "T": (["i", "j"], []),
    "V": (["i"], ["gamma", "scale", "center"]),
    "V3": (["i", "j"], ["gamma"]),
    "W": (["i", "j", "k"], ["gammai", "gammaj"]),
    "X": (["i", "j", "k"], ["gammai", "gammaj"]),
    "Z": (["i"], ["gamma", "scale", "center"]),
    "SLN": (["i"], ["gamma"]),
}
# which index arguments need a positive raw feature
MAP_POS = {"L": [], "U": ["i"], "T": ["i", "j"], "V": ["i"], "V3": ["i", "j"], "W": ["i", "j"], "X": ["i", "j"],
           "Z": [], "SLN": ["i"]}


# ------------------------------------------------------------------------------------------------
# numpy model: feature maps, normalisers, baselines, kernels

def map_val(spec, x):
    c, ix, p = spec["code"], spec["idx"], spec["par"]
    if c == "L":
        return x[ix["i"]] + 0
    if c == "U":
        g = p["gamma"]
        return g * x[ix["i"]] / (1 + g * x[ix["i"]])
    if c == "T":
        t = x[ix["j"]] + 5.0 / 3 * x[ix["i"]]
        return t / (1 + t)
    if c == "V":
        g = p["gamma"]
        return -p["center"] + p["scale"] * g * x[ix["i"]] / (1 + g * x[ix["i"]])
    if c == "V3":
        g = p["gamma"]
        return g * x[ix["i"]] / (1 + g * x[ix["i"]]) - g * x[ix["j"]] / (1 + g * x[ix["j"]])
    if c == "W":
        gi, gj = p["gammai"], p["gammaj"]
        return gi * np.sqrt(gj / (1 + gj * x[ix["j"]])) * x[ix["k"]] / (1 + gi * x[ix["i"]])
    if c == "X":
        gi, gj = p["gammai"], p["gammaj"]
        return np.sqrt(gi / (1 + gi * x[ix["i"]])) * np.sqrt(gj / (1 + gj * x[ix["j"]])) * x[ix["k"]]
    if c == "Z":
        return -p["center"] + p["scale"] / (1 + p["gamma"] * x[ix["i"]] ** 2)
    if c == "SLN":
        return (1 + 3.0 * p["gamma"] / (4 * np.pi) * x[ix["i"]]) ** (-1.0 / 3)
    raise ValueError(c)


def maps_val(maps, x):
    """x (N0, n) -> X1 (n, N1)"""
    return np.stack([map_val(m, x) for m in maps], axis=1)


def normalize(desc_s, norms, slmode):
    """desc_s (N0, n) raw features of one spin channel -> normalised features (docs: features/normalisers).
    Only used at points whose density is far above the 1e-10 clamp of the implementation."""
    nsl = NSL[slmode]
    rho = desc_s[0]
    if slmode == "npa":
        inh = desc_s[2] + 5.0 / 3 * desc_s[1]
    elif slmode == "nst":
        inh = desc_s[2] / (CFC * rho ** (5.0 / 3))
    elif slmode == "np":
        inh = 5.0 / 3 * desc_s[1]
    else:
        inh = desc_s[1] / (8 * CFC * rho ** (8.0 / 3))
    out = []
    for i in range(desc_s.shape[0]):
        n = norms[i - nsl] if i >= nsl else None
        if n is None:
            out.append(desc_s[i] + 0)
        elif n["kind"] == "const":
            out.append(desc_s[i] * n["c1"])
        elif n["kind"] == "density":
            out.append(desc_s[i] * n["c1"] * rho ** n["p1"])
        elif n["kind"] == "inhom":
            out.append(desc_s[i] * n["c1"] * (1 + n["c2"] * inh) ** n["p2"])
        elif n["kind"] == "general":
            out.append(desc_s[i] * n["c1"] * rho ** n["p1"] * (1 + n["c2"] * inh) ** n["p2"])
        else:
            raise ValueError(n["kind"])
    return np.stack(out)


def base_one_spin(code, x):
    """Energy density of a native baseline for one spin channel of spin-scaled normalised features x (N0, n)."""
    rho = x[0]
    if code == "ZERO":
        return np.zeros(x.shape[1], dtype=x.dtype)
    if code == "ONE":
        return np.ones(x.shape[1], dtype=x.dtype)
    if code == "LDA_X":
        return LDA_FACTOR * rho ** (4.0 / 3)
    if code == "GGA_X_PBE":
        kappa, mu = 0.804, 0.2195149727645171
        fx = 1 + kappa - kappa / (1 + mu * x[1] / kappa)
        return LDA_FACTOR * rho ** (4.0 / 3) * fx
    if code == "NLDA_X_DAMP":
        return LDA_FACTOR * 2.0 / (1.0 + 0.5 * x[3]) ** 2 * rho ** (4.0 / 3)
    raise ValueError(code)


def kern_val(kspec, X, Y):
    """Covariance kernel from its closed form; X (n, N1) may be complex, Y (M, N1) real."""
    out = 0.0
    for t in kspec["terms"]:
        ls = np.asarray(t["ls"], dtype=float)
        d = (X[:, None, :] - Y[None, :, :]) / ls
        out = out + (t["c"] * np.exp(-0.5 * np.sum(d * d, axis=2))) ** t["pow"]
    if kspec.get("const") is not None:
        out = out + kspec["const"]
    return out


# ------------------------------------------------------------------------------------------------
# synthetic data

class System:
    pass


def make_system(case, i):
    """Raw data of system i, derived from drawn structure + drawn seed (bulk filler only)."""
    sp = case["systems"][i]
    slmode = case["slmode"]
    nsl = NSL[slmode]
    nx = case["n_nldf"] + case["n_sdmx"]
    N0 = nsl + nx
    rng = rng_from(case["seed"] * 131 + 7 * i + 1)
    nspin, ng = sp["nspin"], sp["ng"]
    nB = min(sp["nlowB"], ng - 2)
    nC = min(sp["nlowC"], ng - 2 - nB) if nspin == 2 else 0
    s = System()
    s.sid = "s%d" % i
    s.nspin, s.ng = nspin, ng
    # point classes: A both spins dense, B all spin channels far below the masking density (may be zero or
    # slightly negative, as numerical densities are), C (nspin 2) exactly one channel far below (positive)
    cls = np.array(["A"] * ng)
    pos = rng.permutation(ng)
    cls[pos[:nB]] = "B"
    cls[pos[nB:nB + nC]] = "C"
    s.cls = cls
    rho = np.exp(rng.uniform(np.log(2e-3), np.log(4.0), (nspin, ng)))
    for g in np.where(cls == "B")[0]:
        kind = rng.integers(0, 3)
        rho[:, g] = [1e-9 * rng.uniform(0.1, 10), 0.0, -1e-12 * rng.uniform(0.1, 10)][kind]
    for g in np.where(cls == "C")[0]:
        rho[rng.integers(0, 2), g] = 1e-9 * rng.uniform(0.1, 10)
    ar = np.maximum(np.abs(rho), 1e-12)
    desc = np.empty((nspin, N0, ng))
    desc[:, 0] = rho
    p = rng.uniform(0.01, 2.5, (nspin, ng))
    al = rng.uniform(0.05, 3.0, (nspin, ng))
    if slmode in ("npa", "np"):
        desc[:, 1] = p
    else:
        desc[:, 1] = p * 8 * CFC * ar ** (8.0 / 3)
    if slmode == "npa":
        desc[:, 2] = al
    elif slmode == "nst":
        desc[:, 2] = al * CFC * ar ** (5.0 / 3)
    for j in range(nx):
        v = rng.uniform(0.05, 2.0, (nspin, ng))
        if case["signed"][j]:
            v *= rng.choice([-1.0, 1.0], (nspin, ng))
        desc[:, nsl + j] = v
    s.desc = desc
    w = np.exp(rng.uniform(np.log(0.02), np.log(1.0), ng)) * (8.0 / ng)
    lowmask = cls == "B"
    w[lowmask] = np.exp(rng.uniform(np.log(1.0), np.log(1e4), int(lowmask.sum())))
    s.wt = w
    s.val = -rng.uniform(0.05, 1.0, ng) * np.where(lowmask, 0.0, 1.0)
    s.e_tot = float(rng.uniform(-5, 5))
    s.exc = float(rng.uniform(-2, 0))
    # local density data (MOLGP2 baselines): spin-scaled like the features; tau >= tau_W by construction
    rd = np.zeros((nspin, 5, ng))
    rd[:, 0] = rho
    rd[:, 1:4] = rng.uniform(-1, 1, (nspin, 3, ng)) * (0.8 * ar ** (4.0 / 3))[:, None, :]
    sig = np.einsum("sxg,sxg->sg", rd[:, 1:4], rd[:, 1:4])
    rd[:, 4] = sig / (8 * ar) + rng.uniform(0.2, 1.5, (nspin, ng)) * CFC * ar ** (5.0 / 3)
    s.rho_data = rd
    # orbital-occupation derivatives
    s.orbs = []
    for (occ, num, spin) in sp["orbs"]:
        spin = spin if nspin == 2 else 0
        dd = rng.uniform(-1, 1, (N0, ng)) * np.abs(desc[spin])
        dd[0] = rng.uniform(0, 1, ng) * ar[spin]
        dval = float(rng.uniform(-1, 0.3))
        drho = rng.uniform(-1, 1, (5, ng)) * np.abs(rd[spin])
        s.orbs.append({"key": (occ, int(num)), "spin": int(spin), "dd": dd, "dval": dval, "drho": drho})
    return s


def tmp_root(tag):
    from . import bootstrap

    base = os.path.join(bootstrap.VERIF, ".build", "tmp")
    os.makedirs(base, exist_ok=True)
    import time

    for name in os.listdir(base):      # left-overs of killed workers (older than two hours)
        q = os.path.join(base, name)
        try:
            if name.startswith("c16_") and time.time() - os.path.getmtime(q) > 7200:
                shutil.rmtree(q, ignore_errors=True)
        except OSError:
            pass
    d = os.path.join(base, "c16_%d_%s" % (os.getpid(), tag))
    shutil.rmtree(d, ignore_errors=True)
    os.makedirs(d)
    return d


def write_dataset(case, systems, root):
    """Files in the layout MOLGP.load_data reads; returns the ddir dictionary."""
    from pyscf.lib import chkfile

    nsl = NSL[case["slmode"]]
    blocks = [("SL", 0, nsl)]
    if case["n_nldf"]:
        blocks.append(("NLDF", nsl, nsl + case["n_nldf"]))
    if case["n_sdmx"]:
        blocks.append(("SDMX", nsl + case["n_nldf"], nsl + case["n_nldf"] + case["n_sdmx"]))
    ddir = {"REF": os.path.join(root, "REF"), "SL": None, "NLDF": None, "NLOF": None, "SDMX": None, "HYB": None}
    os.makedirs(ddir["REF"])
    for name, _, _ in blocks:
        ddir[name] = os.path.join(root, name)
        os.makedirs(ddir[name])
    for s in systems:
        ref = {"wt": s.wt, "val": s.val, "e_tot_orig": s.e_tot, "exc_orig": s.exc, "nspin": s.nspin,
               "rho_data": s.rho_data}
        if s.orbs:
            ref["dval"] = {}
            ref["drho_data"] = {}
            for o in s.orbs:
                occ, num = o["key"]
                ref["dval"].setdefault(occ, {})[str(num)] = o["dval"]
                ref["drho_data"].setdefault(occ, {})[str(num)] = (o["spin"], o["drho"]) if s.nspin == 2 else o["drho"]
        chkfile.dump(os.path.join(ddir["REF"], s.sid + ".hdf5"), "train_data", ref)
        for name, a, b in blocks:
            d = {"desc": np.ascontiguousarray(s.desc[:, a:b])}
            if s.orbs:
                d["ddesc"] = {}
                for o in s.orbs:
                    occ, num = o["key"]
                    arr = np.ascontiguousarray(o["dd"][a:b])
                    d["ddesc"].setdefault(occ, {})[str(num)] = (o["spin"], arr) if s.nspin == 2 else arr
            chkfile.dump(os.path.join(ddir[name], s.sid + ".hdf5"), "train_data", d)
    return ddir


# ------------------------------------------------------------------------------------------------
# the objects under test

def build_feature_list(maps):
    from ciderpress.dft import transform_data as td

    out = []
    for m in maps:
        cls = td.ALL_CLASS_DICT[m["code"]]
        ia, pa = MAP_ARGS[m["code"]]
        out.append(cls(*([m["idx"][n] for n in ia] + [m["par"][n] for n in pa])))
    return td.FeatureList(out)


def build_sk_kernel(kspec):
    from ciderpress.models.kernels import DiffConstantKernel, DiffRBF

    k = None
    for t in kspec["terms"]:
        ls = t["ls"] if isinstance(t["ls"], list) else float(t["ls"])
        kt = DiffConstantKernel(t["c"]) * DiffRBF(np.array(ls) if isinstance(ls, list) else ls)
        if t["pow"] != 1:
            kt = kt ** t["pow"]
        k = kt if k is None else k + kt
    if kspec.get("const") is not None:
        k = k + DiffConstantKernel(kspec["const"])
    return k


def build_settings(case):
    from ciderpress.dft import feat_normalizer as fn
    from ciderpress.dft.settings import FeatureSettings, SemilocalSettings

    norms = [None] * NSL[case["slmode"]]
    for n in case["norms"]:
        if n is None:
            norms.append(None)
        elif n["kind"] == "const":
            norms.append(fn.ConstantNormalizer(n["c1"]))
        elif n["kind"] == "density":
            norms.append(fn.DensityNormalizer(n["c1"], n["p1"]))
        elif n["kind"] == "inhom":
            norms.append(fn.InhomogeneityNormalizer(n["c1"], n["c2"], n["p2"]))
        else:
            norms.append(fn.GeneralNormalizer(n["c1"], n["c2"], n["p1"], n["p2"]))
    return FeatureSettings(sl_settings=SemilocalSettings(case["slmode"]),
                           normalizers=fn.FeatNormalizerList(norms, slmode=case["slmode"]))


def build_gp(case, order=None):
    """MOLGP (or MOLGP2) with the kernels of the case in the given order (list of kernel indices)."""
    from ciderpress.dft import baselines
    from ciderpress.models.dft_kernel import DFTKernel, DFTKernel2
    from ciderpress.models.train import MOLGP, MOLGP2

    order = list(range(len(case["kernels"]))) if order is None else order
    ks = []
    for ik in order:
        kc = case["kernels"][ik]
        fl = build_feature_list(kc["maps"])
        skk = build_sk_kernel(kc["kern"])
        if case["gp2"]:
            dk = DFTKernel2(skk, fl, kc["mode"], kc["mul"], kc["add"], ctrl_tol=kc["ctrl_tol"],
                            ctrl_nmax=kc["ctrl_nmax"], component=kc["component"])
        else:
            dk = DFTKernel(skk, fl, kc["mode"], baselines.BASELINE_CODES[kc["mul"]],
                           baselines.BASELINE_CODES[kc["add"]], ctrl_tol=kc["ctrl_tol"],
                           ctrl_nmax=kc["ctrl_nmax"], component=kc["component"])
        ks.append(dk)
    cls = MOLGP2 if case["gp2"] else MOLGP
    gp = cls(ks, build_settings(case), default_noise=case["default_noise"])
    return gp, ks


# ------------------------------------------------------------------------------------------------
# numpy model of the covariance integrals

class Model:
    def __init__(self, case, systems):
        self.case = case
        self.sys = {s.sid: s for s in systems}
        self._xc_cache = {}

    # -- features -------------------------------------------------------------------------------
    def masks(self, s):
        """(per-spin mask, all-channels mask): True where the documented threshold removes the point."""
        rho = s.desc[:, 0]
        per = rho < RHOCUT
        return per, np.all(per, axis=0)

    def x0t(self, s, pert=None):
        """normalised features (nspin, N0, ng); points where every spin channel is below the masking density
        (zero / negative numerical densities) are replaced by a benign column: their contribution is exactly
        zero by the masking rule, so the value is irrelevant."""
        desc = s.desc.astype(complex) if pert is not None else s.desc.copy()
        if pert is not None:
            spin, dd, h = pert
            desc[spin] = desc[spin] + 1j * h * dd
        _, allm = self.masks(s)
        for sp in range(s.nspin):
            desc[sp][:, allm] = 1.0
        return np.stack([normalize(desc[sp], self.case["norms"], self.case["slmode"]) for sp in range(s.nspin)])

    def ctrl_x0t(self, pick):
        """control-point candidates: list of normalised feature arrays of dense points (an input)."""
        out = []
        for isys, pts in pick:
            s = self.sys["s%d" % isys]
            dense = np.where(s.cls == "A")[0]
            idx = []
            for p in pts:      # distinct points only: a repeated control point makes K~ singular by construction
                g = int(dense[p % len(dense)])
                if g not in idx:
                    idx.append(g)
            out.append(np.ascontiguousarray(self.x0t(s)[:, :, idx]))
        return out

    def x1_candidates(self, kc, x0t_list):
        """rows (SEP/NPOL) or spin pairs (POL) the control points must be drawn from"""
        rows = []
        for X in x0t_list:
            ns = X.shape[0]
            if kc["mode"] == "SEP":
                for sp in range(ns):
                    rows.append(maps_val(kc["maps"], X[sp]))
            elif kc["mode"] == "NPOL":
                rows.append(maps_val(kc["maps"], X.mean(0)))
            else:
                a = maps_val(kc["maps"], X[0])
                b = maps_val(kc["maps"], X[-1])
                rows.append(np.concatenate([a, b], axis=1))
        return np.concatenate(rows, axis=0)

    # -- baselines ------------------------------------------------------------------------------
    def _libxc(self, code, s):
        """energy density (per volume) of a libxc functional through PySCF's own libxc interface:
        returns (per-spin 'separable' values (nspin, ng), total (ng))."""
        key = (code, s.sid)
        if key in self._xc_cache:
            return self._xc_cache[key]
        from pyscf.dft import libxc

        per, allm = self.masks(s)
        rd = s.rho_data / s.nspin          # true spin densities (files hold spin-scaled data)
        rd = rd.copy()
        for sp in range(s.nspin):          # points removed by the masking rule: benign values
            rd[sp][:, allm] = 0.0
            rd[sp][0, allm] = 1e-30

        def ev(r, spin):
            """exc per particle from PySCF's libxc interface; r (5, ng) or (2, 5, ng): rho, grad rho, tau"""
            xctype = libxc.xc_type(code)
            if xctype == "LDA":
                r = r[..., 0, :]
            elif xctype == "GGA":
                r = r[..., :4, :]
            else:   # PySCF's eval_xc layout for meta-GGA: rho, grad, laplacian, tau
                r = np.concatenate([r[..., :4, :], np.zeros_like(r[..., :1, :]), r[..., 4:, :]], axis=-2)
            exc = libxc.eval_xc(code, r, spin=spin, deriv=0)[0]
            return np.asarray(exc).reshape(-1)

        if s.nspin == 1:
            e = ev(rd[0], 0) * rd[0, 0]
            sep = e[None]
            tot = e
        else:
            tot = ev(rd, 1) * (rd[0, 0] + rd[1, 0])
            sep = np.stack([0.5 * ev(2 * rd[sp], 0) * 2 * rd[sp, 0] for sp in range(2)])
        self._xc_cache[key] = (sep, tot)
        return sep, tot

    def baseline(self, code, kc, s, X0T):
        """(m_sep (nspin, ng) for SEP | m (ng) otherwise), unmasked"""
        if code is None:
            return np.zeros((s.nspin, s.ng)) if kc["mode"] == "SEP" else np.zeros(s.ng)
        if self.case["gp2"]:
            sep, tot = self._libxc(code, s)
            return sep if kc["mode"] == "SEP" else tot
        h = np.stack([base_one_spin(code, X0T[sp]) for sp in range(s.nspin)])
        return h / s.nspin if kc["mode"] == "SEP" else h.mean(0)

    # -- integrals ------------------------------------------------------------------------------
    def integrals(self, ik, sid, X1ctrl, pert=None):
        """(covariance vector (M,), additive baseline integral) of system sid for kernel ik"""
        kc = self.case["kernels"][ik]
        s = self.sys[sid]
        X0T = self.x0t(s, pert)
        per, allm = self.masks(s)
        m = self.baseline(kc["mul"], kc, s, X0T)
        a = self.baseline(kc["add"], kc, s, X0T)
        w = s.wt
        if kc["mode"] == "SEP":
            cov = 0.0
            base = 0.0
            for sp in range(s.nspin):
                keep = np.where(per[sp], 0.0, 1.0)
                k = kern_val(kc["kern"], maps_val(kc["maps"], X0T[sp]), X1ctrl)
                cov = cov + np.einsum("g,gc->c", w * keep * m[sp], k)
                base = base + np.sum(w * keep * a[sp])
            return cov, base
        keep = np.where(allm, 0.0, 1.0)
        if kc["mode"] == "NPOL":
            k = kern_val(kc["kern"], maps_val(kc["maps"], X0T.mean(0)), X1ctrl)
        else:
            xa = maps_val(kc["maps"], X0T[0])
            xb = maps_val(kc["maps"], X0T[-1])
            k = (kern_val(kc["kern"], xa, X1ctrl[0]) * kern_val(kc["kern"], xb, X1ctrl[1])
                 + kern_val(kc["kern"], xa, X1ctrl[1]) * kern_val(kc["kern"], xb, X1ctrl[0]))
        return np.einsum("g,gc->c", w * keep * m, k), np.sum(w * keep * a)

    def dintegrals(self, ik, sid, orb, X1ctrl):
        """occupation derivative of the two integrals by the complex-step method"""
        s = self.sys[sid]
        o = [x for x in s.orbs if tuple(x["key"]) == tuple(orb)][0]
        h = 1e-30
        cov, base = self.integrals(ik, sid, X1ctrl, pert=(o["spin"], o["dd"], h))
        return np.imag(cov) / h, float(np.imag(base) / h)

    def kmm(self, ik, X1ctrl):
        kc = self.case["kernels"][ik]
        if kc["mode"] == "POL":
            c0, c1 = X1ctrl[0], X1ctrl[1]
            return (kern_val(kc["kern"], c0, c0) * kern_val(kc["kern"], c1, c1)
                    + kern_val(kc["kern"], c0, c1) * kern_val(kc["kern"], c1, c0))
        return kern_val(kc["kern"], X1ctrl, X1ctrl)

    def refs(self, sid):
        s = self.sys[sid]
        return float(np.sum(s.val * s.wt)), s.e_tot - s.exc


# ------------------------------------------------------------------------------------------------
# bookkeeping model of the history (what has been stored / added); shared by generator and interpreter

class HistState:
    def __init__(self, comps, sys_orbs, modes=None, allow=(), gp2=False):
        self.comps = list(comps)
        self.gp2 = bool(gp2)
        self.modes = list(modes) if modes is not None else ["SEP"] * len(comps)
        self.allow = set(allow)    # names of excluded regions (recorded defects) a sub-check enters on purpose
        self.sys_orbs = [[(o[0], int(o[1])) for o in orbs] for orbs in sys_orbs]
        nk = len(comps)
        self.cov = [set() for _ in range(nk)]       # systems with covariance vectors, per kernel
        self.dcov = [set() for _ in range(nk)]      # systems with derivative vectors, per kernel
        self.refs = set()
        self.drefs = set()
        self.rxns = []
        self.fitted = False

    @property
    def xk(self):
        return [i for i, c in enumerate(self.comps) if c == "x"]

    def mode0_ok(self):
        return bool(self.xk)

    def store_valid(self, sysl, deriv, corr):
        if not sysl:
            return False
        flags = deriv if isinstance(deriv, list) else [deriv] * len(self.comps)
        for ik, fl in enumerate(flags):
            if not (corr or self.comps[ik] == "x"):
                continue
            has = [bool(self.sys_orbs[i]) for i in sysl]
            if fl is True and not all(has):
                return False
            if fl is None and any(has) and not all(has):
                return False  # 'reads them iff available' is only well defined for a homogeneous list
            if self.gp2 and (all(has) if fl is None else bool(fl)) and "gp2_deriv" not in self.allow:
                return False  # excluded region (open finding): MOLGP2 cannot process derivative data (see c16.py)
        if not (corr or "x" in self.comps):
            return False      # no kernel would be processed: the call is a no-op
        return True

    def store(self, sysl, deriv, corr):
        flags = deriv if isinstance(deriv, list) else [deriv] * len(self.comps)
        for ik, fl in enumerate(flags):
            if not (corr or self.comps[ik] == "x"):
                continue
            d = all(bool(self.sys_orbs[i]) for i in sysl) if fl is None else bool(fl)
            for i in sysl:
                self.cov[ik].add(i)
                if d:
                    self.dcov[ik].add(i)
                    self.drefs.add(i)
            # documented: store_mol_covs "also stores the reference energy data" (whichever kernel is processed first)
            self.refs.update(sysl)

    def plain_ok(self, mode):
        ks = self.xk if mode == 0 else range(len(self.comps))
        ok = set(self.refs)
        for ik in ks:
            ok &= self.cov[ik]
        return sorted(ok)

    def tuple_ok(self):
        """(system, orbital) entries usable in an exchange (mode 0) reaction"""
        ok = set(self.drefs)
        for ik in self.xk:
            ok &= self.dcov[ik]
        return [(i, o) for i in sorted(ok) for o in self.sys_orbs[i]]

    def rxn_valid(self, r):
        if r["mode"] == 0 and not self.xk:
            return False
        plain = set(self.plain_ok(r["mode"]))
        tup = set((i, o) for i, o in self.tuple_ok())
        for st in r["structs"]:
            if isinstance(st, (list, tuple)):
                if r["mode"] != 0 and "deriv_mode2" not in self.allow:
                    return False  # excluded region (open finding): derivative entries in mode-2 reactions (see c16.py)
                if (int(st[0]), (st[1][0], int(st[1][1]))) not in tup:
                    return False
            elif int(st) not in plain:
                return False
        return len(r["structs"]) == len(r["counts"]) and len(r["structs"]) > 0


def rxn_for_code(r):
    """the (mode, dict) tuple handed to add_reactions (fresh dict: the routine fills in `unit`)"""
    structs = []
    for st in r["structs"]:
        if isinstance(st, (list, tuple)):
            structs.append(("s%d" % int(st[0]), (st[1][0], int(st[1][1]))))
        else:
            structs.append("s%d" % int(st))
    d = {"structs": structs, "counts": list(r["counts"])}
    for k in ("energy", "unit", "noise", "noise_factor", "noise_rel_factor", "weight"):
        if r.get(k) is not None:
            d[k] = r[k]
    if r["mode"] == 2 and "energy" not in d:
        d["energy"] = 0.0
    return (r["mode"], d)
