"""Runner for the property checks: sharded Hypothesis search, collect-then-shrink,
replay files, known-findings matching and evidence writing.

A *sub-check* is (strategy producing a plain JSON-able case, run(case, ctx)).  `run` is
a pure function of the case and the tree under test, so a saved case is a replay that
needs no Hypothesis.  See DESIGN.md section 3.
"""
import hashlib
import importlib
import json
import os
import signal
import subprocess
import sys
import time
import traceback

from . import bootstrap

VERIF = bootstrap.VERIF
REGISTRY = {}
NSHARD_DEFAULT = int(os.environ.get("VERIF_SHARDS", "16"))


class Violation(Exception):
    def __init__(self, sig, detail=None):
        self.sig = tuple(str(s) for s in sig)
        self.detail = detail or {}
        Exception.__init__(self, "/".join(self.sig) + " " + _short(self.detail))


class HarnessError(Exception):
    pass


class Skip(Exception):
    """Case outside the domain of the sub-check (counted, never a violation)."""


def _short(d, n=400):
    try:
        s = json.dumps(_jsonable(d), sort_keys=True)
    except Exception:
        s = repr(d)
    return s if len(s) <= n else s[:n] + "..."


def _jsonable(x):
    import numpy as np

    if isinstance(x, dict):
        return {str(k): _jsonable(v) for k, v in x.items()}
    if isinstance(x, (list, tuple)):
        return [_jsonable(v) for v in x]
    if isinstance(x, np.ndarray):
        if x.size > 64:
            return {"shape": list(x.shape), "absmax": float(np.max(np.abs(x))) if x.size else 0.0}
        return _jsonable(x.tolist())
    if isinstance(x, (np.integer,)):
        return int(x)
    if isinstance(x, (np.floating,)):
        x = float(x)
    if isinstance(x, float):
        if x != x or x in (float("inf"), float("-inf")):
            return repr(x)
        return x
    if isinstance(x, (np.bool_,)):
        return bool(x)
    if isinstance(x, (int, str, bool)) or x is None:
        return x
    if isinstance(x, complex):
        return [x.real, x.imag]
    return repr(x)


class SubCheck:
    def __init__(self, prop, name, strategy, fn, quick, thorough, rule, tolerances=None,
                 variant="plain", shrink=True, max_shards=None, assumptions=(), budget_s=None,
                 isolate=False):
        self.prop, self.name, self.strategy, self.fn = prop, name, strategy, fn
        self.quick, self.thorough, self.rule = quick, thorough, rule
        self.tolerances = tolerances or {}
        self.variant = variant
        self.shrink = shrink
        self.max_shards = max_shards
        self.assumptions = list(assumptions)
        self.budget_s = budget_s  # (quick, thorough) soft wall budget per shard
        self.isolate = isolate

    def n_examples(self, tier):
        n = self.quick if tier == "quick" else self.thorough
        scale = float(os.environ.get("VERIF_SCALE", "1"))
        return max(1, int(round(n * scale)))


def subcheck(prop, name, strategy, quick, thorough, rule, **kw):
    def deco(fn):
        sc = SubCheck(prop, name, strategy, fn, quick, thorough, rule, **kw)
        REGISTRY.setdefault(prop, []).append(sc)
        return fn

    return deco


class Ctx:
    """Handed to run(case, ctx): classification counters and the check primitives."""

    def __init__(self, sc, tier="quick"):
        self.sc = sc
        self.tier = tier
        self.events = {}
        self.nontrivial_keys = set()
        self.unresolved = {}
        self.decided = {}
        self.notes = {}
        self._nt_this = None
        self.measures = {}

    # classification -------------------------------------------------------------
    def event(self, label):
        self.events[label] = self.events.get(label, 0) + 1

    def nontrivial(self, key):
        k = hashlib.sha1(json.dumps(_jsonable(key), sort_keys=True).encode()).hexdigest()[:16]
        self.nontrivial_keys.add(k)
        self._nt_this = k

    def unresolved_fd(self, label="fd_unresolved"):
        self.unresolved[label] = self.unresolved.get(label, 0) + 1

    def measure(self, name, value):
        """Track the maximum of an observed error (goes into evidence: margin to tolerance)."""
        v = float(value)
        if v == v and v > self.measures.get(name, -1.0):
            self.measures[name] = v

    # oracles -------------------------------------------------------------------
    def check(self, ok, sig, **detail):
        if not ok:
            raise Violation((self.sc.name,) + tuple(sig), detail)

    def close(self, got, want, sig, rtol=1e-10, atol=0.0, scale=None, **detail):
        import numpy as np

        got = np.asarray(got, dtype=float) if not np.iscomplexobj(got) else np.asarray(got)
        want = np.asarray(want, dtype=float) if not np.iscomplexobj(want) else np.asarray(want)
        if got.shape != want.shape:
            raise Violation((self.sc.name,) + tuple(sig) + ("shape",),
                            dict(detail, got_shape=got.shape, want_shape=want.shape))
        if got.size == 0:
            return 0.0
        if scale is None:
            scale = float(np.max(np.abs(want))) if want.size else 0.0
        diff = np.abs(got - want)
        bad = ~np.isfinite(diff)
        # equal infinities / both-NaN are never accepted silently: non-finite is its own class
        if bad.any():
            raise Violation((self.sc.name,) + tuple(sig) + ("nonfinite",),
                            dict(detail, n_nonfinite=int(bad.sum())))
        if np.ndim(atol) > 0:
            # element-wise absolute floor (same shape as the data, or broadcastable to it)
            tolv = np.broadcast_to(np.asarray(atol, dtype=float) + rtol * scale, diff.shape)
            with np.errstate(all="ignore"):
                ratio = np.where(tolv > 0, diff / np.where(tolv > 0, tolv, 1.0), np.where(diff == 0, 0.0, np.inf))
            i = int(np.argmax(ratio))
            self.measure("/".join(sig), float(np.ravel(ratio)[i]))
            if np.ravel(ratio)[i] > 1.0:
                raise Violation((self.sc.name,) + tuple(sig),
                                dict(detail, err=float(np.ravel(diff)[i]), tol=float(np.ravel(tolv)[i]), scale=scale, index=i,
                                     got=float(np.ravel(got)[i].real), want=float(np.ravel(want)[i].real)))
            return float(diff.max())
        err = float(diff.max())
        tol = atol + rtol * scale
        self.measure("/".join(sig), err / tol if tol > 0 else (0.0 if err == 0 else float("inf")))
        if err > tol:
            i = int(np.argmax(diff))
            raise Violation((self.sc.name,) + tuple(sig),
                            dict(detail, err=err, tol=tol, scale=scale, index=i,
                                 got=float(np.ravel(got)[i].real), want=float(np.ravel(want)[i].real)))
        return err

    def equal_bits(self, got, want, sig, **detail):
        import numpy as np

        got, want = np.asarray(got), np.asarray(want)
        ok = got.shape == want.shape and got.dtype == want.dtype and got.tobytes() == want.tobytes()
        if not ok:
            d = dict(detail)
            if got.shape == want.shape:
                with np.errstate(all="ignore"):
                    d["maxdiff"] = float(np.nanmax(np.abs(got.astype(float) - want.astype(float)))) if got.size else 0.0
                    d["n_diff"] = int(np.sum(got != want))
            else:
                d.update(got_shape=got.shape, want_shape=want.shape)
            raise Violation((self.sc.name,) + tuple(sig), d)

    def finite(self, arr, sig, **detail):
        import numpy as np

        a = np.asarray(arr)
        if a.dtype.kind in "fc" and not np.all(np.isfinite(a)):
            raise Violation((self.sc.name,) + tuple(sig) + ("nonfinite",),
                            dict(detail, n_nonfinite=int((~np.isfinite(a)).sum())))

    def fd_compare(self, f, analytic, sig, h=1e-4, rtol=1e-6, atol=1e-9, scale=None, **detail):
        """4th-order central differences at h and h/2 (DESIGN 3.5).  f: scalar step -> value.
        Returns True when decided; counts fd_unresolved (never a violation) when the two
        estimates disagree with each other beyond the tolerance."""
        def d(hh):
            return (8.0 * (f(hh) - f(-hh)) - (f(2 * hh) - f(-2 * hh))) / (12.0 * hh)

        d1, d2 = d(h), d(h / 2)
        if not (d1 == d1 and d2 == d2 and abs(d1) != float("inf") and abs(d2) != float("inf")):
            raise Violation((self.sc.name,) + tuple(sig) + ("nonfinite",), dict(detail, d1=d1, d2=d2))
        sc = max(abs(d2), abs(analytic)) if scale is None else scale
        tol = atol + rtol * sc
        spread = abs(d1 - d2)
        if spread > tol:
            self.unresolved_fd("fd_unresolved:" + "/".join(sig))
            return False
        self.decided["/".join(sig)] = self.decided.get("/".join(sig), 0) + 1
        err = abs(analytic - d2)
        lim = max(tol, 10 * spread)
        self.measure("/".join(sig), err / lim)
        if not (err <= lim):
            raise Violation((self.sc.name,) + tuple(sig),
                            dict(detail, analytic=analytic, fd=d2, fd_coarse=d1, err=err, tol=lim))
        return True


# ------------------------------------------------------------------------------
# classification of unexpected exceptions

def _innermost_repo_frame(tb):
    fr = None
    root = os.path.join(bootstrap.REPO, "ciderpress")
    for f in traceback.extract_tb(tb):
        if os.path.abspath(f.filename).startswith(root):
            fr = "%s:%s" % (os.path.relpath(f.filename, bootstrap.REPO), f.name)
    return fr


def run_case(sc, case, ctx):
    """Run one case.  Returns None or a violation dict.  Raises HarnessError."""
    try:
        sc.fn(case, ctx)
        return None
    except Skip:
        ctx.event("skipped_out_of_domain")
        return None
    except Violation as v:
        return {"sig": list(v.sig), "detail": _jsonable(v.detail)}
    except (KeyboardInterrupt, SystemExit):
        raise
    except BaseException as e:
        fr = _innermost_repo_frame(e.__traceback__)
        if fr is None and isinstance(e, AttributeError) and str(getattr(e, "name", "") or "").startswith("_") \
                and not str(e.name).startswith("__"):
            o = getattr(e, "obj", None)
            import types
            mod = o.__name__ if isinstance(o, types.ModuleType) else getattr(o if isinstance(o, type) else type(o), "__module__", "")
            if str(mod).startswith("ciderpress"):
                # the harness reached for a private name of the package (a mechanism-level hook) that this tree does not
                # have: private names are not part of any property, so the case is not decided - never an alarm
                ctx.event("private_hook_missing:%s.%s" % (getattr(o if isinstance(o, type) else type(o), "__name__", "?"), e.name))
                return None
        if fr is None or os.environ.get("VERIF_STRICT_HARNESS"):
            raise HarnessError("%s in sub-check %s: %s\n%s" % (type(e).__name__, sc.name, e, traceback.format_exc()))
        return {"sig": [sc.name, "exception", type(e).__name__, fr],
                "detail": {"message": str(e)[:500], "traceback": traceback.format_exc()[-1500:]}}


# ------------------------------------------------------------------------------
# worker side

def _load_props(prop):
    bootstrap.init()
    importlib.import_module("props." + prop.lower())
    return REGISTRY.get(prop, [])


def _find(prop, name):
    for sc in _load_props(prop):
        if sc.name == name:
            return sc
    raise HarnessError("no sub-check %s/%s" % (prop, name))


def _make_body(sc, ctx, res, t0, budget, journal, skip_first=False):
    state = {"first": skip_first}

    def body(case):
        if state["first"]:
            # Hypothesis always starts a run with the all-simplest example; with 16 shards that would be
            # the same case 16 times.  Only shard 0 evaluates it.
            state["first"] = False
            return
        if budget is not None and time.time() - t0 > budget:
            res["skipped_budget"] += 1
            return
        with open(journal, "w") as f:
            json.dump({"subcheck": sc.name, "case": case}, f)
        ctx._nt_this = None
        v = run_case(sc, case, ctx)
        res["evaluations"] += 1
        if v is not None:
            if len(res["violations"]) < 50:
                v["case"] = case
                res["violations"].append(v)
        elif ctx._nt_this is not None and len(res["samples"]) < 3:
            res["samples"].append(case)

    return body


def worker_main(args):
    """python -m cpverif.runner --worker PROP TIER SEED SHARD NSHARD OUT [names...]"""
    prop, tier, seed, shard, nshard, out = args[0], args[1], int(args[2]), int(args[3]), int(args[4]), args[5]
    only = set(args[6:])
    import hypothesis
    from hypothesis import HealthCheck, Phase, given, settings

    scs = [s for s in _load_props(prop) if (not only or s.name in only)]
    results = {}
    journal = out + ".cur"
    for sc in scs:
        n = sc.n_examples(tier)
        ns = min(nshard, sc.max_shards or nshard, n)
        if shard >= ns:
            continue
        nk = n // ns + (1 if shard < n % ns else 0)
        if nk <= 0:
            continue
        ctx = Ctx(sc, tier)
        res = {"evaluations": 0, "violations": [], "samples": [], "harness_error": None,
               "skipped_budget": 0, "t": 0.0, "planned": nk}
        results[sc.name] = res
        budget = None
        if sc.budget_s:
            budget = sc.budget_s[0 if tier == "quick" else 1]
        t0 = time.time()
        hseed = (seed * 1000003 + shard * 7919 + int(hashlib.sha1(sc.name.encode()).hexdigest()[:6], 16)) % (2**31)

        body = _make_body(sc, ctx, res, t0, budget, journal, skip_first=(shard != 0))
        if shard != 0:
            nk += 1
        test = given(sc.strategy())(body)
        test = settings(max_examples=nk, database=None, deadline=None, derandomize=False,
                        report_multiple_bugs=False, phases=[Phase.generate],
                        suppress_health_check=[HealthCheck.too_slow, HealthCheck.data_too_large,
                                               HealthCheck.large_base_example])(test)
        test = hypothesis.seed(hseed)(test)
        try:
            test()
        except HarnessError as e:
            res["harness_error"] = str(e)[-3000:]
        except hypothesis.errors.FailedHealthCheck as e:
            res["harness_error"] = "health check: " + str(e)[:1500]
        except hypothesis.errors.Unsatisfiable as e:
            res["harness_error"] = "unsatisfiable: " + str(e)[:1500]
        res["t"] = time.time() - t0
        res["events"] = ctx.events
        res["nontrivial_keys"] = sorted(ctx.nontrivial_keys)
        res["unresolved"] = ctx.unresolved
        res["decided"] = ctx.decided
        res["measures"] = ctx.measures
        with open(out + ".part", "w") as f:
            json.dump(results, f)
    with open(out, "w") as f:
        json.dump(results, f)
    try:
        os.remove(journal)
    except OSError:
        pass
    return 0


def replay_main(args):
    """python -m cpverif.runner --replay-worker PROP FILE OUT : run saved cases, no Hypothesis."""
    prop, path, out = args
    with open(path) as f:
        rec = json.load(f)
    sc = _find(prop, rec["subcheck"])
    ctx = Ctx(sc, "quick")
    v = run_case(sc, rec["case"], ctx)
    with open(out, "w") as f:
        json.dump({"violation": v}, f)
    return 0


def shrink_main(args):
    """python -m cpverif.runner --shrink PROP NAME CASEFILE OUT : Hypothesis-driven shrinking of
    one signature; the smallest failing case seen so far is continuously written to OUT."""
    prop, name, casefile, out = args
    import hypothesis
    from hypothesis import HealthCheck, Phase, given, settings

    with open(casefile) as f:
        rec = json.load(f)
    sc = _find(prop, name)
    target = rec["sig"]
    best = {"n": None}

    def same(v):
        return v is not None and v["sig"][:3] == target[:3]

    def body(case):
        ctx = Ctx(sc, "quick")
        try:
            v = run_case(sc, case, ctx)
        except HarnessError:
            return
        if same(v):
            size = len(json.dumps(case))
            if best["n"] is None or size < best["n"]:
                best["n"] = size
                v["case"] = case
                with open(out + ".tmp", "w") as f:
                    json.dump(v, f)
                os.replace(out + ".tmp", out)
            raise AssertionError("violation")

    test = given(sc.strategy())(body)
    test = settings(max_examples=max(50, min(2000, rec.get("budget", 400))), database=None, deadline=None,
                    report_multiple_bugs=False, phases=[Phase.generate, Phase.shrink],
                    suppress_health_check=list(HealthCheck))(test)
    test = hypothesis.seed(rec["hseed"])(test)
    try:
        test()
    except BaseException:
        pass
    return 0


# ------------------------------------------------------------------------------
# parent side

def _python():
    return sys.executable


def _env_for(variant, libdir):
    env = dict(os.environ)
    env["CIDER_VERIF_LIBDIR"] = libdir
    env["PYTHONPATH"] = VERIF + os.pathsep + env.get("PYTHONPATH", "")
    env.setdefault("PYTHONHASHSEED", "0")
    env.setdefault("OMP_NUM_THREADS", "1")
    env.setdefault("OPENBLAS_NUM_THREADS", "1")
    if variant == "asan":
        sys.path.append(os.path.join(VERIF, "native"))
        import build as _b

        env["LD_PRELOAD"] = _b.asan_preload()
        env["ASAN_OPTIONS"] = "detect_leaks=0:halt_on_error=1:abort_on_error=1:allocator_may_return_null=1:detect_odr_violation=0"
        env["UBSAN_OPTIONS"] = "halt_on_error=1:print_stacktrace=1"
    return env


def _known_findings():
    p = os.path.join(VERIF, "known_findings.json")
    if not os.path.exists(p):
        return []
    with open(p) as f:
        return json.load(f).get("findings", [])


def _match_known(prop, sig, known):
    for k in known:
        if k.get("property") == prop and k.get("status") == "open":
            ks = [str(s) for s in k.get("signature", [])]
            if ks and all(s in sig for s in ks):
                return k
    return None


def _sig_hash(sig):
    return hashlib.sha1("/".join(sig).encode()).hexdigest()[:10]


def check_main(prop, tier, seed, only=None, nshard=None, verbose=True):
    t_start = time.time()
    sys.path.append(os.path.join(VERIF, "native"))
    import build as _b

    def log(*a):
        if verbose:
            print(*a, file=sys.stderr, flush=True)

    try:
        libdirs = {"plain": _b.build("plain", bootstrap.REPO)}
    except _b.BuildError as e:
        print("HARNESS-ERROR build failed:\n" + str(e)[-3000:], file=sys.stderr)
        return 2
    os.environ["CIDER_VERIF_LIBDIR"] = libdirs["plain"]
    try:
        scs = _load_props(prop)
    except Exception:
        # an import error of the tree under test with the harness importing fine elsewhere
        print("HARNESS-ERROR cannot import property module:\n" + traceback.format_exc(), file=sys.stderr)
        return 2
    if only:
        scs = [s for s in scs if s.name in only]
    if not scs:
        print("HARNESS-ERROR no sub-checks for " + prop, file=sys.stderr)
        return 2
    variants = sorted(set(s.variant for s in scs))
    if "asan" in variants:
        try:
            libdirs["asan"] = _b.build("asan", bootstrap.REPO)
        except _b.BuildError as e:
            print("HARNESS-ERROR asan build failed:\n" + str(e)[-3000:], file=sys.stderr)
            return 2
    nshard = nshard or NSHARD_DEFAULT
    rundir = os.path.join(VERIF, ".build", "run", "%s_%s_%d" % (prop, tier, os.getpid()))
    os.makedirs(rundir, exist_ok=True)
    known = _known_findings()
    violations = []   # (sig, case, detail, subcheck, source)
    harness_errors = []
    crashes = []

    # ---- 1. replay corpus (regression cases and known-finding reproducers) ----------
    rdir = os.path.join(VERIF, "replays", prop)
    corpus = []
    if os.path.isdir(rdir):
        corpus = sorted(os.path.join(rdir, f) for f in os.listdir(rdir) if f.endswith(".json"))
    if only:
        corpus = [p for p in corpus if json.load(open(p)).get("subcheck") in only]
    replayed = 0
    known_reproduced = {}
    procs = []
    for i, path in enumerate(corpus):
        rec = json.load(open(path))
        sc = [s for s in scs if s.name == rec.get("subcheck")]
        variant = sc[0].variant if sc else "plain"
        out = os.path.join(rundir, "replay_%d.json" % i)
        p = subprocess.Popen([_python(), "-m", "cpverif.runner", "--replay-worker", prop, path, out],
                             env=_env_for(variant, libdirs[variant]), cwd=VERIF,
                             stdout=subprocess.DEVNULL, stderr=subprocess.PIPE, text=True)
        procs.append((p, path, out, rec))
        if len(procs) >= nshard:
            _drain_replays(procs, prop, known, violations, harness_errors, known_reproduced)
            replayed += len(procs)
            procs = []
    _drain_replays(procs, prop, known, violations, harness_errors, known_reproduced)
    replayed += len(procs)

    # ---- 2. generated search, sharded -------------------------------------------------
    agg = {}
    for variant in variants:
        names = [s.name for s in scs if s.variant == variant and not s.isolate]
        groups = [names] if names else []
        for s in scs:
            if s.variant == variant and s.isolate:
                groups.append([s.name])
        for names in groups:
            ns = max(min(nshard, (s.max_shards or nshard), s.n_examples(tier)) for s in scs if s.name in names)
            procs = []
            for k in range(ns):
                out = os.path.join(rundir, "w_%s_%s_%d.json" % (variant, names[0], k))
                cmd = [_python(), "-m", "cpverif.runner", "--worker", prop, tier, str(seed), str(k), str(nshard), out] + names
                errf = open(out + ".stderr", "w")
                p = subprocess.Popen(cmd, env=_env_for(variant, libdirs[variant]), cwd=VERIF,
                                     stdout=subprocess.DEVNULL, stderr=errf, text=True)
                procs.append((p, out, k))
            hung = _wait_workers(procs, tier)
            for p, out, k in procs:
                try:
                    err = open(out + ".stderr").read()
                except OSError:
                    err = ""
                if k in hung:
                    err += "\nHUNG: no progress on the case in flight for %d s; worker killed" % hung[k]
                res = None
                if os.path.exists(out):
                    res = json.load(open(out))
                elif os.path.exists(out + ".part"):
                    res = json.load(open(out + ".part"))
                if p.returncode != 0:
                    cur = None
                    if os.path.exists(out + ".cur"):
                        try:
                            cur = json.load(open(out + ".cur"))
                        except Exception:
                            cur = None
                    crashes.append({"shard": k, "returncode": p.returncode, "stderr": (err or "")[-4000:],
                                    "cur": cur, "variant": variant})
                for name, r in (res or {}).items():
                    a = agg.setdefault(name, {"evaluations": 0, "keys": set(), "events": {}, "unresolved": {}, "decided": {},
                                              "samples": [], "t": 0.0, "skipped_budget": 0, "measures": {},
                                              "planned": 0})
                    a["evaluations"] += r["evaluations"]
                    a["planned"] += r.get("planned", 0)
                    a["keys"].update(r.get("nontrivial_keys", []))
                    for kk, vv in r.get("events", {}).items():
                        a["events"][kk] = a["events"].get(kk, 0) + vv
                    for kk, vv in r.get("unresolved", {}).items():
                        a["unresolved"][kk] = a["unresolved"].get(kk, 0) + vv
                    for kk, vv in r.get("decided", {}).items():
                        a["decided"][kk] = a["decided"].get(kk, 0) + vv
                    for kk, vv in r.get("measures", {}).items():
                        a["measures"][kk] = max(a["measures"].get(kk, 0.0), vv)
                    if len(a["samples"]) < 6:
                        a["samples"].extend(r.get("samples", [])[: 6 - len(a["samples"])])
                    a["t"] = max(a["t"], r.get("t", 0.0))
                    a["skipped_budget"] += r.get("skipped_budget", 0)
                    if r.get("harness_error"):
                        harness_errors.append("%s shard %d: %s" % (name, k, r["harness_error"]))
                    for v in r.get("violations", []):
                        hs = (seed * 1000003 + k * 7919 + int(hashlib.sha1(name.encode()).hexdigest()[:6], 16)) % (2**31)
                        violations.append({"sig": v["sig"], "case": v["case"], "detail": v["detail"],
                                           "subcheck": name, "source": "search shard %d" % k, "hseed": hs,
                                           "budget": r.get("planned", 400)})

    # ---- 3. crashes of workers: sanitizer reports / signals are violations of the case in flight
    for c in crashes:
        cur = c["cur"]
        err = c["stderr"]
        is_san = ("AddressSanitizer" in err) or ("runtime error:" in err) or c["returncode"] < 0
        if cur is not None and is_san:
            kind = "asan" if "AddressSanitizer" in err else ("ubsan" if "runtime error:" in err else (
                "hang" if "HUNG:" in err else "signal%d" % (-c["returncode"])))
            where = ""
            for line in err.splitlines():
                if "/src/" in line and (" in " in line):
                    # "#1 0x... in func /verif/.build/b_asan_<hash>/src/mod_cider/file.c:146" -> "func mod_cider/file.c"
                    where = line.strip().split(" in ")[-1]
                    fn = where.split(" ")[0]
                    path = where.split("/src/")[-1].split(":")[0] if "/src/" in where else ""
                    where = (fn + " " + path).strip()[:120]
                    break
            violations.append({"sig": [cur["subcheck"], "crash", kind, where], "case": cur["case"],
                               "detail": {"stderr": err[-2500:]}, "subcheck": cur["subcheck"],
                               "source": "worker crash shard %d" % c["shard"], "hseed": 0, "budget": 0,
                               "noshrink": True})
        else:
            harness_errors.append("worker shard %d exited %s: %s" % (c["shard"], c["returncode"], err[-2500:]))

    # ---- 4. bucket by signature, shrink a representative, write replays -----------------
    buckets = {}
    for v in violations:
        key = tuple(v["sig"][:4])
        if key not in buckets or len(json.dumps(v["case"])) < len(json.dumps(buckets[key]["case"])):
            n = buckets.get(key, {}).get("count", 0)
            buckets[key] = dict(v)
            buckets[key]["count"] = n
        buckets[key]["count"] = buckets[key].get("count", 0) + 1
    new_lines, known_lines = [], []
    fdir = os.path.join(VERIF, "replays", prop, "found")
    n_shrunk = 0
    for key, v in sorted(buckets.items()):
        k = _match_known(prop, v["sig"], known)
        if k is not None:
            known_reproduced[k["id"]] = k
            continue
        if v.get("replay_path"):
            new_lines.append((v, v["replay_path"]))
            continue
        sc = [s for s in scs if s.name == v["subcheck"]]
        if sc and sc[0].shrink and not v.get("noshrink") and n_shrunk < 4 and not os.environ.get("VERIF_NO_SHRINK"):
            n_shrunk += 1
            v = _shrink(prop, sc[0], v, rundir, libdirs, tier) or v
        os.makedirs(fdir, exist_ok=True)
        path = os.path.join(fdir, "%s_%s.json" % (v["subcheck"], _sig_hash(v["sig"])))
        with open(path, "w") as f:
            json.dump({"property": prop, "subcheck": v["subcheck"], "signature": v["sig"], "case": v["case"],
                       "detail": v["detail"], "found_by": v["source"], "seed": seed, "tier": tier,
                       "occurrences": v.get("count", 1), "repo_head": bootstrap.repo_head()}, f, indent=1)
        new_lines.append((v, path))

    # ---- 5. evidence -----------------------------------------------------------------
    wall = time.time() - t_start
    total_eval = sum(a["evaluations"] for a in agg.values()) + replayed
    distinct = sum(len(a["keys"]) for a in agg.values())
    samples = []
    for name, a in agg.items():
        for s in a["samples"][:2]:
            samples.append({"subcheck": name, "case": s})
    sub = {}
    for s in scs:
        a = agg.get(s.name)
        if a is None:
            continue
        top = sorted(a["events"].items(), key=lambda kv: -kv[1])
        sub[s.name] = {"evaluations": a["evaluations"], "planned": a["planned"],
                       "distinct_nontrivial": len(a["keys"]),
                       "rule": s.rule, "tolerances": s.tolerances, "class_histogram": dict(top[:60]),
                       "unresolved": a["unresolved"], "fd_decided": a["decided"], "skipped_budget": a["skipped_budget"],
                       "worst_error_over_tolerance": {k: round(v, 4) for k, v in sorted(a["measures"].items())},
                       "slowest_shard_s": round(a["t"], 1), "variant": s.variant}
    assumptions = []
    for s in scs:
        for x in s.assumptions:
            if x not in assumptions:
                assumptions.append(x)
    ev = {
        "property_id": prop, "tier": tier, "seed": seed, "level": "exploration",
        "coverage": {
            "evaluations": int(total_eval), "distinct_nontrivial": int(distinct),
            "rule": " || ".join("%s: %s" % (s.name, s.rule) for s in scs),
            "samples": samples[:12] or [{"note": "no non-trivial sample recorded"}],
            "subchecks": sub, "replayed_regression_cases": replayed,
            "known_findings_reproduced": sorted(known_reproduced),
            "inconclusive_budget": int(sum(a["skipped_budget"] for a in agg.values())),
            "build": os.path.basename(libdirs["plain"]), "repo_head": bootstrap.repo_head(),
            "shards": nshard,
        },
        "assumptions": assumptions,
        "wall_s": round(wall, 2),
        "violations": len(new_lines),
    }
    if not only:
        # VERIF_EVIDENCE_DIR redirects the evidence of runs against scratch trees (seeded-change evaluation)
        evdir = os.environ.get("VERIF_EVIDENCE_DIR") or os.path.join(VERIF, "evidence")
        os.makedirs(evdir, exist_ok=True)
        with open(os.path.join(evdir, prop + ".json"), "w") as f:
            json.dump(ev, f, indent=1, sort_keys=True)
    else:
        log(json.dumps(ev["coverage"]["subchecks"], indent=1))

    # ---- 6. verdict ------------------------------------------------------------------
    for kid, k in sorted(known_reproduced.items()):
        print("KNOWN-FINDING: property=%s %s [%s]" % (prop, k.get("what", ""), kid))
    for k in known:
        if k.get("property") == prop and k.get("status") == "open" and k["id"] not in known_reproduced and not only:
            log("note: open known finding %s did not reproduce in this run" % k["id"])
    for v, path in new_lines:
        log("violation %s (x%d) %s" % ("/".join(v["sig"]), v.get("count", 1), _short(v["detail"], 600)))
        print("VIOLATION property=%s replay=%s" % (prop, os.path.relpath(path, VERIF)))
    log("%s %s seed=%d: %d evaluations, %d distinct non-trivial, %d violation signature(s), %.1fs"
        % (prop, tier, seed, total_eval, distinct, len(new_lines), wall))
    for name, a in agg.items():
        log("   %-28s eval=%-7d nontrivial=%-6d slowest_shard=%.1fs fd_decided=%d unresolved=%s skipped=%d"
            % (name, a["evaluations"], len(a["keys"]), a["t"], sum(a["decided"].values()),
               sum(a["unresolved"].values()), a["skipped_budget"]))
    import shutil

    shutil.rmtree(rundir, ignore_errors=True)
    for h in harness_errors[:8]:
        print("HARNESS-ERROR " + h, file=sys.stderr)
    if new_lines:
        return 1
    if harness_errors:
        return 2
    return 0


def _wait_workers(procs, tier):
    """Wait for all workers; a worker that makes no progress on the case in flight (journal file not
    rewritten) for VERIF_HANG_S seconds (default 900 quick / 5400 thorough) is killed and reported: a heap-corrupting
    change can deadlock inside malloc instead of crashing."""
    hang_s = float(os.environ.get("VERIF_HANG_S", "900" if tier == "quick" else "5400"))
    t_start = time.time()
    hung = {}
    alive = {k: (p, out) for p, out, k in procs}
    while alive:
        for k in list(alive):
            p, out = alive[k]
            if p.poll() is not None:
                del alive[k]
                continue
            try:
                last = os.path.getmtime(out + ".cur")
            except OSError:
                last = t_start
            idle = time.time() - max(last, t_start)
            if idle > hang_s:
                p.kill()
                p.wait()
                hung[k] = int(idle)
                del alive[k]
        if alive:
            time.sleep(0.5)
    return hung


def _drain_replays(procs, prop, known, violations, harness_errors, known_reproduced):
    for p, path, out, rec in procs:
        _, err = p.communicate()
        v = None
        if p.returncode != 0:
            if ("AddressSanitizer" in (err or "")) or ("runtime error:" in (err or "")) or p.returncode < 0:
                v = {"sig": rec.get("signature", [rec.get("subcheck"), "crash"]), "detail": {"stderr": (err or "")[-2000:]}}
            else:
                harness_errors.append("replay %s: %s" % (path, (err or "")[-2000:]))
                continue
        else:
            v = json.load(open(out)).get("violation")
        if v is None:
            continue
        k = _match_known(prop, v["sig"], known)
        if k is not None:
            known_reproduced[k["id"]] = k
            continue
        violations.append({"sig": v["sig"], "case": rec["case"], "detail": v["detail"],
                           "subcheck": rec["subcheck"], "source": "replay corpus", "replay_path": path,
                           "hseed": 0, "budget": 0})


def _shrink(prop, sc, v, rundir, libdirs, tier):
    casefile = os.path.join(rundir, "shrink_in_%s.json" % _sig_hash(v["sig"]))
    out = os.path.join(rundir, "shrink_out_%s.json" % _sig_hash(v["sig"]))
    with open(casefile, "w") as f:
        json.dump({"sig": v["sig"], "hseed": v["hseed"], "budget": v.get("budget", 400)}, f)
    limit = 45 if tier == "quick" else 240
    p = subprocess.Popen([_python(), "-m", "cpverif.runner", "--shrink", prop, sc.name, casefile, out],
                         env=_env_for(sc.variant, libdirs[sc.variant]), cwd=VERIF,
                         stdout=subprocess.DEVNULL, stderr=subprocess.DEVNULL)
    try:
        p.wait(timeout=limit)
    except subprocess.TimeoutExpired:
        p.send_signal(signal.SIGKILL)
        p.wait()
    if os.path.exists(out):
        try:
            s = json.load(open(out))
            if len(json.dumps(s["case"])) <= len(json.dumps(v["case"])):
                nv = dict(v)
                nv.update(sig=s["sig"], case=s["case"], detail=s["detail"])
                nv["source"] = v["source"] + " (shrunk)"
                return nv
        except Exception:
            return None
    return None


def replay_cli(path):
    rec = json.load(open(path))
    prop = rec["property"]
    sys.path.append(os.path.join(VERIF, "native"))
    import build as _b

    scs = None
    try:
        libdir = _b.build("plain", bootstrap.REPO)
        os.environ["CIDER_VERIF_LIBDIR"] = libdir
        scs = _load_props(prop)
    except _b.BuildError as e:
        print("HARNESS-ERROR " + str(e)[-2000:], file=sys.stderr)
        return 2
    sc = [s for s in scs if s.name == rec["subcheck"]][0]
    libdirs = {"plain": libdir}
    if sc.variant == "asan":
        libdirs["asan"] = _b.build("asan", bootstrap.REPO)
    out = os.path.join(VERIF, ".build", "replay_%d.json" % os.getpid())
    p = subprocess.run([_python(), "-m", "cpverif.runner", "--replay-worker", prop, os.path.abspath(path), out],
                       env=_env_for(sc.variant, libdirs[sc.variant]), cwd=VERIF, capture_output=True, text=True)
    v = None
    if p.returncode != 0:
        if ("AddressSanitizer" in p.stderr) or ("runtime error:" in p.stderr) or p.returncode < 0:
            v = {"sig": rec.get("signature"), "detail": {"stderr": p.stderr[-2000:]}}
        else:
            print("HARNESS-ERROR " + p.stderr[-3000:], file=sys.stderr)
            return 2
    else:
        v = json.load(open(out)).get("violation")
        os.remove(out)
    if v is None:
        print("replay passed: %s" % path, file=sys.stderr)
        return 0
    k = _match_known(prop, v["sig"], _known_findings())
    if k is not None:
        print("KNOWN-FINDING: property=%s %s [%s]" % (prop, k.get("what", ""), k["id"]))
        return 0
    print("violation %s %s" % ("/".join(v["sig"]), _short(v["detail"], 1500)), file=sys.stderr)
    print("VIOLATION property=%s replay=%s" % (prop, path))
    return 1


if __name__ == "__main__":
    # run through the importable module so that props.* and this process share one REGISTRY
    from cpverif import runner as _r

    a = sys.argv[1:]
    if a and a[0] == "--worker":
        sys.exit(_r.worker_main(a[1:]))
    if a and a[0] == "--replay-worker":
        sys.exit(_r.replay_main(a[1:]))
    if a and a[0] == "--shrink":
        sys.exit(_r.shrink_main(a[1:]))
    sys.exit(2)
