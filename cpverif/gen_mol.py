"""Generators for the molecular (PySCF end-to-end) checks: G-mol, G-dm, G-model of DESIGN.md 4.1.

Everything is a plain JSON-able *spec* dict drawn by Hypothesis (`st_*`) plus a `build_*`
function turning a spec into objects, so a saved case replays without Hypothesis.

    st_mol(...)            -> mol spec      build_mol(spec)        -> pyscf Mole
    st_dm(...)             -> dm spec       build_dm(mol, spec)    -> dict(dm, C, occ, D...)  (PSD by construction)
    st_model(...)          -> model spec    build_model(spec)      -> MappedXC / MappedXC2 (synthetic, trained-model shaped)
    st_calc(...)           -> calc spec     build_calc(mol, model, calc_spec, uks) -> decorated KS object (built)
"""
import numpy as np
from hypothesis import strategies as st

from .oracles import rng_from

# ---------------------------------------------------------------------------------------------
# molecules

ELEMENTS = ["H", "He", "Li", "Be", "B", "C", "N", "O", "F", "Ne"]
ZNUM = {e: i + 1 for i, e in enumerate(ELEMENTS)}
ZNUM.update({"Na": 11, "Mg": 12, "Al": 13, "Si": 14, "P": 15, "S": 16, "Cl": 17, "Ar": 18})
RCOV = {"H": 0.6, "He": 0.7, "Li": 2.4, "Be": 1.8, "B": 1.6, "C": 1.45, "N": 1.35, "O": 1.3, "F": 1.25, "Ne": 1.3,
        "Na": 2.9, "Mg": 2.6, "Al": 2.3, "Si": 2.1, "P": 2.0, "S": 1.95, "Cl": 1.9, "Ar": 1.9}  # bohr, rough


def _rot(angles):
    a, b, c = angles
    ca, sa, cb, sb, cc, sc = np.cos(a), np.sin(a), np.cos(b), np.sin(b), np.cos(c), np.sin(c)
    rz = np.array([[ca, -sa, 0], [sa, ca, 0], [0, 0, 1]])
    ry = np.array([[cb, 0, sb], [0, 1, 0], [-sb, 0, cb]])
    rx = np.array([[1, 0, 0], [0, cc, -sc], [0, sc, cc]])
    return rz @ ry @ rx


@st.composite
def st_mol(draw, min_atoms=2, max_atoms=3, elements=None, bases=("sto-3g", "6-31g"), max_elec=20,
           levels=(0, 1), heavy=False, min_elec=3):
    """Small molecule by construction: chain geometry with jittered bond lengths / angle, then a
    generic rotation + translation so no axis is special.  spin = electron-count parity (plus 2
    sometimes)."""
    elements = list(elements or ELEMENTS)
    n = draw(st.integers(min_atoms, max_atoms))
    for _ in range(20):
        els = [draw(st.sampled_from(elements)) for _ in range(n)]
        ne = sum(ZNUM[e] for e in els)
        if min_elec <= ne <= max_elec:
            break
    else:
        els = ["H", "F"][:n] if n <= 2 else ["H", "O", "H"]
        ne = sum(ZNUM[e] for e in els)
    pos = [np.zeros(3)]
    d1 = draw(st.floats(0.95, 1.35))
    if n >= 2:
        pos.append(np.array([0.0, 0.0, (RCOV[els[0]] + RCOV[els[1]]) * d1]))
    if n >= 3:
        d2 = draw(st.floats(0.95, 1.35))
        ang = draw(st.floats(1.6, 2.9))
        r = (RCOV[els[1]] + RCOV[els[2]]) * d2
        pos.append(pos[1] + r * np.array([np.sin(ang), 0.0, -np.cos(ang)]))
    if n >= 4:
        d3 = draw(st.floats(0.95, 1.35))
        r = (RCOV[els[2]] + RCOV[els[3]]) * d3
        pos.append(pos[2] + r * np.array([0.3, 0.9, 0.3]) / np.linalg.norm([0.3, 0.9, 0.3]))
    R = _rot([draw(st.floats(0.2, 2.9)) for _ in range(3)])
    t = np.array([draw(st.floats(-1.0, 1.0)) for _ in range(3)])
    pos = [(R @ p + t) for p in pos]
    spin = ne % 2
    basis = draw(st.sampled_from(list(bases)))
    # high spin only where the smallest basis has room for the alpha electrons (minimal basis: 1 AO for H/He,
    # 5 for Li..Ne, 9 for Na..Ar)
    nao_min = sum(1 if ZNUM[e] <= 2 else (5 if ZNUM[e] <= 10 else 9) for e in els)
    if draw(st.integers(0, 5)) == 0 and ne >= 4 and (ne + spin + 2) // 2 <= nao_min:
        spin += 2
    return {"atoms": [[e, [float(x) for x in p]] for e, p in zip(els, pos)], "basis": basis,
            "spin": int(spin), "charge": 0, "grid_level": int(draw(st.sampled_from(list(levels))))}


# chemically reasonable small molecules (SCF converges routinely): (elements, bond lengths in bohr, angle, spin)
CHEM_TEMPLATES = [
    (["H", "H"], [1.4], None, 0), (["H", "F"], [1.73], None, 0), (["Li", "H"], [3.0], None, 0),
    (["H", "O", "H"], [1.81, 1.81], 1.82, 0), (["O", "H"], [1.83], None, 1), (["N", "H"], [1.96], None, 2),
    (["C", "O"], [2.13], None, 0), (["N", "N"], [2.07], None, 0), (["H", "C", "H"], [2.1, 2.1], 1.78, 0),
    (["Li", "F"], [2.95], None, 0), (["H", "N", "H"], [1.93, 1.93], 1.8, 1), (["He", "H"], [1.46], None, 0, 1),
    (["B", "H"], [2.33], None, 0), (["Be", "H"], [2.54], None, 1), (["H", "C", "N"], [2.01, 2.18], 3.0, 0),
]


@st.composite
def st_mol_chem(draw, bases=("sto-3g", "6-31g"), levels=(1,), max_atoms=3, max_elec=16, open_shell=False):
    """one of a list of chemically reasonable molecules with jittered geometry (bond lengths +-10%, angle +-0.2 rad),
    generic orientation; for checks that need routinely converging SCF calculations"""
    cands = [t for t in CHEM_TEMPLATES if len(t[0]) <= max_atoms and sum(ZNUM[e] for e in t[0]) <= max_elec
             and (not open_shell or t[3] > 0)]
    t = draw(st.sampled_from(cands))
    els, bonds, ang, spin = t[0], t[1], t[2], t[3]
    charge = t[4] if len(t) > 4 else 0
    pos = [np.zeros(3), np.array([0.0, 0.0, bonds[0] * draw(st.floats(0.9, 1.12))])]
    if len(els) == 3:
        a = ang + draw(st.floats(-0.2, 0.2))
        a = min(a, 3.05)
        r = bonds[1] * draw(st.floats(0.9, 1.12))
        pos.append(pos[1] + r * np.array([np.sin(a), 0.0, -np.cos(a)]))
    R = _rot([draw(st.floats(0.2, 2.9)) for _ in range(3)])
    tv = np.array([draw(st.floats(-1.0, 1.0)) for _ in range(3)])
    pos = [(R @ p + tv) for p in pos]
    return {"atoms": [[e, [float(x) for x in p]] for e, p in zip(els, pos)], "basis": draw(st.sampled_from(list(bases))),
            "spin": int(spin), "charge": int(charge), "grid_level": int(draw(st.sampled_from(list(levels))))}


def build_mol(spec, atoms=None, basis=None):
    from pyscf import gto

    mol = gto.M(atom=[(a, tuple(p)) for a, p in (atoms or spec["atoms"])], unit="Bohr",
                basis=basis or spec["basis"], spin=spec["spin"], charge=spec.get("charge", 0), verbose=0)
    return mol


def mol_class(spec):
    els = [a for a, _ in spec["atoms"]]
    return "natm=%d/%s/%s" % (len(els), spec["basis"], "open" if spec["spin"] else "closed")


# ---------------------------------------------------------------------------------------------
# density matrices

@st.composite
def st_dm(draw, uks=None):
    return {"seed": draw(st.integers(0, 2**31 - 1)),
            "uks": bool(draw(st.booleans()) if uks is None else uks),
            "mix": draw(st.floats(0.05, 0.5)), "extra": draw(st.integers(1, 3))}


def _orth_orbitals(mol):
    import scipy.linalg

    s = mol.intor("int1e_ovlp")
    h = mol.intor("int1e_kin") + mol.intor("int1e_nuc")
    e, c = scipy.linalg.eigh(h, s)
    return s, c


def _expm_antisym(a):
    import scipy.linalg

    return scipy.linalg.expm(a - a.T)


def build_dm(mol, spec, nset=1):
    """Physical (positive semi-definite) one-particle density matrices that are *not* SCF
    solutions: core-Hamiltonian orbitals, rotated among the lowest nocc+extra orbitals by a drawn
    orthogonal matrix, with fractional occupations (every active orbital occupied >= 0.06 so that
    dm + h*D stays PSD for the finite-difference steps).  Returns a list of dicts."""
    s, c0 = _orth_orbitals(mol)
    nao = c0.shape[0]
    na, nb = mol.nelec
    out = []
    for iset in range(nset):
        rng = rng_from(spec["seed"] + 7919 * iset)
        chans = []
        for nocc in ((na, nb) if spec["uks"] else (max(na, nb),)):
            nocc = min(nocc, nao)
            nact = min(nao, max(nocc, 1) + spec["extra"])
            k = rng.normal(size=(nact, nact)) * spec["mix"]
            u = _expm_antisym(np.triu(k, 1))
            c = c0.copy()
            c[:, :nact] = c0[:, :nact] @ u
            occ = np.zeros(nact)
            occ[:nocc] = rng.uniform(0.55, 1.0, nocc)
            occ[nocc:] = rng.uniform(0.06, 0.3, nact - nocc)
            if not spec["uks"]:
                occ = occ * 2
                if na != nb:  # restricted evaluation of an open-shell molecule: total density
                    occ[nb:na] *= 0.5
            dm = (c[:, :nact] * occ) @ c[:, :nact].T
            # symmetric perturbation direction inside the active space
            a = rng.normal(size=(nact, nact))
            a = 0.5 * (a + a.T)
            a *= 1.0 / np.linalg.norm(a, 2)
            d = c[:, :nact] @ a @ c[:, :nact].T
            chans.append({"dm": dm, "D": d, "occ": occ, "nact": nact})
        out.append(chans)
    return out


# ---------------------------------------------------------------------------------------------
# settings / models

J_SPECS = ["se", "se_ar2", "se_a2r4", "se_erf_rinv"]
I_L0_SPECS = ["se", "se_r2", "se_apr2", "se_ap", "se_ap2r2", "se_lapl"]
I_L1_SPECS = ["se_grad", "se_rvec"]
SIGNED_I = {"se_lapl"}


@st.composite
def st_params(draw, level, spec="se", theta_a0=None):
    a0 = draw(st.floats(0.7, 4.0))
    grad_mul = draw(st.sampled_from([0.0, 0.0, 0.01, 0.03125, 0.06]))
    p = [a0, grad_mul]
    if level == "MGGA":
        # B > 0 needs a0 > tau_fac = tau_mul*1.2*(6 pi^2)^(2/3)/pi ~ 5.8*tau_mul
        p.append(draw(st.sampled_from([0.0, 0.01, 0.03125, 0.05])))
    if spec == "se_erf_rinv":
        p.append(draw(st.floats(0.5, 3.0)))
    return p


@st.composite
def st_nldf(draw, versions=("i", "j", "ij", "k"), levels=("MGGA", "GGA"), rho_mults=("one", "expnt"),
            max_feat=3, signed_ok=True):
    v = draw(st.sampled_from(list(versions)))
    level = draw(st.sampled_from(list(levels)))
    rho_mult = draw(st.sampled_from(list(rho_mults)))
    spec = {"version": v, "level": level, "rho_mult": rho_mult, "theta": draw(st_params(level))}
    if "j" in v:
        n = draw(st.integers(1, max_feat))
        js = [draw(st.sampled_from(J_SPECS)) for _ in range(n)]
        spec["jspecs"] = js
        spec["jparams"] = [draw(st_params(level, s)) for s in js]
    if "i" in v:
        n0 = draw(st.integers(0 if v == "i" else 0, max_feat))
        l0 = [draw(st.sampled_from(I_L0_SPECS if signed_ok else [s for s in I_L0_SPECS if s not in SIGNED_I]))
              for _ in range(n0)]
        n1 = draw(st.integers(0, 2))
        l1 = [draw(st.sampled_from(I_L1_SPECS)) for _ in range(n1)]
        dots = []
        if n1 > 0:
            nd = draw(st.integers(1, 2))
            for _ in range(nd):
                j = draw(st.integers(-1, n1 - 1))
                k = draw(st.integers(-1, n1 - 1))
                if j == -1 and k == -1:
                    k = 0
                dots.append([j, k])
        if n0 == 0 and not dots:
            l0 = ["se"]
        spec.update(l0=l0, l1=l1, dots=dots)
    if v == "k":
        n = draw(st.integers(1, max_feat))
        spec["kparams"] = [draw(st_params(level)) for _ in range(n)]
    return spec


def build_nldf(spec):
    from ciderpress.dft import settings as S

    v = spec["version"]
    lvl, th, rm = spec["level"], list(spec["theta"]), spec["rho_mult"]
    if v == "j":
        return S.NLDFSettingsVJ(lvl, th, rm, list(spec["jspecs"]), [list(p) for p in spec["jparams"]])
    if v == "i":
        return S.NLDFSettingsVI(lvl, th, rm, list(spec["l0"]), list(spec["l1"]), [tuple(d) for d in spec["dots"]])
    if v == "ij":
        return S.NLDFSettingsVIJ(lvl, th, rm, list(spec["l0"]), list(spec["l1"]), [tuple(d) for d in spec["dots"]],
                                 list(spec["jspecs"]), [list(p) for p in spec["jparams"]])
    if v == "k":
        return S.NLDFSettingsVK(lvl, th, rm, [list(p) for p in spec["kparams"]], "exponential")
    raise ValueError(v)


def nldf_signed_flags(spec):
    """Per NLDF feature: can it be negative? (decides which feature map is admissible)"""
    flags = []
    v = spec["version"]
    if "j" in v:
        flags += [False] * len(spec["jspecs"])
    if "i" in v:
        flags += [s in SIGNED_I for s in spec["l0"]]
        flags += [True] * len(spec["dots"])
    if v == "k":
        flags += [False] * len(spec["kparams"])
    return flags


@st.composite
def st_sdmx(draw, classes=("SDMX", "G", "1", "G1", "Full")):
    cls = draw(st.sampled_from(list(classes)))
    n = draw(st.integers(1, 3))
    pows = draw(st.permutations([0, 1, 2]))[:n]
    spec = {"cls": cls, "pows": [int(p) for p in pows]}
    if cls in ("G", "G1"):
        spec["nd"] = draw(st.integers(1, n))
    if cls in ("1", "G1"):
        spec["n1"] = draw(st.integers(1, n))
    if cls == "Full":
        ratios = [1.0] + ([draw(st.sampled_from([1.5, 2.0]))] if draw(st.booleans()) else [])
        sd = {}
        for r in ratios:
            np_ = draw(st.integers(1, 3))
            pw = [int(x) for x in draw(st.permutations([0, 1, 2]))[:np_]]
            cnt = [draw(st.integers(0, np_)) for _ in range(4)]
            if r == 1.0 and cnt[0] + cnt[1] == 0:
                cnt[0] = 1
            sd[str(r)] = [pw, cnt]
        spec["full"] = sd
    return spec


def build_sdmx(spec):
    from ciderpress.dft import settings as S

    c = spec["cls"]
    if c == "SDMX":
        return S.SDMXSettings(list(spec["pows"]))
    if c == "G":
        return S.SDMXGSettings(list(spec["pows"]), spec["nd"])
    if c == "1":
        return S.SDMX1Settings(list(spec["pows"]), spec["n1"])
    if c == "G1":
        return S.SDMXG1Settings(list(spec["pows"]), spec["nd"], spec["n1"])
    if c == "Full":
        return S.SDMXFullSettings({float(k): (list(v[0]), list(v[1])) for k, v in spec["full"].items()})
    raise ValueError(c)


# "ONE" (energy density not proportional to a density power) is excluded on purpose: with it the ML energy
# density does not vanish in the vacuum, where rhocut and the 1e-16 regulariser are not differentiable.
NLOF_S = [-1.0, -0.5, -0.25, 0.25, 0.5, 0.75, 1.0]


@st.composite
def st_nlof(draw):
    """FracLaplSettings by construction: 1-3 distinct powers s (the range the repository's own tests use, -1 .. 1),
    nk0 scalar features, nk1 / nd1 vector features with up to 3 dot products each (index -1 = density gradient),
    ndd <= nd1 'dd' features; at least one feature."""
    npow = draw(st.integers(1, 3))
    slist = draw(st.lists(st.sampled_from(NLOF_S), min_size=npow, max_size=npow, unique=True))
    nk0 = draw(st.integers(0, npow))
    nk1 = draw(st.integers(0, npow))
    nd1 = draw(st.integers(0, npow))
    ndd = draw(st.integers(0, nd1))
    i1 = st.integers(-1, nk1 - 1)
    id_ = st.integers(-1, nd1 - 1)
    l1_dots = draw(st.lists(st.tuples(i1, i1).map(list), min_size=0, max_size=3, unique_by=tuple))
    ld_dots = draw(st.lists(st.tuples(id_, id_).map(list), min_size=0, max_size=3, unique_by=tuple))
    if nk0 + len(l1_dots) + len(ld_dots) + ndd == 0:
        nk0 = 1
    return {"slist": [float(x) for x in slist], "nk0": nk0, "nk1": nk1, "l1_dots": l1_dots, "nd1": nd1,
            "ld_dots": ld_dots, "ndd": ndd}


def build_nlof(spec):
    from ciderpress.dft.settings import FracLaplSettings

    return FracLaplSettings(list(spec["slist"]), spec["nk0"], spec["nk1"], [tuple(d) for d in spec["l1_dots"]],
                            nd1=spec["nd1"], ld_dots=[tuple(d) for d in spec["ld_dots"]], ndd=spec["ndd"])


MUL_NATIVE = ["LDA_X", "GGA_X_PBE", "GGA_X_CHACHIYO"]
ADD_NATIVE = ["ZERO", "LDA_X", "GGA_C_PBE", None]
MUL_LIBXC = ["LDA_X", "GGA_X_PBE", "MGGA_X_R2SCAN", "GGA_X_PBE_SOL"]
ADD_LIBXC = [None, "GGA_C_PBE", "LDA_C_PW_MOD", "SS_GGA_C_PBE", "OS_GGA_C_PBE", "MGGA_C_R2SCAN"]


@st.composite
def st_kernel_part(draw, xc2=False, modes=("SEP", "NPOL", "POL"), evals=None):
    mode = draw(st.sampled_from(list(modes)))
    if mode == "POL":
        ev = ["spinrbf"]
    else:
        pool = evals or ["rbf", "kernel", "spline", "linear"]
        ev = [draw(st.sampled_from(pool)) for _ in range(draw(st.integers(1, 2)))]
    return {"mode": mode, "evals": ev,
            "mul": draw(st.sampled_from(MUL_LIBXC if xc2 else MUL_NATIVE)),
            "add": draw(st.sampled_from(ADD_LIBXC if xc2 else ADD_NATIVE)),
            "nctrl": draw(st.integers(2, 6)), "seed": draw(st.integers(0, 2**31 - 1)),
            "amp": draw(st.floats(0.2, 1.0))}


@st.composite
def st_model(draw, sl_modes=("npa", "nst", "np", "ns"), families=("sl", "nldf", "sdmx", "nldf+sdmx"),
             nldf_kw=None, sdmx_kw=None, allow_xc2=True, modes=("SEP", "NPOL", "POL"), max_kernels=2, evals=None):
    sl = draw(st.sampled_from(list(sl_modes)))
    fam = draw(st.sampled_from(list(families)))
    level = "MGGA" if sl in ("npa", "nst") else "GGA"
    spec = {"sl": sl, "nldf": None, "sdmx": None, "nlof": None}
    if "nlof" in fam:
        spec["nlof"] = draw(st_nlof())
    if "nldf" in fam:
        kw = dict(nldf_kw or {})
        if level == "GGA":
            kw["levels"] = ("GGA",)
        spec["nldf"] = draw(st_nldf(**kw))
    if "sdmx" in fam:
        spec["sdmx"] = draw(st_sdmx(**(sdmx_kw or {})))
    xc2 = bool(allow_xc2 and level == "MGGA" and draw(st.integers(0, 3)) == 0)
    spec["xc2"] = xc2
    nk = draw(st.integers(1, max_kernels))
    spec["kernels"] = [draw(st_kernel_part(xc2=xc2, modes=modes, evals=evals)) for _ in range(nk)]
    if not xc2 and sl in ("nst", "ns"):
        # the native GGA baselines read feature 1 as the reduced gradient s^2; in the 'nst'/'ns' modes that row
        # holds sigma, so only the density-only native baselines are meaningful there
        for k in spec["kernels"]:
            if k["mul"] != "LDA_X":
                k["mul"] = "LDA_X"
            if k["add"] not in (None, "ZERO", "LDA_X"):
                k["add"] = "LDA_X"
    spec["normalize"] = True
    return spec


def build_settings(spec):
    from ciderpress.dft import settings as S

    fs = S.FeatureSettings(sl_settings=S.SemilocalSettings(spec["sl"]),
                           nldf_settings=build_nldf(spec["nldf"]) if spec.get("nldf") else None,
                           sdmx_settings=build_sdmx(spec["sdmx"]) if spec.get("sdmx") else None,
                           nlof_settings=build_nlof(spec["nlof"]) if spec.get("nlof") else None)
    if spec.get("normalize", True):
        try:
            fs.assign_reasonable_normalizer()
        except NotImplementedError:
            # documented: no recommended normaliser for this combination of scaling powers
            # (e.g. grad_rho . se_rvec); such settings are used un-normalised
            pass
    return fs


def _feature_maps(spec, fs, rng, bounded=False):
    """One transform per (normalised) feature beyond the density, admissible for its sign class.
    bounded=True (used when a spline evaluator reads the features): only maps whose output stays inside
    the declared bounds for *any* real input, because fitted nonlocal features can be slightly negative
    in density tails and a cubic-spline table is only defined on its grid."""
    from ciderpress.dft import transform_data as T

    maps = []
    sl = spec["sl"]
    g = lambda: float(np.exp(rng.uniform(np.log(0.1), np.log(2.0))))  # noqa
    if sl == "npa":
        maps += [T.UMap(1, g()), T.UMap(2, g())]
    elif sl == "nst":
        # SLBMap leaves (-1, 1) when tau < tau_W, which spin-averaged (NPOL) raw features allow
        maps += [T.SLXMap(0, 1, g()), T.SLTMap(0, 2) if (rng.integers(2) or bounded) else T.SLBMap(0, 1, 2)]
    elif sl == "np":
        maps += [T.UMap(1, g())]
    else:
        maps += [T.SLXMap(0, 1, g())]
    i = fs.sl_settings.nfeat
    signed = []
    if spec.get("nldf"):
        signed += nldf_signed_flags(spec["nldf"])
    if spec.get("nlof"):
        signed += [True] * fs.nlof_settings.nfeat          # feature order: semilocal, nldf, nlof, sdmx
    if spec.get("sdmx"):
        signed += [True] * fs.sdmx_settings.nfeat
    assert i + len(signed) == fs.nfeat, (i, len(signed), fs.nfeat)
    for sg in signed:
        # Fitted nonlocal features carry small absolute errors of either sign; in density tails the
        # recommended normalisers (rho^-p) amplify them without bound.  Maps with a pole (U, V: 1+gamma*x = 0;
        # SLN: (1+c x)^(-1/3)) are therefore outside the sound domain for nonlocal inputs: always use the
        # maps that are smooth on the whole real line.
        if True:
            maps.append(T.SignedUMap(i, g()) if rng.integers(2) else T.ZMap(i, g(), scale=1.0, center=0.0))
        else:
            r = rng.integers(3)
            maps.append(T.UMap(i, g()) if r == 0 else (T.VMap(i, g(), scale=2.0, center=1.0) if r == 1 else T.SLNMap(i, g())))
        i += 1
    if rng.integers(3) == 0 and not spec.get("scale_invariant_maps"):
        maps.append(T.SLNMap(0, g()))   # a transform of the density itself (not scale invariant)
    return T.FeatureList(maps)


def _evaluator(kind, n1, part, rng, bounds):
    from ciderpress.dft import xc_evaluator as X
    from ciderpress.models import kernels as K

    nctrl = part["nctrl"]
    lo = np.array([max(b[0], -2.0) for b in bounds])
    hi = np.array([min(b[1], 2.0) for b in bounds])
    amp = part["amp"]
    if kind in ("rbf", "kernel", "subsetrbf", "prefixrbf", "listrbf"):
        xc = rng.uniform(lo, hi, (nctrl, n1))
        alpha = rng.normal(size=nctrl) * amp
        ls = rng.uniform(0.4, 1.5, n1)
        if kind == "subsetrbf":
            step = 2 if n1 >= 3 else 1
            sl_ = slice(0, n1, step)
            idx = list(range(n1))[sl_]
            kern = K.DiffConstantKernel(0.8) * K.SubsetRBF(sl_, length_scale=ls[idx])
            return X.RBFEvaluator(kern, np.ascontiguousarray(xc[:, idx]), alpha)
        if kind in ("prefixrbf", "listrbf"):
            # SubsetRBF on a leading prefix 0..k-1 (k < n1 where possible) / on an arbitrary sorted index list
            if kind == "prefixrbf":
                k_ = int(rng.integers(1, max(n1, 2)))
                idx = list(range(min(k_, n1)))
                sel = slice(0, len(idx)) if rng.integers(2) else slice(None, len(idx))
            else:
                idx = sorted(rng.choice(n1, int(rng.integers(1, n1 + 1)), replace=False).tolist())
                sel = idx
            kern = K.DiffConstantKernel(float(rng.uniform(0.5, 1.5))) * K.SubsetRBF(sel, length_scale=ls[idx])
            return X.RBFEvaluator(kern, np.ascontiguousarray(xc[:, idx]), alpha)
        kern = K.DiffConstantKernel(float(rng.uniform(0.5, 1.5))) * K.DiffRBF(length_scale=ls)
        if kind == "rbf":
            return X.RBFEvaluator(kern, xc, alpha)
        return X.KernelEvaluator(kern, xc, alpha)
    if kind == "spinrbf":
        xc = rng.uniform(lo, hi, (2, nctrl, n1))
        alpha = rng.normal(size=nctrl) * amp
        kern = K.DiffConstantKernel(float(rng.uniform(0.7, 1.2))) * K.DiffRBF(length_scale=rng.uniform(0.6, 1.5, n1))
        return X.SpinRBFEvaluator(kern, xc, alpha)
    if kind == "linear":
        return X.GlobalLinearEvaluator(rng.normal(size=n1) * amp * 0.3)
    if kind == "spline":
        # additive 1-D and 2-D cubic-spline terms with random (filtered) coefficient tables
        from interpolation.splines import filter_cubic

        nterm = int(rng.integers(1, 3))
        scale, ind_sets, grids, coefs = [], [], [], []
        for _ in range(nterm):
            nd = 1 if n1 < 2 else int(rng.integers(1, 3))
            inds = sorted(rng.choice(n1, nd, replace=False).tolist())
            grid = tuple((float(lo[i] - 0.05), float(hi[i] + 0.05), int(rng.integers(5, 9))) for i in inds)
            vals = rng.normal(size=tuple(gr[2] for gr in grid)) * amp
            coefs.append(filter_cubic(grid, vals))
            grids.append(grid)
            ind_sets.append(inds)
            scale.append(float(rng.uniform(0.5, 1.5)))
        return X.SplineSetEvaluator(scale, ind_sets, grids, coefs, const=float(rng.normal() * 0.1))
    raise ValueError(kind)


def build_model(spec):
    """Synthetic 'trained-model-shaped' functional (DESIGN F3)."""
    from ciderpress.dft import baselines as B
    from ciderpress.dft import xc_evaluator as X
    from ciderpress.dft import xc_evaluator2 as X2

    fs = build_settings(spec)
    kernels = []
    for part in spec["kernels"]:
        rng = rng_from(part["seed"])
        fl = _feature_maps(spec, fs, rng, bounded=("spline" in part["evals"]))
        n1 = fl.nfeat
        evs = [_evaluator(k, n1, part, rng, fl.bounds_list) for k in part["evals"]]
        if spec["xc2"]:
            kernels.append(X2.MappedDFTKernel2(evs, fl, part["mode"], part["mul"], part["add"]))
        else:
            mul = B.BASELINE_CODES[part["mul"]]
            add = B.BASELINE_CODES[part["add"]] if part["add"] is not None else None
            kernels.append(X.MappedDFTKernel(evs, fl, part["mode"], mul, add))
    if spec["xc2"]:
        return X2.MappedXC2(kernels, fs)
    return X.MappedXC(kernels, fs)


def model_signature(spec):
    n = spec.get("nldf")
    s = spec.get("sdmx")
    return [spec["sl"], None if not n else [n["version"], n["level"], n["rho_mult"],
                                             sorted(set(n.get("jspecs", []) + n.get("l0", []) + n.get("l1", [])))],
            None if not s else [s["cls"], s["pows"]], spec["xc2"],
            [[k["mode"], k["evals"], k["mul"], k["add"]] for k in spec["kernels"]]] + (
        [[spec["nlof"]["slist"], spec["nlof"]["nk0"], spec["nlof"]["nk1"], spec["nlof"]["l1_dots"], spec["nlof"]["nd1"],
          spec["nlof"]["ld_dots"], spec["nlof"]["ndd"]]] if spec.get("nlof") else [])



@st.composite
def st_calc(draw, has_nldf=True):
    spec = {"xmix": draw(st.sampled_from([1.0, 1.0, 0.25, 0.6])),
            "xc": draw(st.sampled_from([None, None, "PBE"])),
            "xkernel": draw(st.sampled_from([None, "LDA_X", "GGA_X_PBE"])),
            "ckernel": draw(st.sampled_from([None, "GGA_C_PBE"])),
            "plan_type": draw(st.sampled_from(["gaussian", "spline"])),
            "interp": draw(st.sampled_from(["onsite_direct", "onsite_spline"])),
            "aux_lambd": 1.8}
    return spec


def build_calc(mol, model, cspec, uks, level=None):
    from pyscf import dft

    from ciderpress.pyscf.dft import make_cider_calc
    from ciderpress.pyscf.nldf_convolutions import PySCFNLDFInitializer

    ks = dft.UKS(mol) if uks else dft.RKS(mol)
    ks.grids.level = 1 if level is None else level
    nldf_init = None
    if model.settings.has_nldf:
        nldf_init = PySCFNLDFInitializer(model.settings.nldf_settings, plan_type=cspec.get("plan_type", "gaussian"),
                                         interpolator_type=cspec.get("interp", "onsite_direct"),
                                         aux_lambd=cspec.get("aux_lambd", 1.8))
    ks = make_cider_calc(ks, model, xmix=cspec.get("xmix", 1.0), xc=cspec.get("xc"), xkernel=cspec.get("xkernel"),
                         ckernel=cspec.get("ckernel"), nldf_init=nldf_init, rhocut=cspec.get("rhocut"))
    ks.build()
    if ks.grids.coords is None:
        ks.grids.build(with_non0tab=True)
    return ks
