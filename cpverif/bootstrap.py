"""Imported first in every harness process.

* puts VERIF_REPO (default /repo) first on sys.path so that `ciderpress` is the
  tree under test (also for scratch copies carrying a seeded change);
* compiles the C back end from that tree (native/build.py, content-hashed) and
  redirects ciderpress.lib.load.load_library to the build directory -- nothing
  is written under the repository and no repository hook is needed;
* pins BLAS/OpenMP thread counts so run-to-run noise is not a variable
  (C10 lifts this deliberately through set_threads()).
"""
import ctypes
import os
import sys

VERIF = os.path.dirname(os.path.dirname(os.path.abspath(__file__)))
REPO = os.path.abspath(os.environ.get("VERIF_REPO", "/repo"))

_state = {"libdir": None, "gomp": None}


def early_env(threads=1):
    """Must run before numpy / pyscf are imported."""
    os.environ.setdefault("OMP_NUM_THREADS", str(threads))
    os.environ.setdefault("OPENBLAS_NUM_THREADS", "1")
    os.environ.setdefault("MKL_NUM_THREADS", "1")
    os.environ.setdefault("NUMBA_NUM_THREADS", "1")
    os.environ.setdefault("PYSCF_MAX_MEMORY", "4000")
    os.environ.setdefault("PYTHONHASHSEED", "0")
    os.environ.setdefault("NUMBA_CACHE_DIR", os.path.join(VERIF, ".build", "numba_cache"))


def init(variant=None):
    if _state["libdir"] is not None:
        return _state["libdir"]
    early_env()
    if sys.path[0] != REPO:
        sys.path.insert(0, REPO)
    if VERIF not in sys.path:
        sys.path.append(VERIF)
    libdir = os.environ.get("CIDER_VERIF_LIBDIR")
    if not libdir:
        sys.path.append(os.path.join(VERIF, "native"))
        import build as _b

        libdir = _b.build(variant or os.environ.get("CIDER_VERIF_VARIANT", "plain"), REPO)
    import numpy
    import ciderpress.lib.load as _l

    assert os.path.abspath(_l.__file__).startswith(REPO), (_l.__file__, REPO)

    def load_library(libname, _d=libdir):
        return numpy.ctypeslib.load_library(libname, _d)

    _l.load_library = load_library
    import ciderpress.lib as _cl

    _cl.load_library = load_library
    _state["libdir"] = libdir
    import warnings

    warnings.filterwarnings("ignore")
    return libdir


def set_threads(n):
    """Team size of the next OpenMP parallel region of the libraries we built
    (they link the system libgomp; PySCF's wheel carries its own private copy)."""
    if _state["gomp"] is None:
        _state["gomp"] = ctypes.CDLL("libgomp.so.1")
    _state["gomp"].omp_set_num_threads(int(n))


def get_max_threads():
    if _state["gomp"] is None:
        _state["gomp"] = ctypes.CDLL("libgomp.so.1")
    return _state["gomp"].omp_get_max_threads()


def repo_head():
    import subprocess

    try:
        h = subprocess.check_output(["git", "-C", REPO, "rev-parse", "--short", "HEAD"], text=True, stderr=subprocess.DEVNULL).strip()
        d = subprocess.run(["git", "-C", REPO, "diff", "--quiet"]).returncode
        return h + ("+dirty" if d else "")
    except Exception:
        return "unknown"
