"""C07 -- spin-polarised and unpolarised evaluations agree; spin labels are symmetric."""
import numpy as np
from hypothesis import strategies as st

from cpverif import gen_mol as G
from cpverif.oracles import rng_from
from cpverif.runner import subcheck

TOL = {"molecular_rtol": 1e-8, "molecular_rtol_nldf": 1e-5, "array_rtol": 1e-9, "sl_vxc_rtol": 1e-6, "semilocal_regulariser_limited_rtol": 1e-9}


def _tol(case):
    # NLDF: RKS and UKS reach the same numbers through differently scaled intermediate arrays and a Cholesky
    # solve of the ill-conditioned auxiliary overlap (DESIGN F5: composite 1e-5..1e-11); measured up to 2e-7.
    # Without NLDF: measured <= 3e-10 (1e-16 regularisers in s^2 / tau_W evaluated at n vs n/2).
    return 1e-5 if case["model"]["nldf"] else 1e-8


def _setup(case, uks):
    mol = G.build_mol(case["mol"])
    model = G.build_model(case["model"])
    ks = G.build_calc(mol, model, case["calc"], uks, level=case["mol"]["grid_level"])
    return mol, model, ks


def _events(case, ctx):
    fam = "+".join(f for f in ("nldf", "sdmx") if case["model"][f]) or "sl"
    ctx.event("family=" + fam)
    ctx.event("sl=" + case["model"]["sl"])
    ctx.event("xc2" if case["model"]["xc2"] else "xc1")
    for k in case["model"]["kernels"]:
        ctx.event("mode=" + k["mode"])
    if case["model"]["nldf"]:
        ctx.event("nldf=" + case["model"]["nldf"]["version"])
    return fam


@st.composite
def st_mol_case(draw, separable=False, closed=False):
    if separable:
        model = draw(G.st_model(modes=("SEP",), allow_xc2=True))
        for k in model["kernels"]:
            if not model["xc2"] and k["add"] == "GGA_C_PBE":
                k["add"] = "LDA_X"
    else:
        model = draw(G.st_model())
    mol = draw(G.st_mol(max_atoms=3 if model["nldf"] is None else 2, max_elec=18, levels=(0, 1),
                        bases=("sto-3g", "6-31g", "cc-pvdz") if (model["sdmx"] and model["nldf"] is None) else ("sto-3g", "6-31g")))
    calc = draw(G.st_calc())
    if separable:
        calc.update(xc=None, ckernel=None)
    return {"mol": mol, "model": model, "dm": draw(G.st_dm(uks=not closed)), "calc": calc}


def st_closed():
    return st_mol_case(closed=True)


def st_open():
    return st_mol_case()


def st_sep():
    return st_mol_case(separable=True)


@subcheck("C07", "mol_rks_vs_uks", st_closed, quick=36, thorough=400, tolerances=TOL, shrink=False,
          rule="G-mol x restricted PSD dm x G-model x calc options: nr_rks(dm) vs nr_uks((dm/2, dm/2)) on separately built "
               "calculators or (half of the cases, as after mf.to_uks()) on the same integrator object: excsum equal, v_alpha == v_beta == v_rks, nelec halves; non-trivial = model has an ML part and "
               "|E| > 1e-6; distinct by (molecule class, model signature, calc options); all three spin modes counted")
def mol_rks_vs_uks(case, ctx):
    fam = _events(case, ctx)
    mol, model, ks_r = _setup(case, False)
    _, _, ks_u = _setup(case, True)
    dm = G.build_dm(mol, case["dm"])[0][0]["dm"]
    n1, e1, v1 = ks_r._numint.nr_rks(mol, ks_r.grids, ks_r.xc, dm)
    if case["dm"]["seed"] % 2:
        # mf.to_uks() hands the restricted calculation's integrator object (and grids) to the unrestricted one: in half
        # of the cases the unrestricted evaluation runs on the integrator that has just done the restricted one
        ctx.event("shared_integrator")
        ks_u = ks_r
    n2, e2, v2 = ks_u._numint.nr_uks(mol, ks_u.grids, ks_u.xc, np.array([0.5 * dm, 0.5 * dm]))
    tol = _tol(case)
    modes = "/".join(sorted(set(k["mode"] for k in case["model"]["kernels"])))
    ctx.close([e2], [e1], ("rks_vs_uks", "energy", fam, modes), rtol=tol)
    ctx.close(n2, [0.5 * n1, 0.5 * n1], ("rks_vs_uks", "nelec", fam), rtol=1e-12)
    scale = float(np.max(np.abs(v1)))
    ctx.close(v2[0], v1, ("rks_vs_uks", "v_alpha", fam, modes), rtol=tol, scale=scale)
    ctx.close(v2[1], v1, ("rks_vs_uks", "v_beta", fam, modes), rtol=tol, scale=scale)
    if abs(e1) > 1e-6:
        ctx.nontrivial([G.mol_class(case["mol"]), G.model_signature(case["model"]), case["calc"]["xmix"],
                        case["calc"]["xkernel"], case["calc"]["ckernel"], case["calc"]["plan_type"]])


@subcheck("C07", "mol_swap", st_open, quick=28, thorough=300, tolerances=TOL, shrink=False,
          rule="G-mol x unrestricted PSD dm pair (a,b) with a != b: nr_uks((a,b)) vs nr_uks((b,a)) on separately built "
               "calculators: energy equal, potentials and electron counts exchanged; non-trivial = ||a-b|| > 1e-2||a||")
def mol_swap(case, ctx):
    fam = _events(case, ctx)
    mol, model, ks1 = _setup(case, True)
    _, _, ks2 = _setup(case, True)
    ch = G.build_dm(mol, case["dm"])[0]
    a, b = ch[0]["dm"], ch[1]["dm"]
    n1, e1, v1 = ks1._numint.nr_uks(mol, ks1.grids, ks1.xc, np.array([a, b]))
    n2, e2, v2 = ks2._numint.nr_uks(mol, ks2.grids, ks2.xc, np.array([b, a]))
    tol = _tol(case)
    modes = "/".join(sorted(set(k["mode"] for k in case["model"]["kernels"])))
    ctx.close([e2], [e1], ("swap", "energy", fam, modes), rtol=tol)
    ctx.close(n2, n1[::-1], ("swap", "nelec", fam), rtol=1e-12)
    scale = float(np.max(np.abs(v1)))
    ctx.close(v2[0], v1[1], ("swap", "v", fam, modes), rtol=tol, scale=scale)
    ctx.close(v2[1], v1[0], ("swap", "v", fam, modes), rtol=tol, scale=scale)
    if np.linalg.norm(a - b) > 1e-2 * np.linalg.norm(a):
        ctx.nontrivial([G.mol_class(case["mol"]), G.model_signature(case["model"]), case["calc"]["xmix"]])


@subcheck("C07", "mol_separable", st_sep, quick=24, thorough=300, tolerances=TOL, shrink=False,
          rule="separable (all kernels SEP, exchange-like baselines, no semilocal correlation, xc=None) models: "
               "E_uks[(a,b)] == (E_rks[2a] + E_rks[2b])/2 and v_uks[s] == v_rks[2 n_s]; non-trivial = ||a-b|| > 1e-2||a||")
def mol_separable(case, ctx):
    fam = _events(case, ctx)
    mol, model, ks_u = _setup(case, True)
    _, _, ks_r = _setup(case, False)
    ch = G.build_dm(mol, case["dm"])[0]
    a, b = ch[0]["dm"], ch[1]["dm"]
    nu, eu, vu = ks_u._numint.nr_uks(mol, ks_u.grids, ks_u.xc, np.array([a, b]))
    na, ea, va = ks_r._numint.nr_rks(mol, ks_r.grids, ks_r.xc, 2 * a)
    nb, eb, vb = ks_r._numint.nr_rks(mol, ks_r.grids, ks_r.xc, 2 * b)
    tol = _tol(case)
    ctx.close([eu], [0.5 * (ea + eb)], ("separable", "energy", fam), rtol=tol, scale=abs(ea) + abs(eb))
    scale = float(np.max(np.abs(vu)))
    ctx.close(vu[0], va, ("separable", "v", fam), rtol=tol, scale=scale)
    ctx.close(vu[1], vb, ("separable", "v", fam), rtol=tol, scale=scale)
    if np.linalg.norm(a - b) > 1e-2 * np.linalg.norm(a):
        ctx.nontrivial([G.mol_class(case["mol"]), G.model_signature(case["model"]), case["calc"]["xmix"],
                        case["calc"]["xkernel"]])


# ------------------------------------------------------------------------------------------------
# array level: every layer that carries an nspin factor

def _relclose(ctx, got, want, sig, rtol):
    """elementwise relative comparison (the compared arrays span many orders of magnitude)"""
    got, want = np.asarray(got, float), np.asarray(want, float)
    den = np.maximum(np.abs(want), np.abs(got)) + 1e-300
    ctx.close((got - want) / den, np.zeros_like(den), sig, rtol=0, atol=rtol)


def _rho_data(rng, n, mgga=True):
    rho = np.exp(rng.uniform(np.log(1e-4), np.log(20.0), n))
    g = rng.normal(size=(3, n)) * rho ** (4.0 / 3) * rng.uniform(0.1, 3.0, n)
    sigma = (g * g).sum(0)
    tauw = sigma / (8 * rho)
    tau = tauw + rng.uniform(0.05, 2.0, n) * 0.3 * (3 * np.pi**2) ** (2.0 / 3) * rho ** (5.0 / 3)
    rows = [rho, g[0], g[1], g[2]] + ([tau] if mgga else [])
    return np.array(rows)


@st.composite
def st_arr(draw):
    return {"mode": draw(st.sampled_from(["npa", "nst", "np", "ns"])), "n": draw(st.integers(1, 12)),
            "seed": draw(st.integers(0, 2**31 - 1)),
            "a0": draw(st.floats(0.7, 4.0)), "grad_mul": draw(st.sampled_from([0.0, 0.01, 0.05])),
            "tau_mul": draw(st.sampled_from([0.0, 0.01, 0.05]))}


@subcheck("C07", "arr_semilocal_exponent", st_arr, quick=3000, thorough=60000, tolerances=TOL,
          rule="generated (rho, grad rho, tau) with tau >= tau_W: SemilocalPlan(nspin=1) on n vs SemilocalPlan(nspin=2) on "
               "(n/2, n/2): features equal per channel and get_vxc(2 channels) == 2*get_vxc(1 channel) (chain rule of "
               "F_s = F[2 n_s]); swapping channels swaps outputs; get_cider_exponent(_gga): a(nspin=2; n/2) == a(nspin=1; n) "
               "with derivatives scaled by 2, 4, 2; non-trivial = always (distinct by mode, parameters bucket, n)")
def arr_semilocal_exponent(case, ctx):
    from ciderpress.dft.plans import SemilocalPlan
    from ciderpress.dft.settings import SemilocalSettings, get_cider_exponent, get_cider_exponent_gga

    rng = rng_from(case["seed"])
    mode, n = case["mode"], case["n"]
    mgga = mode in ("npa", "nst")
    rho = _rho_data(rng, n, mgga=True)
    p1 = SemilocalPlan(SemilocalSettings(mode), 1)
    p2 = SemilocalPlan(SemilocalSettings(mode), 2)
    r1 = rho[None].copy()
    r2 = np.stack([0.5 * rho, 0.5 * rho])
    f1 = p1.get_feat(r1.copy())
    f2 = p2.get_feat(r2.copy())
    ctx.event("mode=" + mode)
    ctx.nontrivial([mode, n, case["seed"] % 97])
    # get_s2 / dtauw carry +1e-16 regularisers, so the identity holds to ~1e-16/(b rho^(4/3)) <= 1e-10
    # for rho >= 1e-4; judged elementwise at 1e-9
    _relclose(ctx, f2[0], f1[0], ("sl_feat", mode), 1e-9)
    _relclose(ctx, f2[1], f1[0], ("sl_feat", mode), 1e-9)
    vf = rng.normal(size=f1.shape)
    v1 = p1.get_vxc(r1.copy(), vf.copy())
    v2 = p2.get_vxc(r2.copy(), np.concatenate([vf, vf]).copy())
    for s in range(2):
        for row in range(5 if mgga else 4):
            # terms of opposite sign (v_p*dp/dsigma vs v_alpha*dalpha/dsigma) can cancel by 1e3 and amplify the
            # 1e-11 regulariser effect: 1e-6 of the row maximum
            ctx.close(v2[s, row], 2 * v1[0, row], ("sl_vxc", mode), rtol=1e-6,
                      scale=float(np.max(np.abs(v1[0, row])) + 1e-300))
    # channel swap with different channels
    rb = _rho_data(rng, n, mgga=True)
    ra = np.stack([0.5 * rho, 0.3 * rb])
    fa = p2.get_feat(ra.copy())
    fb = p2.get_feat(ra[::-1].copy())
    ctx.equal_bits(fa[::-1].copy(), fb.copy(), ("sl_feat_swap", mode))
    vfa = rng.normal(size=fa.shape)
    va = p2.get_vxc(ra.copy(), vfa.copy())
    vb = p2.get_vxc(ra[::-1].copy(), vfa[::-1].copy())
    ctx.equal_bits(va[::-1].copy(), vb.copy(), ("sl_vxc_swap", mode))
    # exponents
    sigma = (rho[1:4] ** 2).sum(0)
    a0, gm, tm = case["a0"], case["grad_mul"], case["tau_mul"]
    if mgga:
        e1 = get_cider_exponent(rho[0].copy(), sigma.copy(), rho[4].copy(), a0=a0, grad_mul=gm, tau_mul=tm, nspin=1)
        e2 = get_cider_exponent(0.5 * rho[0], 0.25 * sigma, 0.5 * rho[4], a0=a0, grad_mul=gm, tau_mul=tm, nspin=2)
        fac = [1, 2, 4, 2]
        lab = "mgga"
    else:
        e1 = get_cider_exponent_gga(rho[0].copy(), sigma.copy(), a0=a0, grad_mul=gm, nspin=1)
        e2 = get_cider_exponent_gga(0.5 * rho[0], 0.25 * sigma, a0=a0, grad_mul=gm, nspin=2)
        fac = [1, 2, 4]
        lab = "gga"
    for k in range(len(fac)):
        # the derivatives are differences of terms of the size of a / rho (up to ten times the result where the density
        # and the gradient / tau parts cancel; 7e-13 measured): 1e-11 for them, 1e-12 for the value
        ctx.close(e2[k], fac[k] * np.asarray(e1[k]), ("exponent", lab, "out%d" % k), rtol=1e-12 if k == 0 else 1e-11,
                  scale=float(np.max(np.abs(e1[k])) * fac[k] + 1e-300))


# ------------------------------------------------------------------------------------------------
@st.composite
def st_model_arr(draw):
    model = draw(G.st_model(families=("sl",), max_kernels=2))
    return {"model": model, "n": draw(st.integers(1, 10)), "seed": draw(st.integers(0, 2**31 - 1))}


def _x0t(model_spec, rho_data_list, fs):
    """normalised feature array from per-spin rho data via the real SemilocalPlan"""
    from ciderpress.dft.plans import SemilocalPlan

    nspin = len(rho_data_list)
    plan = SemilocalPlan(fs.sl_settings, nspin)
    return plan.get_feat(np.stack(rho_data_list))


@subcheck("C07", "arr_model", st_model_arr, quick=2500, thorough=40000, tolerances=TOL,
          rule="synthetic mapped models (semilocal features, all evaluator kinds, SEP/NPOL/POL, native baselines or libxc "
               "baselines through MappedXC2) evaluated on generated per-point data: f(n/2,n/2; nspin=2) == f(n; nspin=1), "
               "d f/dX_alpha == d f/dX_beta and their sum == d f/dX (nspin=1); f(a,b) == f(b,a) with derivatives (and "
               "baseline potentials) exchanged; SEP-only models: f(a,b) == (f(2a)+f(2b))/2; non-trivial = a != b and |f| > 1e-10")
def arr_model(case, ctx):
    from ciderpress.dft.plans import get_rho_tuple_with_grad_cross

    spec = case["model"]
    model = G.build_model(spec)
    fs = model.settings
    rng = rng_from(case["seed"])
    n = case["n"]
    ra = _rho_data(rng, n)
    rb = _rho_data(rng, n)
    xc2 = spec["xc2"]
    modes = "/".join(sorted(set(k["mode"] for k in spec["kernels"])))
    ctx.event("modes=" + modes)
    ctx.event("xc2" if xc2 else "xc1")
    for k in spec["kernels"]:
        for e in k["evals"]:
            ctx.event("eval=" + e)

    def ev(rho_list):
        rd = np.stack(rho_list)
        X = fs.normalizers.get_normalized_feature_vector(_x0t(spec, rho_list, fs))
        if xc2:
            rt = get_rho_tuple_with_grad_cross(rd, is_mgga=True)
            f, df, vt = model(X, rt, rhocut=1e-9)
            return f, df, vt
        f, df = model(X, rhocut=1e-9)
        return f, df, None

    # closed shell through both paths
    f1, d1, t1 = ev([ra])
    f2, d2, t2 = ev([0.5 * ra, 0.5 * ra])
    sc = float(np.max(np.abs(f1))) + 1e-300
    ctx.close(f2, f1, ("closed", "energy", modes, "xc2" if xc2 else "xc1"), rtol=1e-9, scale=sc)
    dsc = float(np.max(np.abs(d1))) + 1e-300
    ctx.close(d2[0], d2[1], ("closed", "dres_symmetry", modes), rtol=1e-9, scale=dsc)
    ctx.close(d2[0] + d2[1], d1[0], ("closed", "dres_sum", modes, "xc2" if xc2 else "xc1"), rtol=1e-9, scale=dsc)
    if xc2:
        # baseline potentials: d/d n_s of e(n_a, n_b) at n_a = n_b equals d/dn of e(n)
        # the unpolarised and the polarised evaluation are different code paths of libxc, which agree to its own accuracy
        # (1.7e-10 seen for PBE correlation at low density, thorough tier, seed 3): 1e-9 as for the energies above; a
        # same-spin / opposite-spin baseline is a difference of two such evaluations (2e-8, as in C04)
        split = any(str(k.get(c, "") or "").startswith(("OS_", "SS_")) for k in spec["kernels"] for c in ("mul", "add"))
        vtol = 2e-8 if split else 1e-9
        ctx.close(t2[0][0], t1[0][0], ("closed", "vrho", modes), rtol=vtol, scale=float(np.max(np.abs(t1[0]))) + 1e-300)
        ctx.close(t2[0][1], t1[0][0], ("closed", "vrho", modes), rtol=vtol, scale=float(np.max(np.abs(t1[0]))) + 1e-300)
    # swap
    fa, da, ta = ev([0.5 * ra, 0.4 * rb])
    fb, db, tb = ev([0.4 * rb, 0.5 * ra])
    sc = float(np.max(np.abs(fa))) + 1e-300
    ctx.close(fb, fa, ("swap", "energy", modes, "xc2" if xc2 else "xc1"), rtol=1e-9, scale=sc)
    ctx.close(db[::-1], da, ("swap", "dres", modes, "xc2" if xc2 else "xc1"), rtol=1e-9,
              scale=float(np.max(np.abs(da))) + 1e-300)
    if xc2:
        ctx.close(tb[0][::-1], ta[0], ("swap", "vrho", modes), rtol=1e-10, scale=float(np.max(np.abs(ta[0]))) + 1e-300)
        ctx.close(tb[1][::-1], ta[1], ("swap", "vsigma", modes), rtol=1e-10, scale=float(np.max(np.abs(ta[1]))) + 1e-300)
        ctx.close(tb[2][::-1], ta[2], ("swap", "vtau", modes), rtol=1e-10, scale=float(np.max(np.abs(ta[2]))) + 1e-300)
    if np.max(np.abs(fa)) > 1e-10:
        ctx.nontrivial([G.model_signature(spec), n])
    # separable
    if modes == "SEP" and (xc2 or all(k["add"] != "GGA_C_PBE" for k in spec["kernels"])):
        ctx.event("separable_checked")
        ga, _, _ = ev([ra])
        gb, _, _ = ev([0.8 * rb])
        fu, _, _ = ev([0.5 * ra, 0.4 * rb])
        ctx.close(fu, 0.5 * (ga + gb), ("separable", "energy", "xc2" if xc2 else "xc1"), rtol=1e-9,
                  scale=float(np.max(np.abs(ga)) + np.max(np.abs(gb))) + 1e-300)
