"""C16 -- Gaussian-process training solves the documented linear system (stateful).

A case is a whole *history*: a synthetic training set (written to disk in the layout MOLGP.load_data
reads), 1-3 kernels, control points, and a drawn list of operations
(store_mol_covs(subset) / add_reactions(list) / reset_reactions() / fit() / fit(x, sigma_min) /
compute_likelihood(x, sigma_min) / permute-and-re-add / reset-and-re-add).  The interpreter replays the
list against the code under test and against an independent numpy model (cpverif/gen_train.py) written
from docs/theory/gp.rst.  The case JSON is the replay; the whole history shrinks as one value.
"""
import contextlib
import os
import shutil

import numpy as np
from hypothesis import strategies as st

from cpverif import gen_train as G
from cpverif.oracles import rng_from
from cpverif.runner import subcheck

U = 2.2e-16
_counter = [0]


def _pick(draw, n):
    """uniform index (st.integers over-samples its bounds: integers(0,3)==0 comes out at 45%, not 25%)"""
    return draw(st.sampled_from(range(n)))


def lfloat(lo, hi):
    return st.floats(np.log(lo), np.log(hi)).map(lambda t: float(np.exp(t)))


# ================================================================================================
# strategies

@st.composite
def st_map(draw, N0, signed_rows):
    pos = [i for i in range(N0) if i not in signed_rows]
    code = draw(st.sampled_from(["U", "U", "T", "V", "V3", "W", "X", "Z", "SLN", "L"]))
    ia, pa = G.MAP_ARGS[code]
    idx = {}
    for n in ia:
        if n in G.MAP_POS[code]:
            idx[n] = draw(st.sampled_from(pos[1:] if (len(pos) > 1 and code != "SLN") else pos))
        elif code == "L":
            idx[n] = draw(st.sampled_from(list(range(1, N0))))
        else:
            idx[n] = draw(st.sampled_from(list(range(1, N0))))
    if code == "SLN":
        idx["i"] = 0
    par = {}
    for n in pa:
        if n == "center":
            par[n] = draw(st.floats(-0.5, 0.5))
        elif n == "scale":
            par[n] = draw(lfloat(0.5, 2.0))
        else:
            par[n] = draw(lfloat(0.2, 4.0))
    return {"code": code, "idx": idx, "par": par}


@st.composite
def st_norm(draw):
    kind = draw(st.sampled_from([None, "const", "density", "inhom", "general"]))
    if kind is None:
        return None
    return {"kind": kind, "c1": draw(lfloat(0.3, 3.0)), "c2": draw(lfloat(0.1, 2.0)),
            "p1": draw(st.floats(-0.5, 0.5)), "p2": draw(st.floats(-1.0, 1.0))}


@st.composite
def st_kern(draw, N1):
    terms = []
    for _ in range(draw(st.sampled_from([1, 1, 2]))):
        if draw(st.booleans()):
            ls = [draw(lfloat(0.25, 2.5)) for _ in range(N1)]
        else:
            ls = draw(lfloat(0.25, 2.5))
        terms.append({"c": draw(lfloat(0.3, 3.0)), "ls": ls, "pow": draw(st.sampled_from([1, 1, 2]))})
    const = draw(lfloat(0.01, 1.0)) if _pick(draw, 4) == 3 else None
    return {"terms": terms, "const": const}


def _noise_opts(draw):
    o = {}
    k = draw(st.sampled_from(["default", "noise", "noise", "noise_factor"]))
    # an explicit 0.0 is a legal value of every additive noise option (a reaction declared exact: the documented
    # system keeps only the numerical epsilon on that diagonal entry); it must not be read as "option absent"
    if k == "noise":
        o["noise"] = 0.0 if _pick(draw, 6) == 5 else draw(lfloat(2e-3, 0.3))
    elif k == "noise_factor":
        o["noise_factor"] = 0.0 if _pick(draw, 6) == 5 else draw(lfloat(0.1, 10.0))
    if _pick(draw, 4) == 3:
        o["noise_rel_factor"] = 0.0 if _pick(draw, 6) == 5 else draw(lfloat(1e-3, 0.1))
    if _pick(draw, 4) == 3:
        o["weight"] = draw(lfloat(0.25, 16.0))
    return o


def _draw_rxn(draw, hs, want_mode=None, want_tuple=False, no_tuple=False):
    modes = []
    if hs.mode0_ok() and (hs.plain_ok(0) or hs.tuple_ok()):
        modes.append(0)
    if hs.plain_ok(2):
        modes.append(2)
    mode = want_mode if want_mode is not None else draw(st.sampled_from(modes))
    plain = hs.plain_ok(mode)
    tup = hs.tuple_ok() if not no_tuple else []
    tl = [[i, [o[0], o[1]]] for i, o in tup]
    excluded = None
    if mode == 2 and "deriv_mode2" not in hs.allow:
        # excluded region (open finding K-C16-deriv-mode2): where the generator would have placed a derivative entry in
        # an XC reaction it places a plain system instead and counts the exclusion
        if tl and _pick(draw, 3) > 0:
            excluded = "deriv_mode2"
        tl = []
    cands = [p for p in plain] + tl
    # derivative entries are worth over-sampling when available
    if tl and (want_tuple or _pick(draw, 3) > 0):
        first = draw(st.sampled_from(tl))
    else:
        first = draw(st.sampled_from(cands))
    structs = [first]
    for _ in range(draw(st.sampled_from([0, 1, 1, 2, 3]))):
        structs.append(draw(st.sampled_from(cands)))
    counts = []
    for j in range(len(structs)):
        c = draw(st.sampled_from([1, 1, 2, 3, 0.5, 1.5]))
        sgn = draw(st.sampled_from([1, -1, -1])) if j else 1
        counts.append(c * sgn)
    r = {"mode": mode, "structs": structs, "counts": counts}
    if mode == 2:
        r["unit"] = draw(st.sampled_from([None, 1.0, G.DEFAULT_UNIT, 1.0 / 27.211386, 0.01]))
        u = G.DEFAULT_UNIT if r["unit"] is None else r["unit"]
        r["energy"] = draw(st.floats(-3.0, 3.0)) / u
    r.update(_noise_opts(draw))
    if excluded:
        r["excluded_known"] = excluded
    return r


def _draw_fitargs(draw):
    if draw(st.booleans()):
        return {"x": None, "smin": None}
    smin = draw(st.sampled_from([0.0, 0.25, 0.5, 1.0]))
    # the noise factor sigma_min + x1^2 must be positive (a zero factor removes the noise term: singular system)
    x1 = draw(st.floats(0.3, 2.0)) if smin == 0.0 else draw(st.floats(0.0, 2.0))
    return {"x": [draw(lfloat(0.3, 3.0)), x1], "smin": smin}


@st.composite
def st_history(draw, gp2=False, big_ok=True, allow=(), force=None):
    """force (defect reproducers only): {"kernels": [(component, mode), ...], "deriv_all": bool, "script": name}"""
    allow = list(allow)
    force = force or {}
    seed = draw(st.integers(0, 2 ** 31 - 1))
    slmode = draw(st.sampled_from(["npa", "nst", "np", "ns"]))
    n_nldf = draw(st.integers(0, 3))
    n_sdmx = draw(st.integers(0, 2))
    nsl = G.NSL[slmode]
    N0 = nsl + n_nldf + n_sdmx
    signed = [_pick(draw, 4) == 3 for _ in range(n_nldf + n_sdmx)]
    signed_rows = [nsl + j for j, sflag in enumerate(signed) if sflag]
    norms = [draw(st_norm()) for _ in range(n_nldf + n_sdmx)]
    nsys = draw(st.integers(2, 6))
    systems = []
    # three quarters of the data sets carry occupation-derivative data (two thirds of those for all systems)
    deriv_ds = force.get("deriv_all", False) or _pick(draw, 4) > 0
    deriv_all = force.get("deriv_all", False) or (deriv_ds and _pick(draw, 3) > 0)
    for i in range(nsys):
        big = big_ok and _pick(draw, 40) == 39
        ng = draw(st.integers(10001, 10400)) if big else draw(st.integers(6, 90))
        nspin = draw(st.sampled_from([1, 2]))
        orbs = []
        if deriv_ds and (deriv_all or _pick(draw, 4) > 0):
            for key in draw(st.lists(st.sampled_from([["O", 0], ["U", 0], ["O", 1], ["B", 0]]), min_size=1, max_size=2,
                                     unique_by=lambda k: (k[0], k[1]))):
                orbs.append([key[0], key[1], draw(st.integers(0, 1))])
        systems.append({"ng": ng, "nspin": nspin, "nlowB": draw(st.sampled_from([0, 0, 1, 3, 8])),
                        "nlowC": draw(st.sampled_from([0, 0, 2, 5])), "orbs": orbs})
    # kernels --------------------------------------------------------------------------------
    if force.get("kernels"):
        comps = [c for c, _ in force["kernels"]]
        fmodes = [m for _, m in force["kernels"]]
        nk = len(comps)
    else:
        nk = draw(st.sampled_from([1, 1, 2, 2, 2, 3]))
        comps = [draw(st.sampled_from(["x", "x", "c", "xc"])) for _ in range(nk)]
        if nk >= 2 and "x" not in comps:
            comps[draw(st.integers(0, nk - 1))] = "x"
        fmodes = [None] * nk
    kernels = []
    for ik in range(nk):
        N1 = draw(st.integers(1, 3))
        maps = [draw(st_map(N0, signed_rows)) for _ in range(N1)]
        if fmodes[ik] is not None:
            mode = fmodes[ik]
        elif deriv_ds and comps[ik] == "x":
            mode = draw(st.sampled_from(["SEP", "NPOL", "SEP", "NPOL", "POL"]))
        else:
            mode = draw(st.sampled_from(["SEP", "NPOL", "POL"]))
        if gp2:
            mulc = ["LDA_X", "GGA_X_PBE", "MGGA_X_R2SCAN"] + (["GGA_C_PBE", "LDA_C_PW_MOD"] if mode != "SEP" else [])
            addc = [None, None, "LDA_X", "GGA_X_PBE"] + (["GGA_C_PBE"] if mode != "SEP" else [])
        else:
            mulc = ["LDA_X", "LDA_X", "GGA_X_PBE", "ONE"] + (["NLDA_X_DAMP"] if (N0 > 3 and 3 not in signed_rows) else [])
            addc = ["ZERO", "LDA_X", "GGA_X_PBE", "ONE"] + (["NLDA_X_DAMP"] if (N0 > 3 and 3 not in signed_rows) else [])
        kernels.append({"component": comps[ik], "mode": mode, "maps": maps, "kern": draw(st_kern(N1)),
                        "mul": draw(st.sampled_from(mulc)), "add": draw(st.sampled_from(addc)),
                        "ctrl_tol": draw(st.sampled_from([1e-2, 1e-3, 1e-4])),
                        "ctrl_nmax": draw(st.sampled_from([None, None, 6, 12, 25]))})
    # control points ---------------------------------------------------------------------------
    reduce = _pick(draw, 3) > 0
    pick = []
    if reduce:
        for i in draw(st.lists(st.integers(0, nsys - 1), min_size=1, max_size=3, unique=True)):
            pick.append([i, draw(st.lists(st.integers(0, 10 ** 6), min_size=4, max_size=30))])
    else:
        for i in draw(st.lists(st.integers(0, nsys - 1), min_size=1, max_size=2, unique=True)):
            pick.append([i, draw(st.lists(st.integers(0, 10 ** 6), min_size=3 if force else 1, max_size=3))])
    # operations ---------------------------------------------------------------------------------
    hs = G.HistState(comps, [s["orbs"] for s in systems], modes=[k["mode"] for k in kernels], allow=allow, gp2=gp2)
    ops = []

    def draw_store(first=False):
        sysl = draw(st.lists(st.integers(0, nsys - 1), min_size=1, max_size=nsys, unique=True))
        if first or _pick(draw, 3) == 0:
            sysl = list(range(nsys))
        if first and deriv_ds and not deriv_all and draw(st.booleans()):
            sysl = [i for i in range(nsys) if systems[i]["orbs"]] or sysl
        corr = True if ("x" not in comps or _pick(draw, 4) < 3) else False
        excluded = None
        for _ in range(4):
            deriv = draw(st.sampled_from([None, None, True, True, "list", False] if deriv_ds else [None, False, "list"]))
            if deriv == "list":
                deriv = [draw(st.sampled_from([None, True, False])) for _ in range(nk)]
            if gp2 and "gp2_deriv" not in allow:
                # excluded region (open finding K-C16-gp2-deriv): MOLGP2 never reads derivative data here; a call that
                # would have read them is issued with get_orb_deriv=False and counted
                has = [bool(systems[i]["orbs"]) for i in sysl]
                fl = deriv if isinstance(deriv, list) else [deriv] * nk
                if all(has) and any((f is None or f is True) for f in fl):
                    excluded = "gp2_deriv"
                if any(has):
                    deriv = False
            if hs.store_valid(sysl, deriv, corr):
                break
            # make the subset homogeneous in derivative data, then retry
            want = bool(systems[sysl[0]]["orbs"])
            sysl = [i for i in sysl if bool(systems[i]["orbs"]) == want]
        else:
            deriv = False
        op = {"op": "store", "sys": sysl, "deriv": deriv, "corr": corr}
        if excluded:
            op["excluded_known"] = excluded
        hs.store(sysl, deriv, corr)
        return op

    def addable():
        return bool((hs.mode0_ok() and (hs.plain_ok(0) or hs.tuple_ok())) or hs.plain_ok(2))

    script = force.get("script")
    if script is None:
        ops.append(draw_store(first=True))
        nops = draw(st.integers(2, 9))
        for t in range(nops):
            ch = ["store"]
            if addable():
                ch += ["add", "add", "add"]
            if hs.rxns:
                ch += ["fit", "fit", "reset", "permute", "readd"]
            if hs.fitted:
                ch += ["lik"]
            if not hs.rxns and t > 0:
                ch += ["fit_empty"]
            o = draw(st.sampled_from(ch))
            if o == "store":
                ops.append(draw_store())
            elif o == "add":
                rx = [_draw_rxn(draw, hs) for _ in range(draw(st.integers(1, 4)))]
                hs.rxns += rx
                ops.append({"op": "add", "rxns": rx})
            elif o == "fit":
                hs.fitted = True
                ops.append(dict(op="fit", **_draw_fitargs(draw)))
            elif o == "lik":
                ops.append(dict(op="lik", **_draw_fitargs(draw)))
            elif o == "reset":
                hs.rxns = []
                ops.append({"op": "reset"})
            elif o in ("permute", "readd"):
                ops.append({"op": o, "pseed": draw(st.integers(0, 10 ** 6)), "split": draw(st.integers(0, 3))})
            else:
                ops.append({"op": "fit_empty"})
        # every history ends in a state that is fitted and scored
        if addable() and len(hs.rxns) < 3:
            rx = [_draw_rxn(draw, hs) for _ in range(3 - len(hs.rxns) + draw(st.integers(0, 2)))]
            hs.rxns += rx
            ops.append({"op": "add", "rxns": rx})
        if hs.rxns:
            ops.append(dict(op="fit", **_draw_fitargs(draw)))
            ops.append(dict(op="lik", **_draw_fitargs(draw)))
        final = draw(st.sampled_from([[], ["fresh"], ["ladder"], ["map"], ["fresh", "ladder", "map"], ["retrain"], ["fresh", "retrain"]]))
    else:
        # short fixed scripts for the reproducers of recorded defects
        allsys = list(range(nsys))
        if script == "store_deriv":
            op = {"op": "store", "sys": allsys, "deriv": True, "corr": True}
        elif script == "store_nocorr":
            op = {"op": "store", "sys": allsys, "deriv": False, "corr": False}
        else:
            op = {"op": "store", "sys": allsys, "deriv": False, "corr": True}
        hs.store(op["sys"], op["deriv"], op["corr"])
        ops.append(op)
        rx = []
        for _ in range(draw(st.integers(2, 4))):
            r = _draw_rxn(draw, hs, want_mode=force.get("rxn_mode"), want_tuple=force.get("want_tuple", False),
                          no_tuple=gp2)   # no model of the MOLGP2 derivative vectors
            rx.append(r)
        hs.rxns += rx
        ops.append({"op": "add", "rxns": rx})
        ops.append({"op": "fit", "x": None, "smin": None})
        ops.append({"op": "lik", "x": None, "smin": None})
        final = []
    return {"seed": seed, "slmode": slmode, "n_nldf": n_nldf, "n_sdmx": n_sdmx, "signed": signed, "norms": norms,
            "systems": systems, "gp2": gp2, "default_noise": draw(lfloat(3e-3, 0.2)), "kernels": kernels,
            "ctrl": {"reduce": reduce, "pick": pick}, "ops": ops, "final": final, "allow": allow}


# ================================================================================================
# interpreter

class Run:
    """one history: the objects under test + the numpy model + what both have been told so far"""

    def __init__(self, case, ctx, root, order=None):
        self.case, self.ctx = case, ctx
        self.nk = len(case["kernels"])
        self.order = list(range(self.nk)) if order is None else order
        self.systems = [G.make_system(case, i) for i in range(len(case["systems"]))]
        self.mod = G.Model(case, self.systems)
        self.ddir = G.write_dataset(case, self.systems, root)
        self.gp, ks = G.build_gp(case, self.order)
        self.dk = {ik: ks[pos] for pos, ik in enumerate(self.order)}   # DFTKernel by case index
        self.hs = G.HistState([case["kernels"][ik]["component"] for ik in self.order],
                              [s["orbs"] for s in case["systems"]],
                              modes=[case["kernels"][ik]["mode"] for ik in self.order],
                              allow=case.get("allow", []), gp2=case["gp2"])
        self.pos = {ik: p for p, ik in enumerate(self.order)}
        self.x0t_list = self.mod.ctrl_x0t(case["ctrl"]["pick"])
        if not case["ctrl"]["reduce"]:
            self.x0t_list = self.well_conditioned(self.x0t_list)
        with quiet():
            self.gp.set_control_points([x.copy() for x in self.x0t_list], reduce=case["ctrl"]["reduce"])
        self.ctrl = {ik: np.array(self.dk[ik].X1ctrl, dtype=float, order="C") for ik in range(self.nk)}
        self.cache = {}
        self.lastfit = None      # model quantities of the last fit
        self.lastalpha = None    # (reaction multiset key, fit args, alphas)
        self.unmodelled = False

    def well_conditioned(self, x0t_list, limit=1e6):
        """unreduced control sets are built point by point: a candidate is kept only if cond(K~ + eps) stays below
        `limit` for every kernel (DESIGN C16: conditioning bounded by construction); the first point is always kept"""
        kept = []
        for X in x0t_list:
            cols = []
            for g in range(X.shape[2]):
                trial = kept + ([np.ascontiguousarray(X[:, :, cols + [g]])])
                ok = True
                for ik in range(self.nk):
                    kc = self.case["kernels"][ik]
                    rows = self.mod.x1_candidates(kc, trial)
                    if kc["mode"] == "POL":
                        n1 = rows.shape[1] // 2
                        C = np.stack([rows[:, :n1], rows[:, n1:]])
                    else:
                        C = rows
                    K = self.mod.kmm(ik, C)
                    if np.linalg.cond(K + G.EPS * np.eye(len(K))) > limit:
                        ok = False
                        break
                if ok or (not kept and not cols):
                    cols.append(g)
            if cols:
                kept.append(np.ascontiguousarray(X[:, :, cols]))
        return kept

    # ---- model vectors ---------------------------------------------------------------------------
    def vec(self, ik, sid):
        key = ("v", ik, sid)
        if key not in self.cache:
            self.cache[key] = self.mod.integrals(ik, sid, self.ctrl[ik])
        return self.cache[key]

    def dvec(self, ik, sid, orb):
        key = ("d", ik, sid, tuple(orb))
        if key not in self.cache:
            self.cache[key] = self.mod.dintegrals(ik, sid, orb, self.ctrl[ik])
        return self.cache[key]

    def dvec_floor(self, ik, sid, orb):
        """Rounding floor of the derivative vector, per control point: 8 eps x |d(dcov_c) / d log c_f| summed over the mapped
        features f.  d/dx exp(-(x-c)^2/2) = -(x-c) k vanishes at a training point that is itself a control point, so
        what is left there is the last-bit difference between the package's c and the model's x, eps |x|, times the
        feature's occupation derivative: an unbounded map (W: 1.5e3) with a derivative of 1e3 gives 5e-10 of the vector
        (thorough tier, seed 2).  The sensitivity is measured on the model by scaling one mapped feature of the control
        points by 1 + 1e-7 at a time."""
        key = ("dfl", ik, sid, tuple(orb))
        if key not in self.cache:
            C = self.ctrl[ik]
            d0, _ = self.dvec(ik, sid, orb)
            S = np.zeros_like(np.asarray(d0, dtype=float))
            for f in range(C.shape[-1]):
                Cp = np.array(C, copy=True)
                Cp[..., f] *= 1.0 + 1e-7
                d1, _ = self.mod.dintegrals(ik, sid, orb, Cp)
                S += np.abs(np.asarray(d1) - d0) / 1e-7
            self.cache[key] = 8.0 * np.finfo(float).eps * S
        return self.cache[key]

    def mode_of(self, ik):
        return self.case["kernels"][ik]["mode"]

    # ---- checks on control points ------------------------------------------------------------------
    def check_ctrl(self):
        ctx, case = self.ctx, self.case
        for ik in range(self.nk):
            kc = case["kernels"][ik]
            cand = self.mod.x1_candidates(kc, self.x0t_list)
            C = self.ctrl[ik]
            rows = np.concatenate([C[0], C[1]], axis=1) if kc["mode"] == "POL" else C
            ctx.check(rows.ndim == 2 and rows.shape[1] == cand.shape[1], ("ctrl_shape", kc["mode"]),
                      got=list(np.shape(C)))
            sc = np.max(np.abs(cand)) + 1e-300
            d = np.max(np.abs(rows[:, None, :] - cand[None, :, :]), axis=2)
            ctx.check(bool(np.all(d.min(axis=1) <= 1e-12 * sc)), ("ctrl_not_subset", kc["mode"]),
                      worst=float(d.min(axis=1).max()))
            if not case["ctrl"]["reduce"]:
                ctx.check(rows.shape == cand.shape and bool(np.max(np.abs(rows - cand)) <= 1e-12 * sc),
                          ("ctrl_unreduced_differs", kc["mode"]))
            else:
                nm = kc["ctrl_nmax"]
                ctx.check(nm is None or rows.shape[0] <= nm, ("ctrl_nmax_exceeded", kc["mode"]))
                ctx.check(len(set(np.argmin(d, axis=1).tolist())) == rows.shape[0] or
                          _has_dup(cand, sc), ("ctrl_duplicate", kc["mode"]))

    # ---- operations ------------------------------------------------------------------------------
    def op_store(self, op):
        ctx = self.ctx
        sysl = [int(i) for i in op["sys"]]
        deriv = op["deriv"]
        flags = deriv if isinstance(deriv, list) else [deriv] * self.nk     # indexed by case kernel index
        pos_flags = [flags[ik] for ik in self.order] if isinstance(deriv, list) else deriv
        if not self.hs.store_valid(sysl, pos_flags, op["corr"]):
            ctx.event("op_dropped_invalid_store")
            return
        ids = ["s%d" % i for i in sysl]
        with quiet():
            self.gp.store_mol_covs(self.ddir, ids, get_orb_deriv=pos_flags, get_correlation=op["corr"])
        self.hs.store(sysl, pos_flags, op["corr"])
        for p, ik in enumerate(self.order):
            kc = self.case["kernels"][ik]
            if not (op["corr"] or kc["component"] == "x"):
                continue
            fl = pos_flags[p] if isinstance(pos_flags, list) else pos_flags
            with_deriv = all(bool(self.case["systems"][i]["orbs"]) for i in sysl) if fl is None else bool(fl)
            dk = self.dk[ik]
            for i in sysl:
                sid = "s%d" % i
                s = self.mod.sys[sid]
                tag = (kc["mode"], "nspin%d" % s.nspin)
                cov, base = self.vec(ik, sid)
                sc = float(np.max(np.abs(cov))) + 1e-300
                ctx.close(dk.cov_dict[sid], cov, ("cov",) + tag, rtol=1e-10, atol=1e-13, scale=sc, sid=sid, kernel=ik)
                bsc = float(np.sum(np.abs(s.wt[s.cls != "B"]))) * 3.0 + 1e-300
                ctx.close(dk.base_dict[sid], base, ("base",) + tag, rtol=1e-11, scale=bsc, sid=sid, kernel=ik)
                if not with_deriv:
                    continue
                if self.case["gp2"]:
                    ctx.event("gp2_derivative_vectors_stored(not modelled)")
                    continue
                for o in s.orbs:
                    okey = tuple(o["key"])
                    dcov, dbase = self.dvec(ik, sid, okey)
                    ctx.close(dk.dcov_dict[sid][okey], dcov, ("dcov",) + tag, rtol=1e-9, atol=self.dvec_floor(ik, sid, okey),
                              scale=float(np.max(np.abs(dcov))) + 1e-2 * sc, sid=sid, kernel=ik, orb=list(okey))
                    ctx.close(dk.dbase_dict[sid][okey], dbase, ("dbase",) + tag, rtol=1e-9, scale=bsc,
                              sid=sid, kernel=ik, orb=list(okey))
                    ctx.event("dcov_checked:%s:nspin%d" % (kc["mode"], s.nspin))
        if True:    # reference data are stored by every call that processes at least one kernel
            for i in sysl:
                sid = "s%d" % i
                exx, ksb = self.mod.refs(sid)
                s = self.mod.sys[sid]
                ctx.check(sid in self.gp.exx_ref_dict and sid in self.gp.ks_baseline_dict, ("refs", "not_stored"), sid=sid,
                          get_correlation=op["corr"], first_component=self.hs.comps[0])
                ctx.close(self.gp.exx_ref_dict[sid], exx, ("refs", "exx"), rtol=1e-12,
                          scale=float(np.sum(np.abs(s.val * s.wt))) + 1e-300)
                ctx.close(self.gp.ks_baseline_dict[sid], ksb, ("refs", "ks_baseline"), rtol=1e-14,
                          scale=abs(s.e_tot) + abs(s.exc))

    def op_add(self, rxns):
        ok = [r for r in rxns if self.hs.rxn_valid(r)]
        if len(ok) != len(rxns):
            self.ctx.event("rxn_dropped_invalid")
        if not ok:
            return
        with quiet():
            self.gp.add_reactions([G.rxn_for_code(r) for r in ok])
        self.hs.rxns += ok
        if any(r["mode"] == 2 and any(isinstance(x, (list, tuple)) for x in r["structs"]) for r in ok):
            # documented input (gp.rst "Fitting Eigenvalues", add_reactions docstring); the label of such an entry needs
            # dE_0/df_i, for which the training files have no field: acceptance is all that can be decided
            self.unmodelled = True
            self.ctx.event("mode2_derivative_entry_accepted(label not decidable)")

    def op_reset(self):
        self.gp.reset_reactions()
        self.hs.rxns = []

    def op_readd(self, op, permute):
        rx = list(self.hs.rxns)
        if not rx:
            return
        if permute:
            perm = rng_from(op["pseed"]).permutation(len(rx))
            rx = [rx[i] for i in perm]
        self.op_reset()
        cut = min(len(rx), int(op.get("split", 0)))
        if cut:
            self.op_add(rx[:cut])
        self.op_add(rx[cut:])

    # ---- the documented linear system ---------------------------------------------------------------
    def assemble(self, rxns=None, noise_scale=None):
        """rows, labels and noises of the current reaction list from counts, units and options"""
        rxns = self.hs.rxns if rxns is None else rxns
        case = self.case
        xk = [ik for ik in range(self.nk) if case["kernels"][ik]["component"] == "x"]
        ck = [ik for ik in range(self.nk) if case["kernels"][ik]["component"] != "x"]
        n = len(rxns)
        Kmn = {ik: np.zeros((self.ctrl[ik].shape[-2], n)) for ik in range(self.nk)}
        y = np.zeros(n)
        sig = np.zeros(n)
        # rounding-level uncertainty of rows / labels / noises, judged against the size of the terms that are
        # summed (a reaction whose counts cancel leaves pure rounding noise in its row and label)
        dKmn = {ik: np.zeros(n) for ik in range(self.nk)}
        dy = np.zeros(n)
        dsig = np.zeros(n)
        for j, r in enumerate(rxns):
            items = []
            for st_, c in zip(r["structs"], r["counts"]):
                if isinstance(st_, (list, tuple)):
                    items.append(("s%d" % int(st_[0]), (st_[1][0], int(st_[1][1])), c))
                else:
                    items.append(("s%d" % int(st_), None, c))
            lab, labs = 0.0, 0.0
            if r["mode"] == 0:
                for sid, orb, c in items:
                    if orb is None:
                        t = c * self.mod.refs(sid)[0]
                    else:
                        o = [x for x in self.mod.sys[sid].orbs if tuple(x["key"]) == orb][0]
                        t = c * o["dval"]
                    lab += t
                    labs += abs(t)
            else:
                unit = G.DEFAULT_UNIT if r.get("unit") is None else r["unit"]
                lab += r["energy"] * unit
                labs += abs(r["energy"] * unit)
                for sid, orb, c in items:
                    lab -= c * self.mod.refs(sid)[1]
                    labs += abs(c * self.mod.refs(sid)[1])
            for ik in xk + (ck if r["mode"] == 2 else []):
                for sid, orb, c in items:
                    v, b = self.vec(ik, sid) if orb is None else self.dvec(ik, sid, orb)
                    Kmn[ik][:, j] += c * v
                    lab -= c * b
                    s_ = self.mod.sys[sid]
                    vmax = float(np.max(np.abs(self.vec(ik, sid)[0])))
                    wsum = float(np.sum(np.abs(s_.wt[s_.cls != "B"]))) * 3.0
                    if orb is None:
                        dKmn[ik][j] += abs(c) * 1e-13 * vmax
                        labs += abs(c) * (abs(b) + 1e-2 * wsum)
                    else:   # derivative vectors agree to 1e-9 of (|d| + 1e-2 |k~|) by the store checks; rounding level 1e-12
                        dKmn[ik][j] += abs(c) * 1e-12 * (float(np.max(np.abs(v))) + 1e-2 * vmax)
                        labs += abs(c) * (abs(b) + 10 * wsum)
            y[j] = lab
            dy[j] = 1e-13 * labs
            if r.get("noise") is not None:
                s = r["noise"]
            elif r.get("noise_factor") is not None:
                s = r["noise_factor"] * case["default_noise"]
            else:
                s = case["default_noise"]
            if r.get("noise_rel_factor") is not None:
                s = s + r["noise_rel_factor"] * abs(lab)
                dsig[j] = r["noise_rel_factor"] * dy[j]
            if r.get("weight") is not None:
                s = s / np.sqrt(r["weight"])
                dsig[j] /= np.sqrt(r["weight"])
            sig[j] = s
        if noise_scale is not None:
            sig = sig * noise_scale
            dsig = dsig * 0.0      # the ladder passes explicit noises
        self._unc = {"dKmn": dKmn, "dy": dy, "dsig": dsig}
        return Kmn, y, sig

    def solve(self, Kmn, y, sig, x, smin):
        """the documented system, solved twice (LU and Cholesky): the spread between the two backward-stable
        algorithms measures what rounding alone can change in a forward comparison"""
        from scipy.linalg import cho_factor, cho_solve

        x0sq = 1.0 if x is None else x[0] ** 2
        nfac = 1.0 if x is None else (smin + x[1] ** 2)
        n = len(y)
        nvar = nfac * sig ** 2 + G.EPS
        out = []
        conds, Kj = [], {}
        for ik in range(self.nk):
            Kmm = self.mod.kmm(ik, self.ctrl[ik])
            Kj[ik] = Kmm + G.EPS * np.eye(len(Kmm))
            conds.append(float(np.linalg.cond(Kj[ik])))
        for alg in ("lu", "chol"):
            A = {}
            Kcov = np.zeros((n, n))
            for ik in range(self.nk):
                if alg == "lu":
                    A[ik] = np.linalg.solve(Kj[ik], Kmn[ik])
                else:
                    try:
                        A[ik] = cho_solve(cho_factor(Kj[ik], lower=True), Kmn[ik])
                    except np.linalg.LinAlgError:
                        A[ik] = np.linalg.lstsq(Kj[ik], Kmn[ik], rcond=None)[0]
                Kcov += Kmn[ik].T @ A[ik]
            Kcov = 0.5 * (Kcov + Kcov.T) * x0sq
            Kfull = Kcov + np.diag(nvar)
            beta = np.linalg.solve(Kfull, y) if alg == "lu" else cho_solve(cho_factor(Kfull, lower=True), y)
            out.append({"A": A, "Kcov": Kcov, "Kfull": Kfull, "beta": beta,
                        "alpha": {ik: x0sq * (A[ik] @ beta) for ik in range(self.nk)}})
        s1, s2 = out
        ev = np.linalg.eigvalsh(s1["Kfull"])
        sol = dict(s1)
        unc = self._unc
        E = np.zeros((n, n))
        for ik in range(self.nk):
            E += np.outer(unc["dKmn"][ik], np.sum(np.abs(s1["A"][ik]), axis=0))
        dKin = x0sq * float(np.max(E + E.T)) + float(np.max(2 * nfac * sig * unc["dsig"])) if n else 0.0
        dyv = float(np.max(unc["dy"])) if n else 0.0
        lam_min = float(max(ev[0], 1e-300))
        ab = np.abs(s1["beta"])
        afl = {}
        for ik in range(self.nk):
            iK = np.abs(np.linalg.inv(Kj[ik]))
            afl[ik] = x0sq * (float(np.max(iK @ np.ones(len(iK)))) * float(unc["dKmn"][ik] @ ab)
                              + float(np.max(np.abs(s1["A"][ik]))) * (dyv * n + dKin * float(np.sum(ab))) * n / lam_min)
        sol.update({"nvar": nvar, "y": y, "cond_mm": max(conds), "cond_K": float(ev[-1] / max(ev[0], 1e-300)),
                    "lam_min": float(max(ev[0], 1e-300)), "x0sq": x0sq, "Kmn": Kmn, "Kj": Kj, "n": n,
                    "normK": float(ev[-1]), "dKs": float(np.max(np.abs(s1["Kcov"] - s2["Kcov"]))),
                    # rounding-level uncertainty of the reaction covariance and of the forward quantities
                    "dy": dyv, "dKmn": unc["dKmn"], "afl": afl,
                    "dK": 100 * float(np.max(np.abs(s1["Kcov"] - s2["Kcov"]))) * n + 300 * U * n * float(ev[-1]) + dKin,
                    "dpred": 100 * float(np.max(np.abs(s1["Kcov"] @ s1["beta"] - s2["Kcov"] @ s2["beta"]))),
                    "dalpha": {ik: 100 * float(np.max(np.abs(s1["alpha"][ik] - s2["alpha"][ik]))) for ik in range(self.nk)}})
        return sol

    def compare_fit(self, sol, tagx):
        """(1) the weights solve the documented system: backward error of both solves (sharp, no condition number),
        forward comparison in prediction space and in alpha space; (2) the residual law"""
        ctx = self.ctx
        y, beta, n = sol["y"], sol["beta"], sol["n"]
        modes = "+".join(sorted(set(self.mode_of(ik) for ik in range(self.nk))))
        pred_model = sol["Kcov"] @ beta
        pred_code = np.zeros(n)
        alphas = {}
        for ik in range(self.nk):
            a = self.dk[ik].alpha
            ctx.check(a is not None and np.shape(a) == (self.ctrl[ik].shape[-2],), ("alpha_shape", self.mode_of(ik)))
            ctx.finite(a, ("alpha", self.mode_of(ik)))
            alphas[ik] = np.asarray(a, dtype=float)
            pred_code += sol["Kmn"][ik].T @ alphas[ik]
        scale = max(float(np.max(np.abs(y))), float(np.max(np.abs(pred_model))), 1e-300)
        nb1 = float(np.sum(np.abs(beta)))
        floor = sol["dpred"] + sol["dK"] * nb1 + sol["dy"] + sum(
            float(np.max(sol["dKmn"][ik])) * float(np.sum(np.abs(alphas[ik]))) for ik in range(self.nk))
        fr = floor / (1e-8 * scale)
        ctx.event("prediction_tolerance(relative): " + ("1e-8" if fr <= 1 else "<=1e-6" if fr <= 100 else "<=1e-4" if fr <= 1e4 else ">1e-4 (tiny noise / ill-conditioned)"))
        rawerr = float(np.max(np.abs(pred_code - pred_model)))
        ctx.measure("prediction_error_over_rounding_floor", rawerr / (floor + 1e-300))
        ctx.close(pred_code, pred_model, ("alpha_prediction_space", tagx, modes), rtol=1e-8, atol=floor, scale=scale,
                  cond_mm=sol["cond_mm"], cond_K=sol["cond_K"])
        # (2) residual law: K_cov alpha_mol - y = -(Sigma_noise + eps I) alpha_mol
        ctx.close(pred_code - y, -sol["nvar"] * beta, ("residual_law", tagx, modes), rtol=1e-8, atol=floor, scale=scale)
        # backward error, from the observables only: beta~ = (Sigma+eps)^-1 (y - prediction), then
        # (Kmm + eps) alpha_k = x0^2 Kmn_k beta~ must hold to rounding.  beta~ inherits |dK||beta|/min(noise var).
        bt = (y - pred_code) / sol["nvar"]
        amp = (300 * U * n * sol["normK"] * float(np.linalg.norm(bt)) + 1e-14 * scale + floor) / float(np.min(sol["nvar"]))
        for ik in range(self.nk):
            Kj, Kmn = sol["Kj"][ik], sol["Kmn"][ik]
            lhs = Kj @ alphas[ik]
            rhs = sol["x0sq"] * (Kmn @ bt)
            mag = float(np.max(np.abs(Kj) @ np.abs(alphas[ik]))) + sol["x0sq"] * float(np.max(np.abs(Kmn) @ np.abs(bt)))
            fl = sol["x0sq"] * (float(np.max(np.sum(np.abs(Kmn), axis=1))) * amp + float(sol["dKmn"][ik] @ np.abs(bt)))
            ctx.close(lhs, rhs, ("linear_system_backward_error", tagx, self.mode_of(ik)), rtol=1e-9, atol=fl, scale=mag)
        # the same with the reaction weights the model stores (alpha_mol_): no amplification, sharp at any noise level
        bh = np.asarray(self.gp.alpha_mol_, dtype=float)
        ctx.check(bh.shape == (n,), ("alpha_mol_shape",))
        nbh = float(np.sum(np.abs(bh)))
        ctx.close(sol["Kfull"] @ bh, y, ("reaction_system_backward_error", tagx, modes), rtol=1e-9,
                  atol=sol["dK"] * nbh + sol["dy"],
                  scale=float(np.max(np.abs(sol["Kfull"]) @ np.abs(bh))) + scale)
        for ik in range(self.nk):
            Kj, Kmn = sol["Kj"][ik], sol["Kmn"][ik]
            mag = float(np.max(np.abs(Kj) @ np.abs(alphas[ik]))) + sol["x0sq"] * float(np.max(np.abs(Kmn) @ np.abs(bh)))
            ctx.close(Kj @ alphas[ik], sol["x0sq"] * (Kmn @ bh), ("control_system_backward_error", tagx, self.mode_of(ik)),
                      rtol=1e-9, atol=sol["x0sq"] * float(sol["dKmn"][ik] @ np.abs(bh)), scale=mag)
        if sol["cond_mm"] <= 1e8:
            for ik in range(self.nk):
                am = sol["alpha"][ik]
                ctx.close(alphas[ik], am, ("alpha", tagx, self.mode_of(ik)), rtol=1e-8 * sol["cond_mm"],
                          atol=sol["dalpha"][ik] + sol["afl"][ik]
                          + float(np.max(np.abs(sol["A"][ik]))) * sol["x0sq"] * sol["dK"] * nb1 / sol["lam_min"],
                          scale=float(np.max(np.abs(am))) + 1e-300, cond_mm=sol["cond_mm"], cond_K=sol["cond_K"])
        else:
            ctx.event("alpha_space_skipped_cond>1e8")

    def op_fit(self, op):
        ctx = self.ctx
        x = None if op.get("x") is None else np.array(op["x"], dtype=float)
        smin = op.get("smin")
        if not self.hs.rxns:
            return self.op_fit_empty()
        if self.unmodelled:
            return
        with quiet():
            if x is None:
                self.gp.fit()
            else:
                self.gp.fit(x=x.copy(), sigma_min=smin)
        Kmn, y, sig = self.assemble()
        sol = self.solve(Kmn, y, sig, x, smin)
        tagx = "fit()" if x is None else "fit(x,sigma_min)"
        self.compare_fit(sol, tagx)
        self.lastfit = sol
        self.lastfit_args = (x, smin)
        self.lastfit_rxns = list(self.hs.rxns)
        self.hs.fitted = True
        # metamorphic (code vs code): same reaction multiset + same arguments => same weights
        key = (sorted(_canon(r) for r in self.hs.rxns), None if x is None else (list(x), smin))
        alphas = [np.array(self.dk[ik].alpha) for ik in range(self.nk)]
        if self.lastalpha is not None and self.lastalpha[0] == key:
            for ik in range(self.nk):
                ctx.close(alphas[ik], self.lastalpha[1][ik], ("readd_invariance", self.mode_of(ik)),
                          rtol=1e-9 * max(1.0, sol["cond_mm"] * 1e-3), atol=2 * (sol["dalpha"][ik] + sol["afl"][ik]),
                          scale=float(np.max(np.abs(alphas[ik]))) + 1e-300)
            ctx.event("readd_invariance_checked")
        self.lastalpha = (key, alphas)
        self.classify_fit(sol)

    def classify_fit(self, sol):
        ctx = self.ctx
        K = sol["Kcov"]
        d = np.sqrt(np.maximum(np.diag(K), 1e-300))
        off = np.abs(K / d[:, None] / d[None, :])
        np.fill_diagonal(off, 0.0)
        self.nondiag = bool(off.size and off.max() > 1e-3)
        ctx.event("cond_mm<=1e4" if sol["cond_mm"] <= 1e4 else "cond_mm<=1e6" if sol["cond_mm"] <= 1e6 else
                  "cond_mm<=1e8" if sol["cond_mm"] <= 1e8 else "cond_mm>1e8")
        ctx.event("cond_K<=1e6" if sol["cond_K"] <= 1e6 else "cond_K<=1e10" if sol["cond_K"] <= 1e10 else "cond_K>1e10")

    def op_fit_empty(self):
        try:
            with quiet():
                self.gp.fit()
        except Exception as e:
            self.ctx.event("fit_without_reactions_raises_" + type(e).__name__)
            return
        self.ctx.check(False, ("fit_without_reactions_accepted",))

    def op_lik(self, op):
        ctx = self.ctx
        if self.lastfit is None:
            return
        x = None if op.get("x") is None else np.array(op["x"], dtype=float)
        smin = op.get("smin")
        with quiet():
            got = self.gp.compute_likelihood() if x is None else self.gp.compute_likelihood(x.copy(), sigma_min=smin)
        xe, se = (np.array([1.0, 1.0]), 0.25) if x is None else (x, smin)   # documented defaults
        f = self.lastfit
        Kf = xe[0] ** 2 * f["Kcov"] + (se + xe[1] ** 2) * np.diag(f["nvar"])
        y = f["y"]
        lam, V = np.linalg.eigh(Kf)
        lam = np.maximum(lam, 1e-300)
        quad = float(np.sum((V.T @ y) ** 2 / lam))
        logdet = float(np.sum(np.log(lam)))
        n = len(y)
        want = -0.5 * quad - 0.5 * logdet - 0.5 * n * np.log(2 * np.pi)
        cnd = float(lam[-1] / lam[0])
        if cnd < 1e8:
            from scipy.stats import multivariate_normal

            ref = float(multivariate_normal(mean=np.zeros(n), cov=Kf, allow_singular=False).logpdf(y))
            assert abs(ref - want) <= 1e-7 * (abs(quad) + abs(logdet) + n), "oracle self-test (scipy vs eigen formula)"
            want = ref
        bl = V @ ((V.T @ y) / lam)
        tol_floor = (xe[0] ** 2 * f["dK"] + 300 * U * n * float(lam[-1])) * (float(bl @ bl) + n / float(lam[0])) \
            + 2 * float(np.sum(np.abs(bl))) * f["dy"]
        ctx.close(got, want, ("likelihood", "default_args" if x is None else "x,sigma_min"), rtol=1e-8, atol=tol_floor,
                  scale=abs(quad) + abs(logdet) + n, cond=cnd)
        ctx.event("likelihood_checked")

    # ---- final stages -----------------------------------------------------------------------------
    def final_ladder(self):
        """residual -> 0 with the noise: re-add the same reactions with all noises scaled by lambda"""
        ctx = self.ctx
        rx = list(self.hs.rxns)
        if not rx:
            return
        Kmn, y, sig = self.assemble(rx)
        res = []
        for lam in (1.0, 1e-1, 1e-2, 1e-3):
            rl = []
            for r, s in zip(rx, sig):
                r2 = {k: v for k, v in r.items() if k not in ("noise", "noise_factor", "noise_rel_factor", "weight")}
                r2["noise"] = float(s * lam)
                rl.append(r2)
            self.op_reset()
            self.op_add(rl)
            with quiet():
                self.gp.fit()
            sol = self.solve(Kmn, y, sig * lam, None, None)
            self.compare_fit(sol, "noise_ladder")
            pred = sum(sol["Kmn"][ik].T @ np.asarray(self.dk[ik].alpha) for ik in range(self.nk))
            res.append(float(np.max(np.abs(pred - y))))
            bound = float(np.max(sol["nvar"]) * np.max(np.abs(sol["beta"]))) * (1 + 1e-6) + sol["dpred"] + \
                sol["dK"] * float(np.sum(np.abs(sol["beta"]))) + 1e-8 * float(np.max(np.abs(y))) + sol["dy"] + sum(
                    float(np.max(sol["dKmn"][ik])) * float(np.sum(np.abs(self.dk[ik].alpha))) for ik in range(self.nk))
            ctx.check(res[-1] <= bound, ("residual_exceeds_noise_bound",), residual=res[-1], bound=bound, lam=lam)
        self.lastfit = None
        self.lastalpha = None
        if res[0] > 0 and res[-1] < 1e-2 * res[0]:
            ctx.event("ladder_residual_vanishes(>100x)")
        else:
            ctx.event("ladder_residual_limited_by_rank")

    def final_retrain(self):
        """a second training round on the SAME model and kernel objects: new control points (the same candidate systems,
        every dense-point index shifted by one), every system stored again, reactions reset and re-added, fit.  The
        weights must solve the documented system for the control points now in force (K_mm, K_mn, labels and noises all
        recomputed by the model); nothing of the first round may survive in the objects."""
        case, ctx = self.case, self.ctx
        rx = list(self.lastfit_rxns)
        x, smin = self.lastfit_args
        pick2 = [[isys, [int(p) + 1 for p in pts]] for isys, pts in case["ctrl"]["pick"]]
        x0t = self.mod.ctrl_x0t(pick2)
        if not case["ctrl"]["reduce"]:
            x0t = self.well_conditioned(x0t)
        self.x0t_list = x0t
        with quiet():
            self.gp.set_control_points([a.copy() for a in x0t], reduce=case["ctrl"]["reduce"])
        self.ctrl = {ik: np.array(self.dk[ik].X1ctrl, dtype=float, order="C") for ik in range(self.nk)}
        self.cache = {}
        self.check_ctrl()
        self.hs = G.HistState([case["kernels"][ik]["component"] for ik in self.order],
                              [s["orbs"] for s in case["systems"]],
                              modes=[case["kernels"][ik]["mode"] for ik in self.order],
                              allow=case.get("allow", []), gp2=case["gp2"])
        with quiet():
            self.gp.reset_reactions()
        self.lastalpha = None
        for op in case["ops"]:
            if op["op"] == "store":
                self.op_store(op)
        self.op_add(rx)
        if len(self.hs.rxns) != len(rx):
            ctx.event("retrain_skipped(reaction not addable)")
            return
        ctx.event("retrained_on_same_objects")
        self.op_fit({"op": "fit", "x": None if x is None else [float(v) for v in x], "smin": smin})

    def final_map(self):
        """the weights are those of the documented predictive function f(x) = sum_a k(x, x~_a) alpha_a: the mapped
        model integrated over a stored system equals covariance-vector . alpha + baseline"""
        ctx = self.ctx
        if self.case["gp2"] or any(self.mode_of(ik) == "POL" for ik in range(self.nk)):
            return
        if any(self.dk[ik].alpha is None for ik in range(self.nk)):
            return
        from ciderpress.dft.xc_evaluator import KernelEvaluator

        with quiet():
            mapped = self.gp.map([(lambda dk: KernelEvaluator(dk.kernel, dk.X1ctrl, dk.alpha))] * self.nk)
        done = 0
        for i in sorted(set.intersection(*[set(c) for c in self.hs.cov])) if self.nk else []:
            sid = "s%d" % i
            s = self.mod.sys[sid]
            X0T = self.gp._get_normalized_features(s.desc.copy())
            with np.errstate(all="ignore"):
                e, _ = mapped(X0T, rhocut=G.RHOCUT)
            got = float(np.dot(e, s.wt))
            want, mag = 0.0, 0.0
            for ik in range(self.nk):
                v, b = self.vec(ik, sid)
                a = np.asarray(self.dk[ik].alpha)
                want += float(v @ a) + b
                mag += float(np.abs(v) @ np.abs(a)) + abs(b)
            ctx.close(got, want, ("map_integral",), rtol=1e-9, scale=mag + 1e-300, sid=sid)
            done += 1
            if done >= 2:
                break
        if done:
            ctx.event("map_integral_checked")


def _has_dup(cand, sc):
    d = np.max(np.abs(cand[:, None, :] - cand[None, :, :]), axis=2)
    np.fill_diagonal(d, 1.0)
    return bool(d.min() <= 1e-12 * sc)


def _canon(r):
    import json

    return json.dumps(r, sort_keys=True)


@contextlib.contextmanager
def quiet():
    with open(os.devnull, "w") as f, contextlib.redirect_stdout(f):
        yield


@contextlib.contextmanager
def dataset_dir(tag):
    _counter[0] += 1
    root = G.tmp_root("%s_%d" % (tag, _counter[0]))
    try:
        yield root
    finally:
        shutil.rmtree(root, ignore_errors=True)


def run_history(case, ctx, tag):
    with dataset_dir(tag) as root, np.errstate(all="ignore"):
        run = Run(case, ctx, os.path.join(root, "a"))
        run.check_ctrl()
        had_reset = had_deriv = False
        for op in case["ops"]:
            o = op["op"]
            if op.get("excluded_known"):
                ctx.event("excluded_known:" + op["excluded_known"])
            if o == "store":
                run.op_store(op)
                if not op["corr"] and case["kernels"][0]["component"] != "x":
                    ctx.event("region:get_correlation=False_with_non-exchange_first_kernel")
            elif o == "add":
                for r in op["rxns"]:
                    if r.get("excluded_known"):
                        ctx.event("excluded_known:" + r["excluded_known"])
                run.op_add(op["rxns"])
            elif o == "reset":
                run.op_reset()
                had_reset = True
            elif o == "fit":
                run.op_fit(op)
            elif o == "fit_empty":
                if not run.hs.rxns:
                    run.op_fit_empty()
            elif o == "lik":
                run.op_lik(op)
            elif o == "permute":
                run.op_readd(op, True)
                had_reset = True
            elif o == "readd":
                run.op_readd(op, False)
                had_reset = True
            else:
                raise ValueError(o)
        rx = run.hs.rxns
        had_deriv = any(isinstance(s, (list, tuple)) for r in rx for s in r["structs"])
        # ---- classification -------------------------------------------------------------------------
        modes = sorted(set(k["mode"] for k in case["kernels"]))
        for m in modes:
            ctx.event("mode=" + m)
        ctx.event("kernels=%d" % len(case["kernels"]))
        ctx.event("components=" + "+".join(k["component"] for k in case["kernels"]))
        ctx.event("reduce=%s" % case["ctrl"]["reduce"])
        if had_reset:
            ctx.event("history_with_reset")
        if had_deriv:
            ctx.event("history_with_derivative_entries")
        if any(r["mode"] == 2 for r in rx):
            ctx.event("has_mode2_reaction")
        if any(r["mode"] == 0 for r in rx):
            ctx.event("has_mode0_reaction")
            if any(k["mode"] == "POL" and k["component"] != "x" for k in case["kernels"]):
                ctx.event("region:mode0_reaction_with_POL_c/xc_kernel")
        if had_deriv and any(k["mode"] == "POL" and k["component"] == "x" for k in case["kernels"]):
            ctx.event("region:derivative_entries_with_POL_x_kernel")
        for k in ("noise", "noise_factor", "noise_rel_factor", "weight"):
            if any(r.get(k) is not None for r in rx):
                ctx.event("option=" + k)
        if any(s["ng"] > 10000 for s in case["systems"]):
            ctx.event("system_with_two_blocks(>10000 points)")
        if len(set(s["nspin"] for s in case["systems"])) == 2:
            ctx.event("mixed_nspin_dataset")
        if any(s["nlowB"] or s["nlowC"] for s in case["systems"]):
            ctx.event("has_masked_points")
        mixed = any(len(r["structs"]) > 1 and min(r["counts"]) < 0 < max(r["counts"]) for r in rx)
        if run.lastfit is not None and len(rx) >= 3 and mixed and getattr(run, "nondiag", False):
            ctx.nontrivial([case["seed"], modes, [k["component"] for k in case["kernels"]], case["slmode"], had_reset, had_deriv,
                            len(rx), case["ctrl"]["reduce"], [s["nspin"] for s in case["systems"]],
                            [o["op"] for o in case["ops"]],
                            [[r["mode"], [isinstance(x, (list, tuple)) for x in r["structs"]], r["counts"],
                              sorted(k for k in ("noise", "noise_factor", "noise_rel_factor", "weight", "unit") if r.get(k) is not None)]
                             for r in rx],
                            [[k["mul"], k["add"], [m["code"] for m in k["maps"]]] for k in case["kernels"]]])
        # ---- final stages -----------------------------------------------------------------------------
        fin = case.get("final", [])
        if "map" in fin and run.lastfit is not None:
            run.final_map()
        if "fresh" in fin and run.lastfit is not None and rx:
            final_fresh(case, ctx, run, os.path.join(root, "b"))
        if "ladder" in fin and rx:
            run.final_ladder()
        if "retrain" in fin and run.lastfit is not None and rx:
            run.final_retrain()


def final_fresh(case, ctx, run, root):
    """O-fresh + permutation: a new model with the kernels in reversed order, all systems stored in reversed order
    in a single call and the reactions added in a permuted order must give the same weights (per kernel)."""
    nk = len(case["kernels"])
    order = list(range(nk))[::-1]
    r2 = Run(case, ctx, root, order=order)
    # replay stores per original op (same flags), systems reversed inside each call
    for op in case["ops"]:
        if op["op"] == "store":
            op2 = dict(op, sys=list(op["sys"])[::-1])
            r2.op_store(op2)
    rx = list(run.lastfit_rxns)
    perm = rng_from(case["seed"] + 17).permutation(len(rx))
    r2.op_add([rx[i] for i in perm])
    if len(r2.hs.rxns) != len(rx):
        ctx.event("fresh_skipped(reaction not addable)")
        return
    x, smin = run.lastfit_args
    with quiet():
        if x is None:
            r2.gp.fit()
        else:
            r2.gp.fit(x=x.copy(), sigma_min=smin)
    sol = run.lastfit
    for ik in range(nk):
        a1 = np.asarray(run.dk[ik].alpha)
        a2 = np.asarray(r2.dk[ik].alpha)
        ctx.check(a1.shape == a2.shape, ("fresh_permuted", "shape"))
        fl = 2 * (sol["dalpha"][ik] + sol["afl"][ik])
        ctx.close(a2, a1, ("fresh_permuted", run.mode_of(ik)), rtol=1e-9 * max(1.0, sol["cond_mm"] * 1e-3), atol=fl,
                  scale=float(np.max(np.abs(a1))) + 1e-300)
    ctx.event("fresh_permuted_checked")


# ================================================================================================
# sub-checks

RULE = ("history = synthetic data set on disk (2-6 systems, 6-90 points, 2.5% of systems with >10000 points = two integration "
        "blocks; nspin 1/2 mixed; points below the 1e-6 masking density incl. zero/negative densities with large weights; 4 "
        "semilocal modes; 0-5 nonlocal feature rows in separate NLDF/SDMX files with drawn normalisers) x 1-3 kernels "
        "(components x/c/xc, modes SEP/NPOL/POL, 1-3 feature maps of 9 classes, sums/powers of constant*RBF kernels, native "
        "baselines) x control points with pivoted-Cholesky reduction or an unreduced set built so that cond(Kmm+eps)<=1e6 x "
        "drawn operation list (store_mol_covs(subset, get_orb_deriv None/True/False/per-kernel list, get_correlation), "
        "add_reactions, reset_reactions, fit(), fit(x,sigma_min), compute_likelihood, permute-and-re-add, reset-and-re-add, "
        "fit without reactions) + final stages (fresh model with reversed kernel/system/reaction order; noise ladder "
        "1..1e-3; mapped model integral; a second training round on the same model and kernel objects with shifted control points, all systems stored again, reactions reset and re-added). Oracle: independent numpy model of covariance vectors, baselines, "
        "occupation-derivative vectors (complex step), reaction rows/labels/noises from counts, units and options; then "
        "alpha vs Kmm^-1 Kmn (sum_k Knm Kmm^-1 Kmn + Sigma + eps)^-1 y with eps=1e-9 in both solves. Tolerances: backward "
        "error of both linear systems 1e-9 (no condition number); prediction space and residual law 1e-8 relative plus a "
        "rounding floor = 100 x spread between an LU and a Cholesky solution of the model + 300*u*n*|K|*|beta|_1 (the "
        "forward error two backward-stable solvers may legitimately differ by; histogram `prediction_tolerance`); alpha "
        "space 1e-8*cond(Kmm+eps) when cond<=1e8. Non-trivial: last fit has >=3 reactions, >=1 multi-system reaction with "
        "mixed-sign counts, reaction covariance not diagonal (normalised off-diagonal > 1e-3); distinct by data seed + "
        "structure (modes, components, baselines, feature-map classes, operation list, nspin pattern, per-reaction "
        "mode/entry kinds/counts/options). POL kernels with derivative data (incl. nspin 1), POL c/xc kernels with mode-0 "
        "reactions and get_correlation=False with a non-exchange first kernel are inside the domain (defects fixed in the "
        "repository). Excluded by construction and counted as excluded_known:* (open findings, own reproducer sub-checks "
        "defect_*): (system, orbital) entries in mode-2 reactions, MOLGP2 reading derivative data.")
TOL = {"backward_error_rtol": 1e-9, "prediction_space_rtol": "1e-8 + rounding floor (see rule)",
       "alpha_rtol": "1e-8*cond(Kmm+eps)", "cov_rtol": 1e-10, "base_rtol": 1e-11, "dcov_rtol": 1e-9,
       "likelihood_rtol": "1e-8 of |quad|+|logdet|+n + rounding floor", "metamorphic_rtol": "1e-9*max(1,1e-3*cond)",
       "map_integral_rtol": 1e-9}


@subcheck("C16", "history", lambda: st_history(gp2=False), quick=800, thorough=30000, rule=RULE, tolerances=TOL,
          assumptions=["training files follow the layout read by MOLGP.load_data (no real data set exists in the sandbox)",
                       "get_orb_deriv=None is used only with lists that are homogeneous in derivative data"])
def history(case, ctx):
    run_history(case, ctx, "h")


@subcheck("C16", "history_gp2", lambda: st_history(gp2=True), quick=240, thorough=8000,
          rule="same histories for MOLGP2/DFTKernel2 (libxc baselines LDA_X, GGA_X_PBE, MGGA_X_R2SCAN, and GGA_C_PBE / "
               "LDA_C_PW_MOD for NPOL/POL) without occupation derivatives; baseline oracle = PySCF's own libxc interface "
               "with the documented spin scaling for SEP; otherwise as `history`",
          tolerances=TOL, assumptions=["libxc through pyscf.dft.libxc is the reference for the DFTKernel2 baselines"])
def history_gp2(case, ctx):
    run_history(case, ctx, "g")


# ------------------------------------------------------------------------------------------------
# Reproducers of the two OPEN known findings (known_findings.json: K-C16-deriv-mode2, K-C16-gp2-deriv).  Each lives in a
# region the generators above exclude by construction (HistState rules, "excluded region" comments; the number of
# excluded draws is reported as `excluded_known:*` events), has its own sub-check and therefore its own signature, and
# runs the shortest script that enters the region.  The three defects that were fixed in the repository (POL kernel
# derivatives, DFTKernel.Nctrl for POL, reference data tied to kernel 0) are now inside the domain of `history`; their
# original cases are kept as regression replays replays/C16/fixed_*.json.

DEFECT_RULE = ("reproducer: short fixed script (store all systems, add 2-4 reactions, fit, likelihood) entering a region that "
               "`history` excludes by construction because of an open known finding; oracle and tolerances as in `history`")


@subcheck("C16", "defect_deriv_mode2",
          lambda: st_history(allow=("deriv_mode2",), big_ok=False,
                             force={"kernels": [("x", "SEP"), ("c", "NPOL")], "deriv_all": True, "script": "store_deriv",
                                    "rxn_mode": 2, "want_tuple": True}),
          quick=8, thorough=60, rule=DEFECT_RULE + "; region: (system, orbital) entries in a mode-2 (XC) reaction; only acceptance "
          "is decided (the label needs dE_0/df_i, which the training files do not carry)", tolerances=TOL, shrink=False)
def defect_deriv_mode2(case, ctx):
    run_history(case, ctx, "d3")


@subcheck("C16", "defect_gp2_deriv",
          lambda: st_history(gp2=True, allow=("gp2_deriv",), big_ok=False,
                             force={"kernels": [("x", "SEP")], "deriv_all": True, "script": "store_deriv", "rxn_mode": 0}),
          quick=8, thorough=60, rule=DEFECT_RULE + "; region: MOLGP2.store_mol_covs with occupation-derivative data (only "
          "completion and the non-derivative quantities are decided)", tolerances=TOL, shrink=False)
def defect_gp2_deriv(case, ctx):
    run_history(case, ctx, "d5")
