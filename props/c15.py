"""C15 -- covariance kernels are valid and their gradients match their values.

Every sub-check draws a kernel *expression* from the G-kernel grammar (cpverif/gen_kernel.py) and walks it
bottom-up: a relation is checked on every sub-kernel, children before parents, so the first node at which it
fails is the one whose own code is responsible.  Signatures are
(sub-check, relation or exception type, implementation family, configuration class).
"""
import copy

import numpy as np
from hypothesis import strategies as st

from cpverif import gen_kernel as G
from cpverif.oracles import fd_check_vec, rng_from
from cpverif.runner import Skip, Violation, subcheck

ALL_LEAVES = ["RBF", "RBF", "Const", "White", "Linear", "Poly", "Poly", "ARBF", "ARBF", "ARBFV2", "ARBFV2", "AddRQ",
              "AddRQ", "AddLLRBF", "AddLLRBF", "AntisymRBF", "PartialRBF", "PartialARBF", "Subset", "Subset", "Subset",
              "SpinSym", "SpinSym", "SpinSym"]
PLAIN_LEAVES = ["SingleRBF", "SingleDot", "DensityNoise", "ExpDensityNoise", "FittedDensityNoise", "QARBF"]
# leaves whose k_and_deriv works on the unchanged tree up to order 3: used where the *composition* is the subject
SOUND_KDERIV_LEAVES = ["RBF", "RBF", "Const", "Poly", "ARBF", "ARBFV2", "AddRQ", "AddLLRBF", "Subset", "Subset", "SpinSym"]


def _sig(rel, spec):
    return (rel, G.family(spec), G.cfg(spec))


def _finite_or_skip(K, spec):
    if not np.all(np.isfinite(K)):
        # products of powers of polynomial kernels can overflow double precision: outside the numeric domain
        types = set(s["t"] for s in G.all_nodes(spec)) | set(G.base_type(s) for s in G.all_nodes(spec))
        if types & {"Poly", "Linear", "SingleDot", "DensityNoise", "ExpDensityNoise"}:
            raise Skip()


def _matrix(ctx, K, shape, sub, what="value_shape"):
    """kernel outputs must be arrays of the documented shape (a python scalar broadcasts silently elsewhere)"""
    K = np.asarray(K)
    ctx.check(K.shape == tuple(shape), (what, G.family(sub), G.cfg(sub)), got=list(K.shape), want=list(shape), cls=G.cls_name(sub))
    return K


def _nontrivial(ctx, case, spec, X):
    composite = bool(G.children(spec))
    non_sklearn = any(s["t"] not in ("RBF", "Const", "White") for s in G.all_nodes(spec))
    if (composite or non_sklearn) and G.n_distinct_rows(X) >= 3:
        ctx.nontrivial([G.describe(spec), sorted(set(G.cfg(s) for s in G.all_nodes(spec))), len(X), case["nf"]])


def _events(ctx, spec):
    ctx.event("root=" + spec["t"])
    for s in G.all_nodes(spec):
        if not G.children(s):
            ctx.event("leaf=" + G.cls_name(s) + ("" if G.cfg(s) == "std" else "[" + G.cfg(s) + "]"))


def _XY(case, spec):
    pos = G.needs_positive(spec)
    X = G.as_matrix(case["X"], pos)
    Y = G.as_matrix(case["Y"], pos) if case.get("Y") is not None else None
    return X, Y


@st.composite
def st_case(draw, leaves, composites, depth=3, with_y=True, nmax=12, max_order=5, nfmin=2, nfmax=6, allow_neg=True,
            min_order=0):
    nf = draw(st.integers(nfmin, nfmax))
    spec = draw(G.st_tree(nf, depth=depth, leaves=leaves, composites=composites, allow_neg=allow_neg, max_order=max_order,
                          min_order=min_order))
    # far-apart rows are for the stationary kernels; polynomial-type factors (x.y) would only inflate magnitudes
    far = not (set(G.base_type(s) for s in G.all_nodes(spec)) & {"Poly", "Linear", "SingleDot", "AddLLRBF"})
    X = draw(G.st_samples(nf, 2, nmax, structure=True))
    if not far:
        X = [[v if abs(v) < 5 else (v - 23.0 if v > 0 else v + 23.0) for v in r] for r in X]
    Y = None
    if with_y:
        Y = draw(G.st_samples(nf, 1, 8, structure=False))
        if draw(st.integers(0, 2)) == 0:
            Y[0] = list(X[draw(st.integers(0, len(X) - 1))])  # coincident point in X and Y
    return {"nf": nf, "kernel": spec, "X": X, "Y": Y}


# =================================================================================================
# 1. Gram-matrix validity

def st_gram():
    return st_case(ALL_LEAVES + PLAIN_LEAVES, G.COMPOSITES)


@subcheck("C15", "gram", st_gram, quick=2500, thorough=40000,
          rule="kernel expression of depth <= 3 over every class of models/kernels.py (leaves incl. Subset*/SpinSym* with "
               "list/tuple/slice indexes, Partial*, Single*, noise kernels, QARBF; nodes + * ** DiffTransform ADKernel "
               "SpinSymKernel built through operators or classes), hyper-parameters inside their bounds, some 'fixed'; X 2-12 "
               "rows x 2-6 features drawn element-wise with duplicated and far-apart rows, Y 1-8 rows sharing a point with X; "
               "additive orders 0..min(5, number of features); on every sub-kernel: K(X,X) symmetric (1e-12), PSD (lambda_min "
               ">= -1e-9 lambda_max), K(X,Y)=K(Y,X)^T, diag(X)=diag K(X), K(X)=K(X,X) when no noise term; 1e-12 is relative, "
               "entry by entry, to max(largest entry, forward error model of the expression: sum of absolute terms of signed "
               "sums, Newton-Girard intermediates of additive kernels); non-trivial = composite node or non-sklearn leaf and "
               ">= 3 distinct rows; distinct by (expression shape, config classes, n, nf)",
          tolerances={"sym_rtol": 1e-12, "psd_rel": 1e-9, "diag_rtol": 1e-12,
                      "why": "rounding-level identities (DESIGN 3.5); the error model only ever loosens the scale"})
def gram(case, ctx):
    spec = case["kernel"]
    X, Y = _XY(case, spec)
    _events(ctx, spec)
    _nontrivial(ctx, case, spec, X)
    noise_types = {"White", "DensityNoise", "ExpDensityNoise", "FittedDensityNoise"}
    for sub, Xs, Ys in G.walk(spec, X, Y):
        k = G.build(sub)
        fam, cf = G.family(sub), G.cfg(sub)
        K = _matrix(ctx, G.guard(ctx, _sig("call", sub), lambda: k(Xs)), (len(Xs), len(Xs)), sub)
        _finite_or_skip(K, sub)
        # rounding-level identities are judged entry by entry against the forward error model of the expression
        R = G.error_model(sub, Xs, None)[1]
        if not np.all(np.isfinite(R)):
            raise Skip()
        # (never tighter than the plain "relative to the largest entry" of DESIGN 3.5)
        Rs = np.maximum(np.maximum(R, R.T), max(float(np.max(np.abs(K))), 1e-300))
        ctx.close(K / Rs, K.T / Rs, ("symmetry", fam, cf), rtol=1e-12, scale=1.0, cls=G.cls_name(sub))
        KXY = _matrix(ctx, G.guard(ctx, _sig("call_xy", sub), lambda: k(Xs, Ys)), (len(Xs), len(Ys)), sub)
        KYX = _matrix(ctx, G.guard(ctx, _sig("call_xy", sub), lambda: k(Ys, Xs)), (len(Ys), len(Xs)), sub)
        _finite_or_skip(KXY, sub)
        Rc = np.maximum(np.maximum(G.error_model(sub, Xs, Ys)[1], G.error_model(sub, Ys, Xs)[1].T),
                        max(float(np.max(np.abs(KXY))), float(np.max(np.abs(K))), 1e-300))
        ctx.close(KXY / Rc, KYX.T / Rc, ("cross_transpose", fam, cf), rtol=1e-12, scale=1.0, cls=G.cls_name(sub))
        d = _matrix(ctx, G.guard(ctx, _sig("diag", sub), lambda: k.diag(Xs)), (len(Xs),), sub, "diag_shape")
        ctx.close(d / np.diag(Rs), np.diag(K) / np.diag(Rs), ("diag", fam, cf), rtol=1e-12, scale=1.0, cls=G.cls_name(sub),
                  diag_method=[float(v) for v in d[:4]], diag_of_K=[float(v) for v in np.diag(K)[:4]])
        if not (set(s["t"] for s in G.all_nodes(sub)) & noise_types):
            KXX = G.guard(ctx, _sig("call_xy", sub), lambda: k(Xs, Xs.copy()))
            ctx.close(KXX / Rs, K / Rs, ("y_none_equals_y_x", fam, cf), rtol=1e-13, scale=1.0)
        w = np.linalg.eigvalsh(0.5 * (K + K.T))
        lmax = max(float(w[-1]), 0.0)
        slack = 1e-12 * len(Xs) * float(np.max(Rs))
        ctx.measure("psd", (-float(w[0]) / (1e-9 * lmax + slack)) if lmax > 0 else 0.0)
        ctx.check(w[0] >= -1e-9 * max(lmax, 1e-300) - slack, ("psd", fam, cf),
                  lambda_min=float(w[0]), lambda_max=float(w[-1]), cls=G.cls_name(sub))


# =================================================================================================
# 2. Composition algebra and closed forms (no finite differences)

def st_algebra():
    return st_case(ALL_LEAVES + PLAIN_LEAVES, G.COMPOSITES, max_order=5, min_order=-1)


@subcheck("C15", "algebra", st_algebra, quick=2500, thorough=40000,
          rule="same expressions as `gram`; every node is compared with the same operation applied to its operands' own "
               "outputs: Sum/Product/Exponentiation (value, theta-gradient layout, k_and_deriv product/chain rule, diag), "
               "Subset*/Partial*/Single*/ADKernel = base kernel on the selected columns with the input gradient scattered "
               "back, SpinSym* = sum over the four spin blocks, SpinSymKernel = up + down, DiffTransform = inner kernel on "
               "((X-avg)/std) M with the gradient pulled back, QARBF = order-2 ARBF through qarbf_args; additive kernels = "
               "sum_n scale_n e_n(k0) with e_n by brute force over index subsets and k0 re-typed from the class docstrings; "
               "RBF/Linear/Constant/White closed forms; python numbers as operands; all at rounding error; non-trivial as gram",
          tolerances={"rtol": 1e-11})
def algebra(case, ctx):
    K_ = G._K()
    spec = case["kernel"]
    X, Y = _XY(case, spec)
    _events(ctx, spec)
    _nontrivial(ctx, case, spec, X)
    RT = 1e-11
    out = {}  # id(spec node) -> dict of its own outputs; None = not available (the node's own gradient code raised)
    nodes = G.walk(spec, X, Y)
    for pos, (sub, Xs, Ys) in enumerate(nodes):
        t = sub["t"]
        fam, cf = G.family(sub), G.cfg(sub)
        k = G.build(sub)
        if t in ("Sum", "Prod", "Exp", "Transform", "AD", "SpinSymK"):
            ops = G.children(sub)
        elif t in ("Subset", "SpinSym", "PartialRBF", "PartialARBF"):
            ops = [nodes[pos - 1][0]]  # the base kernel, visited just before its wrapper
        else:
            ops = []

        def ev(what, fn, need=None):
            """own output of this node.  An output that cannot be computed (exception) is the business of gram /
            theta_grad / input_grad, which evaluate every node as well; here it only switches off the comparisons
            that need it, so that this sub-check reports mismatches of the algebra and nothing twice."""
            nonlocal k
            try:
                r = G.guard(ctx, _sig(what, sub), fn, expected=(NotImplementedError,))
            except Violation:
                # a Subset*/SpinSym* object stays locked when its base raises: never reuse it
                k = G.build(sub)
                if what in ("call", "call_xy"):
                    raise
                ctx.event("unavailable:%s:%s" % (what, fam))
                return None
            if isinstance(r, tuple) and len(r) == 2 and isinstance(r[0], str):
                return None
            return r

        K = _matrix(ctx, ev("call", lambda: k(Xs)), (len(Xs), len(Xs)), sub)
        KY = _matrix(ctx, ev("call_xy", lambda: k(Xs, Ys)), (len(Xs), len(Ys)), sub)
        _finite_or_skip(K, sub)
        _finite_or_skip(KY, sub)
        me = out[id(sub)] = {"K": K, "KY": KY}
        me["diag"] = ev("diag", lambda: np.asarray(k.diag(Xs)))
        g = ev("grad", lambda: k(Xs, eval_gradient=True))
        me["grad"] = None if g is None else np.asarray(g[1])
        me["kderiv"] = None
        if G.has_kderiv(sub) and (t != "Transform" or all(out[id(o)].get("kderiv") is not None for o in ops)):
            kd = ev("kderiv", lambda: k.k_and_deriv(Xs, Ys))
            if kd is not None and np.shape(kd[1]) == (len(Xs), len(Ys), Xs.shape[1]):
                me["kderiv"] = (np.asarray(kd[0]), np.asarray(kd[1]))
        O = [out[id(o)] for o in ops]

        def close(got, want, what, scale=None, rtol=RT):
            want = np.asarray(want, dtype=float)
            if not np.all(np.isfinite(want)):
                raise Skip()
            sc = scale if scale is not None else max(float(np.max(np.abs(want))) if want.size else 0.0, 1e-300)
            ctx.close(got, want, (what, fam, cf), rtol=rtol, scale=sc, cls=G.cls_name(sub))

        def have(what):
            return me.get(what) is not None and all(o.get(what) is not None for o in O)

        def close_grad(want):
            if want.size or me["grad"].size:
                close(me["grad"], want, "theta_grad_layout")
            else:
                ctx.check(me["grad"].shape == want.shape, ("theta_grad_layout", fam, cf, "shape"), got=me["grad"].shape)

        if t in ("Sum", "Prod", "Exp"):
            cls = {"Sum": K_.DiffSum, "Prod": K_.DiffProduct, "Exp": K_.DiffExponentiation}[t]
            if G.is_diff(sub):
                ctx.check(isinstance(k, cls), ("operator_class", fam, cf), got=type(k).__name__)
            n = sub.get("n")
            if t == "Sum":
                comb2 = lambda a, b: a + b  # noqa: E731
            elif t == "Prod":
                comb2 = lambda a, b: a * b  # noqa: E731
            close(K, comb2(O[0]["K"], O[1]["K"]) if t != "Exp" else O[0]["K"] ** n, "value")
            close(KY, comb2(O[0]["KY"], O[1]["KY"]) if t != "Exp" else O[0]["KY"] ** n, "value_xy")
            if have("diag"):
                close(me["diag"], comb2(O[0]["diag"], O[1]["diag"]) if t != "Exp" else O[0]["diag"] ** n, "diag")
            if have("grad"):
                if t == "Sum":
                    wantG = np.concatenate([O[0]["grad"], O[1]["grad"]], axis=2)
                elif t == "Prod":
                    wantG = np.concatenate([O[0]["grad"] * O[1]["K"][:, :, None], O[1]["grad"] * O[0]["K"][:, :, None]], axis=2)
                else:
                    wantG = O[0]["grad"] * (n * O[0]["K"] ** (n - 1))[:, :, None]
                close_grad(wantG)
            if have("kderiv"):
                if t == "Sum":
                    wk, wd = O[0]["kderiv"][0] + O[1]["kderiv"][0], O[0]["kderiv"][1] + O[1]["kderiv"][1]
                elif t == "Prod":
                    (k1, d1), (k2, d2) = O[0]["kderiv"], O[1]["kderiv"]
                    wk, wd = k1 * k2, k1[..., None] * d2 + k2[..., None] * d1
                else:
                    k1, d1 = O[0]["kderiv"]
                    wk, wd = k1**n, (n * k1 ** (n - 1))[..., None] * d1
                close(me["kderiv"][0], wk, "kderiv_value")
                close(me["kderiv"][1], wd, "kderiv_rule", scale=max(float(np.max(np.abs(wd))), 1e-300))
        elif t in ("Subset", "PartialRBF", "PartialARBF", "AD"):
            cols = list(sub["dims"]) if t == "AD" else G.selected_columns(sub, Xs.shape[1])
            close(K, O[0]["K"], "value")
            close(KY, O[0]["KY"], "value_xy")
            if have("grad"):
                close_grad(O[0]["grad"])
            if t == "Subset" and have("kderiv"):
                want = np.zeros((len(Xs), len(Ys), Xs.shape[1]))
                want[:, :, cols] = O[0]["kderiv"][1]
                close(me["kderiv"][0], O[0]["kderiv"][0], "kderiv_value")
                close(me["kderiv"][1], want, "kderiv_scatter", scale=max(float(np.max(np.abs(want))), 1e-300))
        elif t in ("SingleRBF", "SingleDot"):
            from sklearn.gaussian_process.kernels import RBF, DotProduct

            base = RBF(sub["ls"]) if t == "SingleRBF" else DotProduct(sub["sigma0"])
            c = [sub["index"]]
            close(K, base(Xs[:, c]), "value")
            close(KY, base(Xs[:, c], Ys[:, c]), "value_xy")
        elif t == "SpinSym":
            a, b = G.resolve(sub["a"], Xs.shape[1]), G.resolve(sub["b"], Xs.shape[1])
            nx, ny = len(Xs), len(Ys)

            def fold(M, n2):
                M = M[:nx] + M[nx:]
                return M[:, :n2] + M[:, n2:]

            close(K, fold(O[0]["K"], nx), "value")
            close(KY, fold(O[0]["KY"], ny), "value_xy")
            if have("grad"):
                close_grad(fold(O[0]["grad"], nx))
            if have("kderiv"):
                k0, d0 = O[0]["kderiv"]
                d0 = d0[:, :ny] + d0[:, ny:]
                want = np.zeros((nx, ny, Xs.shape[1]))
                want[:, :, a] = d0[:nx]
                want[:, :, b] = d0[nx:]
                close(me["kderiv"][0], fold(k0, ny), "kderiv_value")
                close(me["kderiv"][1], want, "kderiv_scatter", scale=max(float(np.max(np.abs(want))), 1e-300))
        elif t == "SpinSymK":
            inner = G.build(sub["k"])
            u, dn = list(sub["up"]), list(sub["down"])
            close(K, inner(Xs[:, u]) + inner(Xs[:, dn]), "value")
            close(KY, inner(Xs[:, u], Ys[:, u]) + inner(Xs[:, dn], Ys[:, dn]), "value_xy")
        elif t == "Transform":
            close(K, O[0]["K"], "value")
            close(KY, O[0]["KY"], "value_xy")
            if have("grad"):
                close_grad(O[0]["grad"])
            if have("kderiv"):
                want = O[0]["kderiv"][1].dot(np.array(sub["matrix"], dtype=float).T)
                if sub.get("std") is not None:
                    want = want / np.array(sub["std"], dtype=float)
                close(me["kderiv"][0], O[0]["kderiv"][0], "kderiv_value")
                close(me["kderiv"][1], want, "kderiv_pullback", scale=max(float(np.max(np.abs(want))), 1e-300))
        elif t == "QARBF":
            arbf = K_.DiffARBF(order=2, length_scale=np.array(sub["ls"]), scale=[sub["scale"][0], sub["scale"][1], sub["scale"][-1]])
            nd, ls, sc = K_.qarbf_args(arbf)
            q = K_.QARBF(nd, ls, sc)
            close(q(Xs, Ys), arbf(Xs, Ys), "qarbf_args_vs_arbf")
            # general scale vector: term t multiplies its own product of per-dimension factors
            k0 = G.additive_factor("ARBF", Xs, Ys, np.array(sub["ls"]))
            want = sub["scale"][0] * np.ones((len(Xs), len(Ys)))
            tt = 1
            for i in range(sub["ndim"]):
                want = want + sub["scale"][tt] * k0[:, :, i]
                tt += 1
            for i in range(sub["ndim"] - 1):
                for j in range(i + 1, sub["ndim"]):
                    want = want + sub["scale"][tt] * k0[:, :, i] * k0[:, :, j]
                    tt += 1
            close(KY, want, "value_xy")
        if t in G.ADDITIVE:
            close(KY, G.additive_reference(sub, Xs, Ys), "definition", scale=G.cond_scale(sub, Xs, Ys))
            sc = G.cond_scale(sub, Xs, Xs)
            close(K, G.additive_reference(sub, Xs, Xs), "definition", scale=sc)
            if me["diag"] is not None:
                close(me["diag"], np.diag(G.additive_reference(sub, Xs, Xs)).copy(), "definition_diag", scale=sc)
        elif t == "RBF":
            d = (Xs[:, None, :] - Ys[None, :, :]) / G._arr(sub["ls"])
            close(KY, np.exp(-0.5 * np.sum(d * d, axis=2)), "definition", scale=1.0)
        elif t == "Linear":
            close(KY, Xs.dot(Ys.T), "definition")
        elif t == "Const":
            close(KY, np.full((len(Xs), len(Ys)), sub["c"]), "definition")
        elif t == "White":
            close(K, sub["noise"] * np.eye(len(Xs)), "definition", scale=sub["noise"])
            close(KY, np.zeros((len(Xs), len(Ys))), "definition", scale=1.0)


# =================================================================================================
# 3. Spin-block exchange symmetry

@st.composite
def st_spin(draw):
    nf = draw(st.integers(2, 6))
    leaf = draw(G.st_leaf(nf, ["SpinSym"], min_order=1))
    spec = leaf
    r = draw(st.integers(0, 5))
    if r == 0:
        c = draw(G.st_leaf(nf, ["Const"]))
        spec = {"t": "Prod", "via": "op", "l": c, "r": leaf}
    elif r == 1:
        other = dict(leaf)
        other.update(draw(G.st_base_params(len(G.resolve(leaf["a"], nf)), leaf["base"], min_order=1)))
        spec = {"t": "Sum", "via": "op", "l": leaf, "r": other}
    elif r == 2:
        spec = {"t": "Exp", "via": "op", "n": draw(st.integers(2, 3)), "k": leaf}
    X = draw(G.st_samples(nf, 2, 10))
    Y = draw(G.st_samples(nf, 1, 8, structure=False))
    if leaf["base"] in ("Poly",):
        X = [[v if abs(v) < 5 else (v - 23.0 if v > 0 else v + 23.0) for v in r_] for r_ in X]
    return {"nf": nf, "kernel": spec, "a": leaf["a"], "b": leaf["b"], "X": X, "Y": Y}


@subcheck("C15", "spin_symmetry", st_spin, quick=1200, thorough=20000,
          rule="SpinSymRBF/ARBF/Poly (alpha/beta index sets as disjoint lists or slices, any order), alone or inside a "
               "constant product, a sum of two kernels with the same spin blocks, or an integer power; exchanging the alpha "
               "and beta feature blocks of X and/or Y must leave K(X,Y), K(X), diag(X), the theta-gradient and k_and_deriv "
               "(with its feature axis exchanged accordingly) unchanged at 1e-12; non-trivial = X has >= 3 distinct rows "
               "and the two blocks of some row differ",
          tolerances={"rtol": 1e-12})
def spin_symmetry(case, ctx):
    spec = case["kernel"]
    nf = case["nf"]
    X, Y = G.as_matrix(case["X"]), G.as_matrix(case["Y"])
    a, b = G.resolve(case["a"], nf), G.resolve(case["b"], nf)
    X2, Y2 = X.copy(), Y.copy()
    X2[:, a], X2[:, b] = X[:, b], X[:, a]
    Y2[:, a], Y2[:, b] = Y[:, b], Y[:, a]
    leaf = [s for s in G.all_nodes(spec) if s["t"] == "SpinSym"][0]
    fam, cf = G.family(leaf), spec["t"]
    ctx.event("base=%s/%s" % (leaf["base"], spec["t"]))
    ctx.event("index=" + case["a"]["k"])
    if G.n_distinct_rows(X) >= 3 and np.max(np.abs(X[:, a] - X[:, b])) > 1e-3:
        ctx.nontrivial([G.describe(spec), case["a"], case["b"], len(X)])
    k = G.build(spec)
    K0 = G.guard(ctx, ("call", fam, cf), lambda: k(X, Y))
    # rounding scale of the whole expression (exchanging the blocks reorders the sums)
    sc = max(float(np.max(np.abs(K0))), float(np.max(G.error_model(spec, X, Y)[1])), float(np.max(G.error_model(spec, X, None)[1])), 1e-300)
    for lab, (XX, YY) in {"swapY": (X, Y2), "swapX": (X2, Y), "swapXY": (X2, Y2)}.items():
        ctx.close(G.guard(ctx, ("call", fam, cf), lambda: k(XX, YY)), K0, ("value", fam, lab), rtol=1e-12, scale=sc)
    K1 = k(X)
    ctx.close(k(X2), K1, ("value", fam, "swapX_none"), rtol=1e-12, scale=max(float(np.max(np.abs(K1))), sc))
    ctx.close(k.diag(X2), k.diag(X), ("diag", fam, "swapX"), rtol=1e-12, scale=max(float(np.max(np.abs(K1))), sc))
    g1 = G.guard(ctx, ("grad", fam, G.cfg(leaf)), lambda: k(X, eval_gradient=True))[1]
    g2 = G.guard(ctx, ("grad", fam, G.cfg(leaf)), lambda: k(X2, eval_gradient=True))[1]
    if g1.size:
        ctx.close(g2, g1, ("theta_grad", fam, "swapX"), rtol=1e-12, scale=max(float(np.max(np.abs(g1))), sc))
    k0, dk0 = G.guard(ctx, ("kderiv", fam, G.cfg(leaf)), lambda: k.k_and_deriv(X, Y))
    dsc = max(float(np.max(np.abs(dk0))), sc)
    k1, dk1 = k.k_and_deriv(X, Y2)
    ctx.close(k1, k0, ("kderiv_value", fam, "swapY"), rtol=1e-12, scale=sc)
    ctx.close(dk1, dk0, ("kderiv", fam, "swapY"), rtol=1e-12, scale=dsc)
    k2, dk2 = k.k_and_deriv(X2, Y)
    sw = dk2.copy()
    sw[:, :, a], sw[:, :, b] = dk2[:, :, b], dk2[:, :, a]
    ctx.close(k2, k0, ("kderiv_value", fam, "swapX"), rtol=1e-12, scale=sc)
    ctx.close(sw, dk0, ("kderiv", fam, "swapX"), rtol=1e-12, scale=dsc)
    k3, dk3 = k.k_and_deriv(X)
    k4, dk4 = k.k_and_deriv(X, X2)
    ctx.close(k4, k3, ("kderiv_value", fam, "y_none_vs_swapped"), rtol=1e-12, scale=max(float(np.max(np.abs(k3))), sc))
    ctx.close(dk4, dk3, ("kderiv", fam, "y_none_vs_swapped"), rtol=1e-12, scale=max(float(np.max(np.abs(dk3))), sc))


# =================================================================================================
# 4. Hyper-parameter gradient

def n_free(spec):
    """number of non-fixed hyper-parameter elements, from the spec alone"""
    t = spec["t"]
    if G.children(spec):
        return sum(n_free(c) for c in G.children(spec))
    b = G.base_type(spec)

    def cnt(v, bkey):
        if spec.get(bkey) == "fixed":
            return 0
        return len(v) if isinstance(v, list) and len(v) > 1 else 1

    if b in ("RBF", "AntisymRBF", "PartialRBF", "SingleRBF"):
        return cnt(spec["ls"], "lb")
    if b == "Const":
        return cnt(spec["c"], "cb")
    if b == "White":
        return cnt(spec["noise"], "nb")
    if b == "Poly":
        return cnt(spec["gamma"], "gb")
    if b in G.ADDITIVE or b == "PartialARBF":
        return cnt(spec["ls"], "lb") + (0 if spec.get("sb") == "fixed" else len(spec["scale"]))
    if b == "SingleDot":
        return cnt(spec["sigma0"], "gb")
    if b == "ExpDensityNoise":
        return cnt(spec["exponent"], "eb")
    if b == "FittedDensityNoise":
        return cnt(spec["decay"], "db")
    if b == "QARBF":
        return 0 if spec.get("sb") == "fixed" else len(spec["scale"])
    if b in ("Linear", "DensityNoise"):
        return 0
    raise ValueError(t)


def st_theta():
    return st_case(ALL_LEAVES + PLAIN_LEAVES, G.COMPOSITES, with_y=False, nmax=8, min_order=-1)


@subcheck("C15", "theta_grad", st_theta, quick=2000, thorough=30000,
          rule="same expressions as `gram` (X 2-8 rows); on every sub-kernel k(X, eval_gradient=True) must return the same K, "
               "a gradient whose last dimension is len(kernel.theta) = number of non-fixed hyper-parameter elements of the "
               "spec, and each slice must equal the two-step 4th-order finite difference of K in log-theta (theta set on a "
               "deep copy through the scikit-learn theta setter, as the repository's tests do); kernels that document "
               "NotImplementedError for eval_gradient (DiffAntisymRBF) must raise exactly that; non-trivial as gram and "
               ">= 1 free hyper-parameter",
          tolerances={"fd_rtol": 1e-6, "value_rtol": 1e-13,
                      "fd_floor": "4e-14 * R / h with R the forward error model of K (so cancellation noise of K is never judged)"})
def theta_grad(case, ctx):
    spec = case["kernel"]
    X, _ = _XY(case, spec)
    _events(ctx, spec)
    if n_free(spec) > 0:
        _nontrivial(ctx, case, spec, X)
    for sub, Xs, _y in G.walk(spec, X, None):
        fam, cf = G.family(sub), G.cfg(sub, theta=True)
        k = G.build(sub)
        has_antisym = any(s["t"] == "AntisymRBF" for s in G.all_nodes(sub))
        r = G.guard(ctx, ("eval_gradient", fam, cf), lambda: k(Xs, eval_gradient=True), expected=(NotImplementedError,))
        if isinstance(r, tuple) and isinstance(r[0], str):
            ctx.check(has_antisym, ("unexpected_not_implemented", fam, cf))
            ctx.event("documented_not_implemented")
            continue
        ctx.check(not (has_antisym and sub["t"] == "AntisymRBF"), ("antisym_gradient_silently_returned", fam, cf))
        K, Gm = r
        K = _matrix(ctx, K, (len(Xs), len(Xs)), sub)
        Gm = np.asarray(Gm)
        _finite_or_skip(K, sub)
        _finite_or_skip(Gm, sub)
        K0 = k(Xs)
        ctx.close(K, K0, ("value_with_gradient", fam, cf), rtol=1e-13, scale=max(float(np.max(np.abs(K0))), 1e-300))
        theta = G.guard(ctx, ("theta", fam, cf), lambda: np.array(k.theta, dtype=float), always=True)
        nfree = n_free(sub)
        ctx.check(len(theta) == nfree, ("theta_length", fam, cf), got=len(theta), want=nfree, cls=G.cls_name(sub))
        ctx.check(Gm.shape == (len(Xs), len(Xs), len(theta)), ("gradient_shape", fam, cf), got=Gm.shape,
                  want=(len(Xs), len(Xs), len(theta)), cls=G.cls_name(sub))
        bounds = np.asarray(G.guard(ctx, ("bounds", fam, cf), lambda: k.bounds, always=True), dtype=float).reshape(-1, 2)
        ctx.check(bounds.shape[0] == len(theta), ("bounds_shape", fam, cf), got=bounds.shape)
        if len(theta):
            ctx.check(np.all(theta >= bounds[:, 0] - 1e-9) and np.all(theta <= bounds[:, 1] + 1e-9), ("theta_within_bounds", fam, cf))
        R = G.error_model(sub, Xs, None)[1]
        for i in range(len(theta)):
            def f(step, i=i):
                k2 = copy.deepcopy(k)
                th = theta.copy()
                th[i] += step
                k2.theta = th
                return k2(Xs)

            an = Gm[:, :, i]
            # noise floor of the stencil from the conditioning of K itself (additive kernels: Newton-Girard cancellation)
            fd_check_vec(ctx, f, an, ("fd", fam, cf), 1e-3, rtol=1e-6,
                         atol=1e-13 * float(np.max(np.abs(an))) + 1e-200 + 4e-14 * R / 1e-3, component=i, cls=G.cls_name(sub))


# =================================================================================================
# 5. Input gradient

def st_input():
    return st_case(ALL_LEAVES, ("Sum", "Prod", "Exp", "Transform"), nmax=8, min_order=-1)


@subcheck("C15", "input_grad", st_input, quick=2000, thorough=30000,
          rule="expressions over all classes that provide k_and_deriv (RBF, Constant, White, Linear, Poly, ARBF, ARBFV2, "
               "AddRQ, AddLLRBF, AntisymRBF, Partial*, Subset*, SpinSym*; nodes + * ** DiffTransform); on every sub-kernel "
               "k_and_deriv(X,Y)[0] == kernel(X,Y), the gradient has shape (nX,nY,nfeat) as documented and equals the two-step "
               "4th-order finite difference of kernel(X+h e_f, Y) per feature; k_and_deriv(X) (Y=None) equals "
               "k_and_deriv(X, copy of X) (documented convention: Y stationary; not asserted below a white-noise factor, which "
               "is delta_ij only for Y=None); PartialRBF/PartialARBF failures are collapsed into one class each; "
               "non-trivial as gram",
          tolerances={"fd_rtol": 1e-6, "value_rtol": 1e-13, "fd_floor": "4e-14 * R / h (R = forward error model of K) + 9e-16 |x| |f_xx| (rounding of the stepped argument, f_xx from the stencil samples)"})
def input_grad(case, ctx):
    spec = case["kernel"]
    X, Y = _XY(case, spec)
    _events(ctx, spec)
    _nontrivial(ctx, case, spec, X)
    for sub, Xs, Ys in G.walk(spec, X, Y):
        if sub["t"] in ("PartialRBF", "PartialARBF"):
            # legacy wrappers whose k_and_deriv does not compute the wrapper's own kernel at all: one class each,
            # whichever of the relations below shows it (wrong value, wrong width, exception, wrong gradient)
            try:
                _input_grad_node(ctx, sub, Xs, Ys)
            except Violation as v:
                raise Violation((ctx.sc.name, "k_and_deriv_inconsistent_with_call", G.family(sub), "any"),
                                dict(v.detail, first_symptom=list(v.sig)))
        else:
            _input_grad_node(ctx, sub, Xs, Ys)


def _input_grad_node(ctx, sub, Xs, Ys):
    fam, cf = G.family(sub), G.cfg(sub)
    k = G.build(sub)
    KY = _matrix(ctx, G.guard(ctx, ("call", fam, cf), lambda: k(Xs, Ys)), (len(Xs), len(Ys)), sub)
    _finite_or_skip(KY, sub)
    kk, dk = G.guard(ctx, ("k_and_deriv", fam, cf), lambda: k.k_and_deriv(Xs, Ys))
    kk, dk = np.asarray(kk), np.asarray(dk)
    _finite_or_skip(dk, sub)
    R = np.maximum(G.error_model(sub, Xs, Ys)[1], max(float(np.max(np.abs(KY))), 1e-300))
    if kk.shape == KY.shape:
        ctx.close(kk / R, KY / R, ("value", fam, cf), rtol=1e-13, scale=1.0, cls=G.cls_name(sub))
    else:
        ctx.close(kk, KY, ("value", fam, cf), rtol=1e-13, cls=G.cls_name(sub))
    want_shape = (len(Xs), len(Ys), Xs.shape[1])
    ctx.check(np.shape(dk) == want_shape, ("gradient_shape", fam, cf), got=np.shape(dk), want=want_shape, cls=G.cls_name(sub))
    amax = float(np.max(np.abs(dk))) if dk.size else 0.0
    for fcol in range(Xs.shape[1]):
        h = 1e-4 * (1.0 + np.abs(Xs[:, fcol]))[:, None]

        def f(step, fcol=fcol):
            Xp = Xs.copy()
            Xp[:, fcol] = Xs[:, fcol] + np.broadcast_to(step, (len(Xs), 1))[:, 0]
            return k(Xp, Ys)

        fd_check_vec(ctx, f, dk[:, :, fcol], ("fd", fam, cf), h, rtol=1e-6, atol=1e-13 * amax + 1e-200 + 4e-14 * R / h,
                     xabs=np.abs(Xs[:, fcol])[:, None], feature=fcol, cls=G.cls_name(sub))
    k0, dk0 = G.guard(ctx, ("k_and_deriv_y_none", fam, cf), lambda: k.k_and_deriv(Xs))
    R0 = np.maximum(G.error_model(sub, Xs, None)[1], max(float(np.max(np.abs(k0))), 1e-300))
    ctx.close(np.asarray(k0) / R0, np.asarray(k(Xs)) / R0, ("y_none_value", fam, cf), rtol=1e-13, scale=1.0)
    if not any(s_["t"] == "White" for s_ in G.all_nodes(sub)):
        # (a white-noise factor is delta_ij for Y=None and zero for an explicit Y: the two calls differ by design)
        k1, dk1 = G.guard(ctx, ("k_and_deriv", fam, cf), lambda: k.k_and_deriv(Xs, Xs.copy()))
        ctx.close(dk0, dk1, ("y_none_convention", fam, cf), rtol=1e-13, scale=max(float(np.max(np.abs(dk1))), 1e-300))


# =================================================================================================
# 6. scikit-learn kernel protocol (parameters, cloning, representation)

def st_api():
    return st_case(ALL_LEAVES + PLAIN_LEAVES, G.COMPOSITES, with_y=False, nmax=5, depth=2, min_order=1)


@subcheck("C15", "sklearn_api", st_api, quick=800, thorough=8000,
          rule="same expressions (depth <= 2); on every sub-kernel the scikit-learn kernel protocol the hyper-parameter "
               "machinery rests on: get_params(), repr(), k == k, hyperparameters/n_dims/bounds consistent with theta, "
               "clone_with_theta(theta) evaluates to the same K and to the same K as setting theta on a deep copy, for theta "
               "and for a shifted theta inside the bounds; non-trivial = a free hyper-parameter and a composite or "
               "non-sklearn class",
          tolerances={"rtol": 1e-13})
def sklearn_api(case, ctx):
    spec = case["kernel"]
    X, _ = _XY(case, spec)
    _events(ctx, spec)
    if n_free(spec) > 0:
        _nontrivial(ctx, case, spec, X)
    rng = rng_from(len(case["X"]) * 7919 + case["nf"])
    for sub, Xs, _y in G.walk(spec, X, None):
        # the parameter protocol of Subset*/SpinSym* lives in one place (_IndexMixin)
        fam = {"Subset": "IndexMixin(Subset*/SpinSym*)", "SpinSym": "IndexMixin(Subset*/SpinSym*)"}.get(sub["t"], G.family(sub))
        cf = "std"
        k = G.build(sub)
        K0 = np.asarray(G.guard(ctx, ("call", fam, cf), lambda: k(Xs), always=True))
        if K0.shape != (len(Xs), len(Xs)):
            ctx.event("scalar_valued_kernel_skipped")
            continue
        _finite_or_skip(K0, sub)
        G.guard(ctx, ("get_params", fam, cf), lambda: k.get_params(), always=True)
        r = G.guard(ctx, ("repr", fam, cf), lambda: repr(k), always=True)
        ctx.check(isinstance(r, str) and len(r) > 0, ("repr", fam, cf))
        eq = G.guard(ctx, ("eq", fam, cf), lambda: k == k, always=True)
        ctx.check(bool(eq), ("eq_self_false", fam, cf))
        eq2 = G.guard(ctx, ("eq", fam, cf), lambda: k == G.build(sub), always=True)
        ctx.check(bool(eq2), ("eq_rebuilt_false", fam, cf))
        theta = G.guard(ctx, ("theta", fam, cf), lambda: np.array(k.theta, dtype=float), always=True)
        nd = G.guard(ctx, ("n_dims", fam, cf), lambda: k.n_dims, always=True)
        ctx.check(nd == len(theta), ("n_dims", fam, cf), got=nd, want=len(theta))
        hp = G.guard(ctx, ("hyperparameters", fam, cf), lambda: list(k.hyperparameters), always=True)
        nel = sum(h.n_elements for h in hp if not h.fixed)
        ctx.check(nel == len(theta), ("hyperparameters_vs_theta", fam, cf), got=nel, want=len(theta))
        bounds = np.asarray(k.bounds, dtype=float).reshape(-1, 2)
        th2 = theta.copy()
        if len(theta):
            th2 = np.clip(theta + rng.uniform(-0.3, 0.3, len(theta)), bounds[:, 0], bounds[:, 1])
        for lab, th in (("same", theta), ("shifted", th2)):
            kd = copy.deepcopy(k)
            kd.theta = th
            Kd = kd(Xs)
            kc = G.guard(ctx, ("clone_with_theta", fam, cf), lambda: k.clone_with_theta(th), always=True)
            Kc = G.guard(ctx, ("clone_call", fam, cf), lambda: kc(Xs), always=True)
            ctx.close(Kc, Kd, ("clone_value", fam, lab), rtol=1e-13, scale=max(float(np.max(np.abs(Kd))), 1e-300))
            ctx.close(np.array(kc.theta, dtype=float), th, ("clone_theta", fam, lab), rtol=1e-13, atol=1e-13)
        ctx.close(k(Xs), K0, ("clone_mutated_original", fam, cf), rtol=0, atol=0)


# =================================================================================================
# 7. DFTKernel: get_k / get_k_and_deriv / get_kctrl in SEP, NPOL and POL

@st.composite
def st_dft(draw):
    n0 = draw(st.integers(2, 5))
    n1 = draw(st.integers(2, 5))
    mode = draw(st.sampled_from(["SEP", "NPOL", "POL"]))
    return {"n0": n0, "n1": n1, "mode": mode, "nspin": draw(st.sampled_from([1, 2])),
            "nspin_ctrl": draw(st.sampled_from([1, 2])),
            "maps": draw(G.st_featlist(n0, n1)),
            "kernel": draw(G.st_tree(n1, depth=2, leaves=SOUND_KDERIV_LEAVES, max_order=3, min_order=1)),
            "nsamp": draw(st.integers(1, 5)), "nctrl": draw(st.integers(1, 5)),
            "nlist": draw(st.integers(1, 2)), "seed": draw(st.integers(0, 2**31 - 1))}


def _pol_k(k, XA, XB, CA, CB):
    return k(XA, CA) * k(XB, CB) + k(XA, CB) * k(XB, CA)


@subcheck("C15", "dft_kernel", st_dft, quick=700, thorough=10000,
          rule="DFTKernel over a drawn kernel expression (classes whose k_and_deriv is sound up to order 3), a feature list of "
               "2-5 L/U/V/VZ maps over 2-5 positive raw features, mode SEP/NPOL/POL, nspin 1/2 for samples and for the "
               "control-point source; oracles: X1ctrl and get_k against the documented formulas with my own feature "
               "transform (SEP per spin, NPOL spin-averaged features, POL k_aa k_bb + k_ab k_ba), get_kctrl symmetric/PSD and "
               "equal to that formula, get_k_and_deriv value == get_k and derivative vs finite differences of get_k in every "
               "raw feature of every spin (for unpolarised input in POL mode too: the derivative of get_k with respect to the one "
               "spin channel given, the convention MappedDFTKernel uses); after an in-place update of the kernel's theta, get_kctrl and "
               "get_k equal the formulas for the kernel as it is now; "
               "non-trivial = composite or non-sklearn kernel, nsamp*nctrl >= 2",
          tolerances={"fd_rtol": 1e-6, "value_rtol": 1e-12})
def dft_kernel(case, ctx):
    from ciderpress.dft import baselines
    from ciderpress.models.dft_kernel import DFTKernel

    spec, mode, nspin = case["kernel"], case["mode"], case["nspin"]
    n0, n1, ns, nc = case["n0"], case["n1"], case["nsamp"], case["nctrl"]
    rng = rng_from(case["seed"])
    fl = G.build_featlist(case["maps"])
    k = G.build(spec)
    dk = DFTKernel(k, fl, mode, baselines.one_xc, baselines.zero_xc)
    ctx.event("mode=%s/nspin=%d/ctrl_nspin=%d" % (mode, nspin, case["nspin_ctrl"]))
    ctx.event("root=" + spec["t"])
    if (G.children(spec) or spec["t"] not in ("RBF", "Const")) and ns * nc >= 2:
        ctx.nontrivial([mode, nspin, case["nspin_ctrl"], G.describe(spec), [m["code"] for m in case["maps"]]])
    # control points from 1-2 raw feature arrays, as MOLGP does through set_control_points
    nsc = case["nspin_ctrl"]
    lst = []
    left = nc
    for j in range(case["nlist"]):
        n = left if j == case["nlist"] - 1 else max(1, left // 2)
        left -= n
        if n > 0:
            lst.append(np.exp(rng.uniform(np.log(0.05), np.log(3.0), (nsc, n0, n))))
    G.guard(ctx, ("set_control_points", mode, "std"), lambda: dk.set_control_points(lst, reduce=False))
    # my own control-point array
    if mode == "POL":
        blocks = []
        for a in lst:
            a2 = a if a.shape[0] == 2 else np.concatenate([a, a], axis=0)
            blocks.append(np.stack([G.my_features(case["maps"], a2[s]) for s in range(2)]))
        C = np.concatenate(blocks, axis=1)
    elif mode == "SEP":
        C = np.concatenate([G.my_features(case["maps"], a[s]) for a in lst for s in range(a.shape[0])], axis=0)
    else:
        C = np.concatenate([G.my_features(case["maps"], a.mean(0)) for a in lst], axis=0)
    ctx.close(dk.X1ctrl, C, ("x1ctrl", mode), rtol=1e-13, atol=1e-15)
    nctrl = C.shape[-2]
    # Gram matrix of the control points
    Kmm = G.guard(ctx, ("get_kctrl", mode, "std"), lambda: dk.get_kctrl())
    want = _pol_k(k, C[0], C[1], C[0], C[1]) if mode == "POL" else k(C, C)
    if not np.all(np.isfinite(want)):
        raise Skip()
    sc = max(float(np.max(np.abs(want))), 1e-300)
    ctx.close(Kmm, want, ("kctrl_value", mode), rtol=1e-12, scale=sc)
    ctx.close(Kmm, Kmm.T, ("kctrl_symmetry", mode), rtol=1e-12, scale=sc)
    w = np.linalg.eigvalsh(0.5 * (Kmm + Kmm.T))
    ctx.check(w[0] >= -1e-9 * max(float(w[-1]), 1e-300), ("kctrl_psd", mode), lmin=float(w[0]), lmax=float(w[-1]))
    # samples
    X0T = np.exp(rng.uniform(np.log(0.05), np.log(3.0), (nspin, n0, ns)))

    def ref_k(x0t):
        nsp = x0t.shape[0]
        if mode == "SEP":
            return np.stack([k(G.my_features(case["maps"], x0t[s]), C).T for s in range(nsp)], axis=1)
        if mode == "NPOL":
            return k(G.my_features(case["maps"], x0t.mean(0)), C).T
        xa = G.my_features(case["maps"], x0t[0])
        xb = G.my_features(case["maps"], x0t[-1])
        return _pol_k(k, xa, xb, C[0], C[1]).T

    kk = G.guard(ctx, ("get_k", mode, "std"), lambda: dk.get_k(X0T.copy()))
    wantk = ref_k(X0T)
    if not np.all(np.isfinite(wantk)):
        raise Skip()
    ksc = max(float(np.max(np.abs(wantk))), 1e-300)
    ctx.check(kk.shape == ((nctrl, nspin, ns) if mode == "SEP" else (nctrl, ns)), ("get_k_shape", mode), got=kk.shape)
    ctx.close(kk, wantk, ("get_k_value", mode, "nspin%d" % nspin), rtol=1e-12, scale=ksc)
    try:
        k2, dkd = G.guard(ctx, ("get_k_and_deriv", mode, "std"), lambda: dk.get_k_and_deriv(X0T.copy()))
    except Violation as v:
        if mode == "POL":  # one structural class for the polarised product rule, whatever way it breaks
            raise Violation((ctx.sc.name, "pol_get_k_and_deriv", mode, "raises"), dict(v.detail, nspin=nspin))
        raise
    ctx.close(k2, kk, ("deriv_value", mode, "nspin%d" % nspin), rtol=1e-13, scale=ksc)
    ctx.check(dkd.shape == (nctrl, nspin, n0, ns), ("pol_get_k_and_deriv" if mode == "POL" else "deriv_shape", mode, "shape"),
              got=dkd.shape, want=(nctrl, nspin, n0, ns))
    amax = float(np.max(np.abs(dkd)))
    for s in range(nspin):
        for i in range(n0):
            h = 1e-4 * X0T[s, i]

            def f(step, s=s, i=i):
                xp = X0T.copy()
                xp[s, i] = X0T[s, i] + step
                r = dk.get_k(xp)
                return r[:, s, :] if mode == "SEP" else r

            sig = ("pol_get_k_and_deriv", mode, "wrong_derivative") if mode == "POL" else ("deriv_fd", mode, "nspin%d" % nspin)
            fd_check_vec(ctx, f, dkd[:, s, i, :], sig, h[None, :], rtol=1e-6, atol=1e-13 * amax + 1e-200, spin=s, raw=i,
                         nspin=nspin)
            if mode == "SEP" and nspin == 2:
                # the other spin channel's kernel must not depend on this spin's features
                xp = X0T.copy()
                xp[s, i] *= 1.37
                ctx.equal_bits(dk.get_k(xp)[:, 1 - s, :], kk[:, 1 - s, :], ("sep_spin_crosstalk", mode))
    # hyper-parameters updated in place on the kernel object the DFTKernel holds (what an optimiser does through
    # kernel.theta): every covariance afterwards is that of the kernel as it is now
    theta = np.array(k.theta, dtype=float)
    if theta.size:
        k.theta = theta + rng_from(case["seed"] + 13).uniform(0.1, 0.4, theta.size)
        ctx.event("theta_updated_in_place")
        want2 = _pol_k(k, C[0], C[1], C[0], C[1]) if mode == "POL" else k(C, C)
        if np.all(np.isfinite(want2)):
            Kmm2 = G.guard(ctx, ("get_kctrl", mode, "after_theta_update"), lambda: dk.get_kctrl())
            ctx.close(Kmm2, want2, ("kctrl_value", mode, "after_theta_update"), rtol=1e-12,
                      scale=max(float(np.max(np.abs(want2))), 1e-300))
            wantk2 = ref_k(X0T)
            if np.all(np.isfinite(wantk2)):
                kk2 = G.guard(ctx, ("get_k", mode, "after_theta_update"), lambda: dk.get_k(X0T.copy()))
                ctx.close(kk2, wantk2, ("get_k_value", mode, "after_theta_update"), rtol=1e-12,
                          scale=max(float(np.max(np.abs(wantk2))), 1e-300))


# =================================================================================================
# 8. Control-point reduction

@st.composite
def st_reduce(draw):
    n1 = draw(st.integers(2, 4))
    mode = draw(st.sampled_from(["SEP", "NPOL", "POL"]))
    leaves = ["RBF", "RBF", "ARBF", "ARBFV2", "AddRQ", "Subset"]
    spec = draw(G.st_tree(n1, depth=1, leaves=leaves, composites=("Sum", "Prod"), max_order=3, min_order=1))
    if draw(st.booleans()):
        c = draw(G.st_leaf(n1, ["Const"]))
        spec = {"t": "Prod", "via": "op", "l": c, "r": spec}
    return {"n1": n1, "mode": mode, "kernel": spec, "npts": draw(st.integers(2, 14)),
            "ndup": draw(st.integers(0, 3)), "nnear": draw(st.integers(0, 3)),
            "tol": draw(st.sampled_from([1e-5, 1e-5, 1e-3, 1e-8, 1e-2])),
            "nmax": draw(st.sampled_from([None, None, 1, 3, 6])), "nspin": draw(st.sampled_from([1, 2])),
            "seed": draw(st.integers(0, 2**31 - 1))}


@subcheck("C15", "reduce_npts", st_reduce, quick=600, thorough=8000,
          rule="DFTKernel.set_control_points(reduce=True) in SEP/NPOL/POL over RBF-type kernels with positive diagonal, 2-14 "
               "raw points plus exact duplicates and near-duplicates (1e-7 apart), ctrl_tol in {1e-8..1e-2}, ctrl_nmax "
               "None/1/3/6; oracles: every returned control point is bit-equal to a distinct input row (a subset, in any order), the "
               "normalised Gram matrix of the selection has every pivot of its max-diagonal pivoted Cholesky factorisation "
               "above ctrl_tol (numerically full rank at ctrl_tol), and unless ctrl_nmax truncates, "
               "every discarded point has residual <= ctrl_tol against the selection; non-trivial = something was discarded",
          tolerances={"pivot_margin": 1e-6})
def reduce_npts(case, ctx):
    from ciderpress.dft import baselines
    from ciderpress.models.dft_kernel import DFTKernel

    mode, n1 = case["mode"], case["n1"]
    maps = [{"code": "L", "i": i} for i in range(n1)]
    fl = G.build_featlist(maps)
    spec = case["kernel"]
    k = G.build(spec)
    rng = rng_from(case["seed"])
    nsp = case["nspin"]
    base = rng.uniform(-1.5, 1.5, (nsp, n1, case["npts"]))
    cols = [base]
    if case["ndup"]:
        cols.append(base[:, :, rng.integers(0, case["npts"], case["ndup"])])
    if case["nnear"]:
        cols.append(base[:, :, rng.integers(0, case["npts"], case["nnear"])] + 1e-7 * rng.uniform(-1, 1, (nsp, n1, case["nnear"])))
    X0T = np.concatenate(cols, axis=2)
    X0T = X0T[:, :, rng.permutation(X0T.shape[2])]
    dk = DFTKernel(k, fl, mode, baselines.one_xc, baselines.zero_xc, ctrl_tol=case["tol"], ctrl_nmax=case["nmax"])
    full = dk.X0Tlist_to_X1array([X0T])
    G.guard(ctx, ("set_control_points", mode, "std"), lambda: dk.set_control_points([X0T], reduce=True))
    sel = dk.X1ctrl
    ctx.event("mode=" + mode)
    if mode == "POL":
        rows_full = [full[:, j].tobytes() for j in range(full.shape[1])]
        rows_sel = [np.ascontiguousarray(sel[:, j]).tobytes() for j in range(sel.shape[1])]
        S = _pol_k(k, full[0], full[1], full[0], full[1])
    else:
        rows_full = [np.ascontiguousarray(full[j]).tobytes() for j in range(full.shape[0])]
        rows_sel = [np.ascontiguousarray(sel[j]).tobytes() for j in range(sel.shape[0])]
        S = k(full, full)
    # subset, with multiplicity (duplicated inputs may each be selected at most once)
    avail = {}
    for r in rows_full:
        avail[r] = avail.get(r, 0) + 1
    idx = []
    for r in rows_sel:
        ctx.check(avail.get(r, 0) > 0, ("not_a_subset", mode), nsel=len(rows_sel), nfull=len(rows_full))
        avail[r] -= 1
        # index of some matching input row (duplicates are interchangeable for the Gram matrix)
        idx.append([j for j, q in enumerate(rows_full) if q == r][0])
    nsel, nfull = len(rows_sel), len(rows_full)
    ctx.check(nsel >= 1, ("empty_selection", mode))
    if case["nmax"] is not None:
        ctx.check(nsel <= case["nmax"], ("ctrl_nmax_exceeded", mode), nsel=nsel, nmax=case["nmax"])
    if not sel.flags.f_contiguous:
        ctx.event("layout:control_points_not_fortran_ordered")     # memory order of the stored points is not part of the property
    ctx.event("discarded" if nsel < nfull else "kept_all")
    if nsel < nfull:
        ctx.nontrivial([mode, G.describe(spec), case["tol"], case["nmax"], nfull, nsel])
    nrm = np.power(np.diag(S), -0.5)
    Sn = S * nrm[:, None] * nrm[None, :]
    Gs = Sn[np.ix_(idx, idx)]
    tol = case["tol"]
    # The pivots a max-diagonal pivoted Cholesky factorisation of the *selected* Gram matrix accepts (each > tol).  Judged
    # independently of the order in which the points are returned: at every step of the factorisation over all inputs the
    # pivot is the largest residual diagonal, and it is always a selected point, so the greedy order restricted to the
    # selected set reproduces the accepted pivots whether the implementation returns pivot order or training order.  The
    # normalised diagonal is 1 everywhere, so the *first* pivot is a tie the factorisation breaks by its internal
    # ordering: every selected point is tried as the start, and the best sequence is judged.
    def greedy(start):
        A = Gs.copy()
        out = []
        left = list(range(nsel))
        j = start
        while True:
            p = A[j, j]
            out.append(p)
            left.remove(j)
            if p <= 0 or not left:
                break
            A[np.ix_(left, left)] -= np.outer(A[left, j], A[j, left]) / p
            j = max(left, key=lambda q: A[q, q])
        return np.array(out)

    piv = max((greedy(s0) for s0 in range(nsel)), key=lambda v: float(v.min()))
    ctx.measure("min_pivot_over_tol_inverse", tol / max(float(piv.min()), 1e-300))
    ctx.check(np.all(piv > tol * (1 - 1e-6) - 1e-12), ("rank_deficient_selection", mode), pivots=piv.tolist(), tol=tol)
    truncated = case["nmax"] is not None and nsel == case["nmax"]
    if nsel < nfull and not truncated:
        rest = [j for j in range(nfull) if j not in set(idx)]
        B = Sn[np.ix_(idx, rest)]
        sol = np.linalg.solve(Gs, B)
        resid = np.diag(Sn)[rest] - np.sum(B * sol, axis=0)
        # conditioning of the solve: pivots down to tol amplify rounding by 1/tol
        slack = tol * 1e-6 + 1e-13 / tol
        ctx.measure("max_residual_over_tol", float(resid.max()) / tol)
        ctx.check(np.all(resid <= tol + slack), ("discarded_point_outside_span", mode), resid=float(resid.max()), tol=tol)
