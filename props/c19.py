"""C19 -- CIDER integration grids are PySCF's grids plus an exact index map.

Code under test: ciderpress/pyscf/gen_cider_grid.py (CiderGrids, gen_atomic_grids_cider),
ciderpress/dft/grids_indexer.py (AtomicGridsIndexer), ciderpress/lib/mod_cider/sph_harm.c.

Reference: pyscf.dft.gen_grid.Grids built with the same settings (the property's own reference), PySCF's
radial schemes / pruning functions / Lebedev tables for the independent re-derivation of the atom-ordered
grid, scipy's complex spherical harmonics for the degree structure of the tabulated Y_lm.

Everything exact is compared bit for bit (no arithmetic is reordered between the two constructions:
coordinates are one product and one sum, Becke weights are computed per point); only the spherical
harmonic tables carry tolerances (1e-12 orthonormality, 1e-14 unit vectors).
"""
import numpy as np
from hypothesis import strategies as st

from cpverif.runner import Violation, subcheck

ELEMENTS = ["H", "He", "Li", "Be", "B", "C", "N", "O", "F", "Ne", "Na", "Mg", "Al", "Si", "P", "S", "Cl", "Ar"]
PRUNES = ["nwchem_prune", "sg1_prune", "treutler_prune", None]
RADI = ["treutler_ahlrichs", "becke", "delley", "mura_knowles", "gauss_chebyshev"]
# legal Lebedev sizes (n_ang = 1 is listed by PySCF but its own Grids cannot build it: no reference)
LEB_SIZES = [6, 14, 26, 38, 50, 74, 86, 110, 146, 170, 194, 230, 266, 302, 350, 434, 590, 770]
ASSUME = ["pyscf.dft.gen_grid.Grids (PySCF 2.14) with the same attribute settings is the reference grid",
          "PySCF's Lebedev tables are exact to 1e-15 for their stated algebraic order"]
YTOL = 1e-12
# first signature element of the two defects found on the pinned tree (both fixed since: 5a0a6f1, 2a27342): one
# bucket per defect whatever sub-check meets it again; regression cases replays/C19/lmax_ne_10.json and
# replays/C19/atom_grid_default.json
DEFECT = "cider_grids"
DTOL = 1e-14


# ------------------------------------------------------------------------------------------------
# generators

@st.composite
def st_geometry(draw, max_atoms):
    natm = draw(st.sampled_from([n for n in (1, 2, 2, 3, 3, 4, 4) if n <= max_atoms]))
    # repeated elements on purpose: draw from a pool of 1-2 elements half of the time
    if natm > 1 and draw(st.booleans()):
        pool = [draw(st.sampled_from(ELEMENTS)) for _ in range(draw(st.integers(1, 2)))]
        syms = [draw(st.sampled_from(pool)) for _ in range(natm)]
    else:
        syms = [draw(st.sampled_from(ELEMENTS)) for _ in range(natm)]
    if draw(st.sampled_from(range(4))) == 0:
        # labelled atoms ('H1', 'H2', 'O1': PySCF's way of giving atoms of one element different bases or grids);
        # atom_grid dictionaries are keyed by the labelled symbol
        syms = [sy + draw(st.sampled_from(["", "1", "2"])) for sy in syms]
    # vertices of a tetrahedron of edge s (Angstrom) + bounded jitter, then a drawn rigid motion, so that
    # atoms never coincide (min distance >= 0.45 s) and no axis is special
    base = np.array([[0, 0, 0], [1, 0, 0], [0.5, 3 ** 0.5 / 2, 0], [0.5, 3 ** 0.5 / 6, (2.0 / 3) ** 0.5]])
    s = draw(st.floats(0.7, 2.6))
    pts = base[:natm] * s
    jit = np.array([[draw(st.floats(-0.15, 0.15)) for _ in range(3)] for _ in range(natm)]) * s
    pts = pts + jit
    a, b, c = [draw(st.floats(0.0, 6.28)) for _ in range(3)]
    rz = np.array([[np.cos(a), -np.sin(a), 0], [np.sin(a), np.cos(a), 0], [0, 0, 1]])
    ry = np.array([[np.cos(b), 0, np.sin(b)], [0, 1, 0], [-np.sin(b), 0, np.cos(b)]])
    rx = np.array([[1, 0, 0], [0, np.cos(c), -np.sin(c)], [0, np.sin(c), np.cos(c)]])
    shift = np.array([draw(st.floats(-2.0, 2.0)) for _ in range(3)])
    pts = pts @ (rz @ ry @ rx).T + shift
    return [[sy] + [round(float(v), 5) for v in p] for sy, p in zip(syms, pts)]


@st.composite
def st_nrad_nang(draw):
    return [draw(st.one_of(st.integers(1, 6), st.integers(7, 60))), draw(st.sampled_from(LEB_SIZES))]


@st.composite
def st_atom_grid(draw, syms):
    form = draw(st.sampled_from(["none", "none", "tuple", "list", "dict", "dict"]))
    if form == "none":
        return None
    if form in ("tuple", "list"):
        return {"form": form, "v": draw(st_nrad_nang())}
    uniq = sorted(set(syms))
    chosen = [s for s in uniq if draw(st.booleans())] or [uniq[0]]
    d = {"form": "dict", "v": {s: draw(st_nrad_nang()) for s in chosen}, "default": None}
    if draw(st.booleans()):
        d["default"] = draw(st_nrad_nang())  # PySCF's 'default' entry for the elements not listed
    return d


@st.composite
def st_grid_case(draw, max_atoms=4, lmax_lo=1, dens=None, max_level=3):
    atoms = draw(st_geometry(max_atoms))
    syms = [a[0] for a in atoms]
    case = {
        "atoms": atoms,
        "level": draw(st.integers(0, max_level)),
        "atom_grid": draw(st_atom_grid(syms)),
        "prune": draw(st.sampled_from(PRUNES)),
        "radi": draw(st.sampled_from(RADI)),
        # the remaining partition settings of pyscf.dft.gen_grid.Grids (defaults half of the time)
        "becke_scheme": draw(st.sampled_from(["original_becke", "original_becke", "stratmann"])),
        "radii_adjust": draw(st.sampled_from(["treutler_atomic_radii_adjust", "treutler_atomic_radii_adjust", "becke_atomic_radii_adjust", None])),
        "atomic_radii": draw(st.sampled_from(["BRAGG_RADII", "BRAGG_RADII", "COVALENT_RADII"])),
        # lmax above the degree small shells support (the tables are zero there) and, from 17 on, above what only the
        # 434+ point shells support
        "lmax": draw(st.one_of(st.just(10), st.integers(lmax_lo, 14), st.integers(lmax_lo, 14), st.integers(15, 22))),
        "alignment": draw(st.sampled_from([0, 1, 2, 3, 7, 8, 8, 16, 32, 64, 100])),
        "sort_grids": draw(st.booleans()),
        "ecp": draw(st.sampled_from(range(4))) == 0,
        "dens": None,
        "rebuild": None,
    }
    if dens is True or (dens is None and draw(st.integers(0, 3)) == 0):
        case["dens"] = {"accept": draw(st.sampled_from([0.0, 0.4, -0.4, 0.0, 0.4, 2.5, -2.5])),
                        "quantile": draw(st.sampled_from([0.0, 0.0, 0.02, 0.1, 0.3, 0.6, 0.9])),
                        "zeta": draw(st.floats(0.4, 2.0)), "twice": draw(st.booleans())}
    if dens is not True and draw(st.integers(0, 3)) == 0:
        case["rebuild"] = {"level": draw(st.integers(0, max_level)), "prune": draw(st.sampled_from(PRUNES)), "move": draw(st.booleans())}
    return case


# ------------------------------------------------------------------------------------------------
# building blocks

def build_mol(case):
    from pyscf import gto

    atoms = [(a[0], (a[1], a[2], a[3])) for a in case["atoms"]]
    mol = gto.Mole()
    mol.atom = atoms
    mol.unit = "Angstrom"
    mol.basis = "sto-3g"
    mol.verbose = 0
    nelec = sum(gto.charge(a[0]) for a in atoms)
    if case.get("ecp"):
        # effective core potentials on the third-row atoms (PySCF sizes an atom's grid by the element, not by the
        # number of electrons left after the core is removed)
        heavy = sorted(set(a[0] for a in atoms if gto.charge(a[0]) > 10))
        if heavy:
            mol.ecp = {sy: "lanl2dz" for sy in heavy}
            mol.basis = {sy: ("lanl2dz" if sy in heavy else "sto-3g") for sy in set(a[0] for a in atoms)}
            nelec -= 10 * sum(1 for a in atoms if gto.charge(a[0]) > 10)
    mol.spin = nelec % 2
    mol.build()
    return mol


def atom_grid_arg(spec, with_default=True):
    if spec is None:
        return {}
    if spec["form"] == "tuple":
        return tuple(spec["v"])
    if spec["form"] == "list":
        return list(spec["v"])
    d = {k: tuple(v) for k, v in spec["v"].items()}
    if with_default and spec.get("default") is not None:
        d["default"] = tuple(spec["default"])
    return d


def configure(g, case, level=None, prune="_same", with_default=True):
    from pyscf.dft import gen_grid, radi

    g.level = case["level"] if level is None else level
    p = case["prune"] if prune == "_same" else prune
    g.prune = getattr(gen_grid, p) if p is not None else None
    g.radi_method = getattr(radi, case["radi"])
    g.becke_scheme = getattr(gen_grid, case.get("becke_scheme", "original_becke"))
    ra = case.get("radii_adjust", "treutler_atomic_radii_adjust")
    g.radii_adjust = getattr(radi, ra) if ra is not None else None
    g.atomic_radii = getattr(radi, case.get("atomic_radii", "BRAGG_RADII"))
    g.atom_grid = atom_grid_arg(case["atom_grid"], with_default)
    g.alignment = case["alignment"]
    return g


def multiset_rows(coords, weights, nonzero_only=True):
    """Rows (x, y, z, w) in a canonical order of their bit patterns."""
    c = np.asarray(coords, dtype=np.float64).reshape(-1, 3)
    w = np.asarray(weights, dtype=np.float64).reshape(-1)
    if nonzero_only:
        m = w != 0
        c, w = c[m], w[m]
    a = np.ascontiguousarray(np.concatenate([c, w[:, None]], axis=1))
    v = a.view(np.uint64)
    return a[np.lexsort(v.T[::-1])]


_leb = {}


def lebedev(n):
    """(n, 4) Lebedev directions and weights from PySCF (reference), memoised (pure function of n)."""
    if n not in _leb:
        from pyscf.dft.LebedevGrid import MakeAngularGrid

        _leb[n] = np.array(MakeAngularGrid(int(n)), dtype=np.float64, order="C")
    return _leb[n]


def leb_degree(n):
    """Largest L with exact quadrature of Y_l Y_l' for l, l' <= L on the n-point Lebedev rule."""
    from pyscf.dft.LebedevGrid import LEBEDEV_ORDER

    order = [k for k, v in LEBEDEV_ORDER.items() if v == n]
    assert len(order) == 1, n
    return order[0] // 2


_ysp = {}


def scipy_harmonics(n, lmax):
    """Complex spherical harmonics on the n-point Lebedev grid, list over l of (n, 2l+1) arrays."""
    key = (n, lmax)
    if key not in _ysp:
        from scipy.special import sph_harm_y

        g = lebedev(n)
        theta = np.arccos(np.clip(g[:, 2], -1, 1))
        phi = np.arctan2(g[:, 1], g[:, 0])
        out = []
        for l in range(lmax + 1):
            out.append(np.stack([sph_harm_y(l, m, theta, phi) for m in range(-l, l + 1)], axis=1))
        _ysp[key] = out
    return _ysp[key]


_yreal = {}


def standard_real_harmonics(n, lmax):
    """Real spherical harmonics in the standard convention (column l*l + l + m; m > 0 <-> cos(m phi),
    m < 0 <-> sin(|m| phi), Condon-Shortley phase removed), from scipy's complex Y_l^m on the n-point
    Lebedev grid.  For l = 1 this is (y, z, x) * sqrt(3/4pi), the convention `dirs` documents."""
    key = (n, lmax)
    if key not in _yreal:
        ysp = scipy_harmonics(n, lmax)
        out = np.zeros((n, (lmax + 1) ** 2))
        for l in range(lmax + 1):
            for m in range(-l, l + 1):
                c = ysp[l][:, l + abs(m)]
                if m == 0:
                    v = c.real
                elif m > 0:
                    v = np.sqrt(2.0) * (-1) ** m * c.real
                else:
                    v = np.sqrt(2.0) * (-1) ** m * c.imag
                out[:, l * l + l + m] = v
        _yreal[key] = out
    return _yreal[key]


def expected_tables(mol, case, level, prune_name, use_default_key):
    """Per atom: radial nodes and the angular size of each node, re-derived from PySCF's documented
    rules (atom_grid forms, level tables, radial scheme, pruning function)."""
    from pyscf import gto
    from pyscf.dft import gen_grid, radi

    spec = case["atom_grid"]
    prune = getattr(gen_grid, prune_name) if prune_name is not None else None
    radi_method = getattr(radi, case["radi"])
    out, first = [], {}
    for ia in range(mol.natm):
        symb = mol.atom_symbol(ia)
        if symb not in first:
            first[symb] = ia
        chg = gto.charge(symb)
        cfg = None
        if spec is not None:
            if spec["form"] in ("tuple", "list"):
                cfg = spec["v"]
            elif symb in spec["v"]:
                cfg = spec["v"][symb]
            elif use_default_key and spec.get("default") is not None:
                cfg = spec["default"]
        if cfg is not None:
            n_rad, n_ang = int(cfg[0]), int(cfg[1])
        else:
            n_rad, n_ang = int(gen_grid._default_rad(chg, level)), int(gen_grid._default_ang(chg, level))
        rad, dr = radi_method(n_rad, chg, first[symb])
        angs = np.asarray(prune(chg, rad, n_ang) if prune is not None else [n_ang] * n_rad, dtype=int)
        out.append({"rad": np.asarray(rad, dtype=np.float64), "angs": angs, "n_rad": n_rad, "n_ang": n_ang})
    return out


def default_key_matters(mol, case):
    spec = case["atom_grid"]
    if spec is None or spec["form"] != "dict" or spec.get("default") is None:
        return False
    return any(mol.atom_symbol(ia) not in spec["v"] for ia in range(mol.natm))


# ------------------------------------------------------------------------------------------------
# oracles

def check_reference(ctx, g, ref, stage):
    """(1) the non-zero-weight points and weights are PySCF's, bit for bit; sizes agree."""
    a = multiset_rows(g.coords, g.weights)
    b = multiset_rows(ref.coords, ref.weights)
    ok = a.shape == b.shape and a.tobytes() == b.tobytes()
    detail = {"n_cider": int(a.shape[0]), "n_pyscf": int(b.shape[0])}
    if not ok and a.shape == b.shape:
        detail["n_rows_differ"] = int(np.sum(np.any(a != b, axis=1)))
        detail["max_abs_diff"] = float(np.max(np.abs(a - b)))
    ctx.check(ok, ("pyscf_multiset", stage), **detail)
    ctx.check(g.weights.size == ref.weights.size and g.coords.shape == (g.weights.size, 3), ("pyscf_size", stage),
              cider=int(g.weights.size), pyscf=int(ref.weights.size), coords_shape=list(g.coords.shape))
    # whole arrays including zero-weight points (natural Becke zeros and padding rows) as multisets
    a = multiset_rows(g.coords, g.weights, False)
    b = multiset_rows(ref.coords, ref.weights, False)
    ctx.check(a.shape == b.shape and a.tobytes() == b.tobytes(), ("pyscf_multiset_with_zero_weight", stage))


def check_indexer(ctx, mol, g, case, exp, stage, lmax):
    """(2) index map, partitions, padding, rebuilt coordinates; (4) spherical-harmonic tables."""
    gi = g.grids_indexer
    ctx.check(gi is not None, ("indexer_missing", stage))
    idx = np.asarray(gi.idx_map)
    w, c = np.asarray(g.weights), np.asarray(g.coords)
    n = idx.size
    natm = mol.natm
    tot = [int(e["angs"].sum()) for e in exp]
    ga_exp = np.concatenate([[0], np.cumsum(tot)])
    ra_exp = np.concatenate([[0], np.cumsum([e["n_rad"] for e in exp])])
    nrad, ngrid = int(ra_exp[-1]), int(ga_exp[-1])
    # --- padding -------------------------------------------------------------------------------
    al = case["alignment"]
    ctx.check(idx.ndim == 1 and idx.dtype.kind in "iu", ("idx_map_type", stage), dtype=str(idx.dtype), ndim=idx.ndim)
    ctx.check(n <= w.size, ("idx_map_longer_than_grid", stage), n=n, size=int(w.size))
    pad_exp = (-n) % al if al > 1 else 0
    ctx.check(w.size - n == pad_exp, ("padding_amount", stage), size=int(w.size), n_idx=n, alignment=al)
    ctx.check(int(gi.padding) == w.size - n, ("padding_attribute", stage), padding=int(gi.padding), want=int(w.size - n))
    ctx.check(bool(np.all(w[n:] == 0)), ("padding_weight_nonzero", stage))
    # --- partitions ----------------------------------------------------------------------------
    aw = np.asarray(gi.all_weights)
    ctx.check(aw.ndim == 1 and aw.size == ngrid, ("all_weights_size", stage), got=int(aw.size), want=ngrid)
    ctx.check(int(gi.natm) == natm and int(gi.nrad) == nrad, ("natm_nrad", stage), natm=int(gi.natm), nrad=int(gi.nrad),
              want=[natm, nrad])
    ra, ar, rl = np.asarray(gi.ra_loc), np.asarray(gi.ar_loc), np.asarray(gi.rad_loc)
    ga, yl = np.asarray(gi.ga_loc), np.asarray(gi.ylm_loc)
    rads = np.asarray(gi.rad_arr)
    ctx.check(ra.shape == (natm + 1,) and np.array_equal(ra, ra_exp), ("ra_loc", stage), got=ra, want=ra_exp)
    ctx.check(ga.shape == (natm + 1,) and np.array_equal(ga, ga_exp), ("ga_loc", stage), got=ga, want=ga_exp)
    ctx.check(rl.shape == (nrad + 1,) and rl[0] == 0 and rl[-1] == ngrid and bool(np.all(np.diff(rl) > 0)),
              ("rad_loc", stage), first=int(rl[0]) if rl.size else None, last=int(rl[-1]) if rl.size else None,
              size=int(rl.size), want_last=ngrid, want_size=nrad + 1)
    ctx.check(ar.size >= nrad and np.array_equal(ar[:nrad], np.repeat(np.arange(natm), np.diff(ra_exp))),
              ("ar_loc", stage), size=int(ar.size), nrad=nrad)
    ctx.check(rads.shape == (nrad,) and yl.shape == (nrad,), ("rad_arr_ylm_loc_shape", stage),
              rad_arr=list(rads.shape), ylm_loc=list(yl.shape))
    ctx.check(bool(np.array_equal(rl[ra], ga)), ("ga_loc_vs_rad_loc", stage))
    nw = np.diff(rl)
    for a in range(natm):
        sl = slice(int(ra_exp[a]), int(ra_exp[a + 1]))
        got = sorted(zip(rads[sl].tolist(), nw[sl].tolist()))
        want = sorted(zip(exp[a]["rad"].tolist(), exp[a]["angs"].tolist()))
        ctx.check(got == want, ("shells_vs_pyscf_radial_and_pruning", stage), atom=a,
                  n_got=len(got), n_want=len(want), first_diff=next((list(map(list, p)) for p in zip(got, want) if p[0] != p[1]), None))
    # --- rebuilt atom-ordered coordinates ---------------------------------------------------------
    R = mol.atom_coords()
    allc = np.empty((ngrid, 3))
    atom_of = np.empty(ngrid, dtype=np.int64)
    ylm, dirs = np.asarray(gi.ylm), np.asarray(gi.dirs)
    ctx.check(dirs.shape == (ylm.shape[0], 3), ("dirs_shape", stage), dirs=list(dirs.shape), ylm=list(ylm.shape))
    ctx.check(bool(np.all(yl >= 0)) and bool(np.all(yl + nw <= ylm.shape[0])), ("ylm_loc_range", stage))
    dmax = 0.0
    for r in range(nrad):
        a = int(ar[r])
        leb = lebedev(int(nw[r]))
        allc[rl[r]:rl[r + 1]] = (rads[r] * leb[:, :3]) + R[a]
        atom_of[rl[r]:rl[r + 1]] = a
        d = dirs[yl[r]:yl[r] + nw[r]]
        dmax = max(dmax, float(np.max(np.abs(d - leb[:, :3]))))
    ctx.measure("dirs_vs_lebedev/" + stage, dmax / DTOL)
    ctx.check(dmax <= DTOL, ("dirs_vs_shell_unit_vectors", stage), err=dmax, tol=DTOL)
    # --- the map ------------------------------------------------------------------------------------
    ctx.check(n == 0 or (int(idx.min()) >= 0 and int(idx.max()) < ngrid), ("idx_map_range", stage),
              lo=int(idx.min()) if n else None, hi=int(idx.max()) if n else None, ngrid=ngrid)
    ctx.check(np.unique(idx).size == n, ("idx_map_not_injective", stage), n=n, n_unique=int(np.unique(idx).size))
    ctx.equal_bits(aw[idx], w[:n], ("weights_vs_all_weights_of_idx_map", stage))
    ctx.equal_bits(allc[idx], c[:n], ("coords_vs_rebuilt_atom_ordered_coords", stage))
    ia = np.asarray(gi.iatom_list)
    ctx.check(ia.shape == (n,) and np.array_equal(ia, atom_of[idx]), ("iatom_list", stage),
              shape=list(ia.shape), n_wrong=int(np.sum(ia != atom_of[idx])) if ia.shape == (n,) else None)
    # --- spherical harmonics ---------------------------------------------------------------------------
    nlm = (lmax + 1) ** 2
    ctx.check(int(gi.lmax) == lmax and int(gi.nlm) == nlm and ylm.shape[1] == nlm, ("ylm_columns", stage),
              lmax=int(gi.lmax), nlm=int(gi.nlm), cols=int(ylm.shape[1]), want=nlm)
    for off, nang in sorted(set(zip(yl.tolist(), nw.tolist()))):
        check_ylm_table(ctx, ylm[off:off + nang], nang, lmax, stage)
    return n


def check_ylm_table(ctx, Y, nang, lmax, stage):
    leb = lebedev(nang)
    wq = leb[:, 3]
    Lq = leb_degree(nang)            # degree the shell's quadrature supports
    L = min(Lq, lmax)
    nL = (L + 1) ** 2
    cls = "nang=%d" % nang
    ctx.event("ylm_table_" + cls)
    if (Lq + 1) ** 2 < Y.shape[1]:
        ctx.check(bool(np.all(Y[:, (Lq + 1) ** 2:] == 0)), ("ylm_nonzero_above_supported_degree", stage, cls),
                  n_nonzero=int(np.count_nonzero(Y[:, (Lq + 1) ** 2:])), supported=Lq)
    G = 4 * np.pi * (Y[:, :nL] * wq[:, None]).T @ Y[:, :nL]
    err = float(np.max(np.abs(G - np.eye(nL))))
    ctx.measure("ylm_orthonormality", err / YTOL)
    ctx.check(err <= YTOL, ("ylm_orthonormality", stage, cls), err=err, tol=YTOL, supported=L)
    ref = standard_real_harmonics(nang, Lq)
    e = float(np.max(np.abs(Y[:, :nL] - ref[:, :nL])))
    ctx.measure("ylm_vs_standard_real_harmonics", e / YTOL)
    ctx.check(e <= YTOL, ("ylm_vs_standard_real_harmonics", stage, cls), err=e, tol=YTOL, supported=L)
    # degree structure without any sign / ordering convention: the 2l+1 columns tabulated for degree l span
    # the space of degree-l harmonics (projection onto scipy's Y_l^m is unitary, onto other degrees zero)
    ysp = scipy_harmonics(nang, Lq)
    for l in range(L + 1):
        blk = Y[:, l * l:(l + 1) ** 2]
        for lp in range(Lq + 1):
            P = 4 * np.pi * (blk * wq[:, None]).T @ ysp[lp].conj()
            if lp == l:
                e = float(np.max(np.abs(P @ P.conj().T - np.eye(2 * l + 1))))
            else:
                e = float(np.max(np.abs(P)))
            ctx.measure("ylm_degree_structure", e / YTOL)
            ctx.check(e <= YTOL, ("ylm_degree_structure", stage, cls), l=l, lp=lp, err=e, tol=YTOL)


def model_density(mol, coords, zeta):
    """Smooth positive model density: sum of atom-centred exponentials (elementwise, order independent)."""
    R = mol.atom_coords()
    rho = np.zeros(coords.shape[0])
    for a in range(mol.natm):
        d = np.sqrt(((coords - R[a]) ** 2).sum(axis=1))
        rho += mol.atom_charge(a) * np.exp(-2.0 * zeta * d)
    return rho


def pick_threshold(v, size, q):
    """threshold t (as passed to prune_by_density_) such that t/size falls in a relative gap >= 1e-6 of the
    sorted positive |rho*w| values, next to quantile q: the kept set is then robust to last-bit effects."""
    pos = np.sort(v[v > 0])
    if pos.size == 0:
        return None
    if q <= 0:
        return float(pos[0] * 0.5 * size)
    k = min(int(q * pos.size), pos.size - 2)
    while k < pos.size - 1 and not pos[k + 1] > pos[k] * (1 + 1e-6):
        k += 1
    if k >= pos.size - 1:
        return None
    return float(np.sqrt(pos[k] * pos[k + 1]) * size)


def run_grid_case(case, ctx, sub):
    from pyscf.dft import gen_grid

    from ciderpress.pyscf.gen_cider_grid import CiderGrids

    mol = build_mol(case)
    lmax = int(case["lmax"])
    syms = [a[0] for a in case["atoms"]]
    ctx.event("natm=%d" % mol.natm)
    ctx.event("prune=%s" % case["prune"])
    ctx.event("radi=" + case["radi"])
    ctx.event("atom_grid=%s" % ("level%d" % case["level"] if case["atom_grid"] is None else case["atom_grid"]["form"]))
    ctx.event("lmax=%d" % lmax)
    ctx.event("alignment=%d" % case["alignment"])
    ctx.event("sort_grids=%s" % case["sort_grids"])
    if len(set(syms)) < len(syms):
        ctx.event("repeated_element")
    default_matters = default_key_matters(mol, case)
    if default_matters:
        ctx.event("atom_grid_default_key_in_effect")

    def build_cider(level=None, prune="_same", g=None):
        g = configure(CiderGrids(mol, lmax=lmax) if g is None else g, case, level, prune)
        try:
            g.build(sort_grids=case["sort_grids"])
        except ValueError as e:
            if lmax == 10:
                raise
            # own signature of the (fixed) defect DESIGN section 6 item 11: every lmax in 1..14 is a
            # documented constructor argument and must build
            raise Violation((DEFECT, "lmax_ne_10", "build_raises_ValueError"), {"lmax": lmax, "message": str(e)[:200]})
        return g

    def build_ref(level=None, prune="_same"):
        r = configure(gen_grid.Grids(mol), case, level, prune)
        r.build(sort_grids=case["sort_grids"])
        return r

    def full_check(g, stage, level, prune_name):
        ref = build_ref(level, prune_name)
        if default_matters:
            # own signature of the (fixed) defect "atom_grid 'default' key ignored": judged before the generic
            # multiset oracle so that a regression is bucketed under its own name
            a = multiset_rows(g.coords, g.weights)
            b = multiset_rows(ref.coords, ref.weights)
            if not (a.shape == b.shape and a.tobytes() == b.tobytes()):
                raise Violation((DEFECT, "atom_grid_default_key", "ignored"),
                                {"n_cider": int(a.shape[0]), "n_pyscf": int(b.shape[0]), "atom_grid": case["atom_grid"],
                                 "stage": stage})
        check_reference(ctx, g, ref, stage)
        pn = case["prune"] if prune_name == "_same" else prune_name
        exp = expected_tables(mol, case, case["level"] if level is None else level, pn, True)
        n = check_indexer(ctx, mol, g, case, exp, stage, lmax)
        return ref, exp, n

    g = build_cider()
    ref, exp, n = full_check(g, "built", None, "_same")
    sizes = sorted(set(int(x) for e in exp for x in e["angs"]))
    nontrivial = mol.natm >= 2 or len(sizes) >= 2
    key = [sorted(syms), case["level"], case["atom_grid"], case["prune"], case["radi"], lmax, case["alignment"],
           case["sort_grids"], sub]
    ctx.event("n_angular_sizes=%d" % min(len(sizes), 6))
    ctx.event("ngrids<=%d" % (10 ** len(str(int(g.weights.size)))))
    if int(np.sum(g.weights[:n] == 0)):
        ctx.event("natural_zero_weight_points")

    # ---- density pruning ------------------------------------------------------------------------------
    dn = case.get("dens")
    if dn is not None:
        tol = gen_grid.NELEC_ERROR_TOL
        for rnd in range(2 if dn.get("twice") else 1):
            stage = "pruned" if rnd == 0 else "pruned_twice"
            rho = model_density(mol, g.coords, dn["zeta"])
            n0 = float(np.dot(rho, g.weights))
            delta = dn["accept"] * tol if rnd == 0 else 0.0
            scale = mol.nelectron * (1.0 + delta) / n0
            rho = rho * scale
            q = dn["quantile"] if rnd == 0 else min(0.95, dn["quantile"] + 0.2)
            thr = pick_threshold(np.abs(rho * g.weights), g.weights.size, q)
            if thr is None:
                ctx.event("no_threshold_gap")
                break
            rho_ref = model_density(mol, ref.coords, dn["zeta"]) * scale
            before = (g.coords.copy(), g.weights.copy(), np.asarray(g.grids_indexer.idx_map).copy(), int(g.grids_indexer.padding))
            nreal_before = int(np.asarray(g.grids_indexer.idx_map).size)
            g.prune_by_density_(rho.copy(), thr)
            ref.prune_by_density_(rho_ref.copy(), thr)
            accept = abs(delta) < tol
            ctx.event("prune_%s" % ("accepted" if accept else "rejected_by_electron_count"))
            if not accept:
                ctx.check(g.weights.size == before[1].size and g.weights.tobytes() == before[1].tobytes()
                          and g.coords.tobytes() == before[0].tobytes()
                          and np.array_equal(np.asarray(g.grids_indexer.idx_map), before[2])
                          and int(g.grids_indexer.padding) == before[3],
                          ("prune_rejected_but_grid_changed", stage))
                check_reference(ctx, g, ref, stage + "_rejected")
                break
            check_reference(ctx, g, ref, stage)
            n2 = check_indexer(ctx, mol, g, case, exp, stage, lmax)
            removed = nreal_before - n2
            ctx.event("prune_removed_%s" % ("0" if removed == 0 else ("<10%" if removed < 0.1 * nreal_before else ">=10%")))
            nontrivial = nontrivial and removed >= 1
            key.append([stage, dn["accept"], dn["quantile"]])

    # ---- reset / rebuild with other settings on the same object ---------------------------------------------
    rb = case.get("rebuild")
    if rb is not None:
        ctx.event("rebuild_sequence")
        g.reset()
        ctx.check(g.grids_indexer is None and g.coords is None, ("reset_keeps_state",))
        g = build_cider(rb["level"], rb["prune"], g)
        full_check(g, "rebuilt", rb["level"], rb["prune"])
        key.append(["rebuilt", rb["level"], rb["prune"]])
        if rb.get("move"):
            # reset(mol2): the same grids object handed a displaced copy of the molecule (what mf.reset(mol) and the
            # scanners do at every new geometry) is, after build(), PySCF's grid for the new geometry
            mol2 = mol.copy()
            mol2.set_geom_(mol.atom_coords() + 0.11 * np.arange(1, 3 * mol.natm + 1).reshape(mol.natm, 3) / (3 * mol.natm), unit="Bohr")
            mol2.build(False, False)
            g.reset(mol2)
            g = configure(g, case, rb["level"], rb["prune"])
            g.build(sort_grids=case["sort_grids"])
            r2 = configure(gen_grid.Grids(mol2), case, rb["level"], rb["prune"])
            r2.build(sort_grids=case["sort_grids"])
            ctx.event("reset_to_moved_molecule")
            ctx.check(g.mol is mol2, ("reset_mol", "grids_keep_old_molecule"))
            check_reference(ctx, g, r2, "moved")
            key.append(["moved"])

    if nontrivial:
        ctx.nontrivial(key)


# ------------------------------------------------------------------------------------------------
RULE = ("molecules of 1-4 atoms from H..Ar (element pool with repeats), tetrahedral template x drawn scale, jitter and "
        "rigid motion; level 0-3 or atom_grid as tuple / list / dict over a subset of the elements (n_rad 1-60, n_ang "
        "any Lebedev size 6..590; half of the dicts carry PySCF's 'default' entry); prune in {nwchem, sg1, treutler, None}; "
        "5 radial schemes; becke_scheme original/stratmann, radii_adjust treutler/becke/None, BRAGG/COVALENT radii (defaults half of the time); atoms optionally labelled (H1, H2) with label-keyed atom_grid; lanl2dz effective core potentials on Na-Ar in a quarter of the cases; plain CiderGrids(mol, lmax).build() with lmax 1-22 (10 a quarter of the time, 15-22 a quarter: above 16 only the 434+ point shells support every degree); alignment in {0,1,2,3,7,8,16,32,64,100}; sort_grids T/F. "
        "Oracles: bit-for-bit multiset equality of non-zero-weight (x,y,z,w) and of the whole arrays with "
        "pyscf.dft.gen_grid.Grids of the same settings; idx_map injective into range(all_weights.size), "
        "all_weights[idx_map] == weights[:n] and atom-ordered coordinates rebuilt from rad_arr x PySCF Lebedev "
        "directions + atom positions: all_coords[idx_map] == coords[:n] (bits); iatom_list; ra_loc/ga_loc/ar_loc/"
        "rad_loc partitions against counts re-derived from PySCF's radial scheme and pruning function; padding == "
        "size - idx_map.size == (-n) mod alignment with zero weight; per (table, angular size): 4pi sum w Y Y' = "
        "delta up to min(lmax, Lebedev order//2) at 1e-12, exact zeros above the shell's degree, degree-l block "
        "spans scipy's degree-l harmonics, table == standard real harmonics (index l*l+l+m, m<0 sine, no "
        "Condon-Shortley phase; the l=1 convention that `dirs` documents) at 1e-12, dirs == Lebedev unit vectors "
        "at 1e-14. ")


@subcheck("C19", "build_index_map", lambda: st_grid_case(4, 1, None, 3), quick=1200, thorough=20000,
          rule=RULE + "A quarter of the cases continue with prune_by_density_ and a quarter with reset + rebuild at "
                      "another level / pruning scheme on the same object (all oracles again), half of those followed by reset(mol2) with a displaced copy of the molecule and a build that must give PySCF's grid for the new geometry. non-trivial = >= 2 atoms "
                      "or >= 2 distinct angular sizes (and >= 1 point removed when density pruning ran); distinct by "
                      "(elements, level, atom_grid, prune, radial scheme, lmax, alignment, sort_grids, stages)",
          tolerances={"ylm_orthonormality": YTOL, "dirs": DTOL, "everything_else": "bit equality"}, assumptions=ASSUME,
          shrink=True)
def build_index_map(case, ctx):
    run_grid_case(case, ctx, "build_index_map")


@subcheck("C19", "prune_by_density", lambda: st_grid_case(3, 1, True, 2), quick=640, thorough=10000,
          rule="same generator (<= 3 atoms, level <= 2), always followed by prune_by_density_(rho, threshold) on the "
               "CIDER grid and on the PySCF reference with the same model density (sum of atom-centred exponentials "
               "evaluated at each grid's own points incl. padding rows, normalised to nelectron*(1+d) with d inside "
               "(0, +-0.4 tol) or outside (+-2.5 tol) PySCF's electron-count acceptance test) and a threshold placed "
               "in a relative gap >= 1e-6 of the sorted |rho*w| next to a drawn quantile (0 = only zero-weight points "
               "go); half of the accepted cases prune a second time. Oracles after pruning: the kept multiset is "
               "PySCF's, bit for bit; all index-map / partition / padding oracles again; a rejected call leaves "
               "the grid untouched. non-trivial = accepted and >= 1 real point removed",
          tolerances={"everything": "bit equality"}, assumptions=ASSUME)
def prune_by_density(case, ctx):
    run_grid_case(case, ctx, "prune_by_density")


@subcheck("C19", "lmax_build_asan", lambda: st_grid_case(2, 1, False, 1), quick=96, thorough=1200, variant="asan",
          max_shards=4,
          rule="1-2 atoms, level 0-1 or small atom_grid, lmax 1..22; build + all oracles of build_index_map in a process "
               "preloading the ASan+UBSan build of libmcider (the spherical-harmonic recursion runs with every table "
               "width): an out-of-bounds access is a violation of the case in flight",
          tolerances={"ylm_orthonormality": YTOL, "dirs": DTOL}, assumptions=ASSUME)
def lmax_build_asan(case, ctx):
    run_grid_case(case, ctx, "lmax_build_asan")


@st.composite
def st_lmax0(draw):
    return {"atoms": draw(st_geometry(3)), "lmax": draw(st.sampled_from([0, 0, 0, -1, -2]))}


@subcheck("C19", "lmax0_rejected", st_lmax0, quick=24, thorough=200, max_shards=2,
          rule="contract since 5a0a6f1: the indexer takes the grid directions from the l=1 harmonics, so "
               "CiderGrids(mol, lmax < 1) is rejected with ValueError by the constructor (1-3 atoms, lmax 0 mostly, "
               "-1, -2); anything else (object returned, other exception type) is a violation; lmax = 1 on the same "
               "molecule must still construct. distinct by (elements, lmax)",
          assumptions=ASSUME)
def lmax0_rejected(case, ctx):
    from ciderpress.pyscf.gen_cider_grid import CiderGrids

    mol = build_mol(case)
    lmax = int(case["lmax"])
    ctx.event("lmax=%d" % lmax)
    raised = False
    try:
        CiderGrids(mol, lmax=lmax)
    except Exception:
        raised = True
    ctx.check(raised, ("lmax_below_1_accepted",), lmax=lmax)
    g = CiderGrids(mol, lmax=1)
    ctx.check(int(g.lmax) == 1 and int(g.nlm) == 4, ("lmax_1_constructor",), lmax=int(g.lmax), nlm=int(g.nlm))
    ctx.nontrivial([sorted(a[0] for a in case["atoms"]), lmax])
