"""C10 -- results are independent of the OpenMP thread count and schedule.

Every parallel C entry point that a Python wrapper of the package reaches is called with problem
shapes chosen around the team size (0, 1, 2, T-1, T, T+1, primes, sizes below the team) for
T in {1,2,3,5,8,16,32,64}; the oracle is the same call with a team of 1 and run-to-run equality
over repetitions.  Outputs the wrapper documents as overwritten are poisoned with NaN first (an
element no thread wrote shows up as NaN != number); accumulated outputs get a known prefill.

Per routine (decided by reading the C source; see ENTRY table in the report):
  exact   per-output arithmetic does not depend on the partition -> results must be bit-identical
  blas    a BLAS/LAPACK call sits inside the worksharing loop (one call per work item, same
          arguments for any team) -> compared at 1e-12 * max|reference|; bit-equality is recorded
  reduce  per-thread partial sums are combined (contract_grad_terms_parallel, add_lp1_term_grad)
          -> 1e-12 * sum of |terms|, also run-to-run

LIMIT (stated plainly): the technique owns the inputs and the team size, not the interleaving.  A
partitioning bug is a deterministic function of (size, T) and is found reliably; a data race that
needs a rare interleaving can survive any finite number of repetitions, and no thread sanitizer is
usable in this sandbox (DESIGN F6).
"""
import ctypes
import json
import os
import subprocess
import sys
import tempfile

import numpy as np
from hypothesis import strategies as st

from cpverif import bootstrap
from cpverif import gen_layout as G
from cpverif.oracles import rng_from
from cpverif.runner import HarnessError, subcheck

SEED = st.integers(0, 2**31 - 1)
REPS = st.sampled_from([2, 3, 5])
BLAS_RTOL = 1e-12


def nontrivial_T(ctx, T, size, key):
    if T >= 2 and (size < T or size % T != 0):
        ctx.nontrivial(key)
    ctx.event("T=%d" % T)
    if size < T:
        ctx.event("size<team")
    elif size % T:
        ctx.event("size%team!=0")
    else:
        ctx.event("size%team==0")


def run_diff(ctx, name, call, T, reps, mode="exact", scale_of=None):
    """call() -> dict label -> ndarray (every output freshly poisoned/prefilled inside call).
    Reference = team of 1; then `reps` runs with a team of T."""
    try:
        bootstrap.set_threads(1)
        ref = call()
        for r in range(reps):
            bootstrap.set_threads(T)
            got = call()
            ctx.check(sorted(got) == sorted(ref), (name, "outputs"))
            for k in sorted(ref):
                a, b = np.asarray(got[k]), np.asarray(ref[k])
                if mode == "exact" or b.dtype.kind in "iub":
                    ctx.equal_bits(a, b, (name, k, "T_vs_1"), T=T, rep=r)
                else:
                    same = a.shape == b.shape and a.tobytes() == b.tobytes()
                    ctx.event("%s:%s" % (name, "bit_equal" if same else "not_bit_equal"))
                    if same:
                        continue
                    ctx.check(a.shape == b.shape, (name, k, "shape"))
                    nan_a, nan_b = np.isnan(a), np.isnan(b)
                    ctx.check(np.array_equal(nan_a, nan_b), (name, k, "unwritten_pattern"), T=T, rep=r,
                              n_got=int(nan_a.sum()), n_ref=int(nan_b.sum()))
                    sc = scale_of(k, b) if scale_of else (float(np.nanmax(np.abs(b))) if b.size else 0.0)
                    ctx.close(np.nan_to_num(a), np.nan_to_num(b), (name, k, "T_vs_1"), rtol=BLAS_RTOL, scale=sc, T=T, rep=r)
        return ref
    finally:
        bootstrap.set_threads(1)


def nan(shape):
    return np.full(shape, np.nan)


# ----------------------------------------------------------------------------------------------
# 1. interpolation coefficients (cider_coefs.c)

COEF_ENTRIES = ["gto_gq", "gto_qg", "vk1_gq", "vk1_qg", "spline_gq", "spline_qg", "ind_etb", "ind_zexp", "smooth"]


@st.composite
def st_coefs(draw):
    T, n = draw(G.st_team_and_size(extra=(200, 1001, 20011, 50021)))
    return {"entry": draw(st.sampled_from(COEF_ENTRIES)), "T": T, "n": n, "i": draw(st.integers(-1, 3)),
            "nalpha": draw(st.integers(2, 9)), "lambd": draw(st.sampled_from([1.6, 1.8, 2.2])), "reps": draw(REPS),
            "seed": draw(SEED)}


@subcheck("C10", "coefs", st_coefs, quick=1600, thorough=30000,
          rule="cider_coefs_gto_gq/qg (all four feature ids through NLDFGaussianPlan.get_interpolation_coefficients), "
               "cider_coefs_vk1_gq/qg (version k, i=-1), cider_coefs_spline_gq/qg, cider_ind_etb/zexp + cider_ind_clip "
               "(NLDFSplinePlan.get_a2q_fast), smooth_cider_exponents (eval_feat_exp with use_smooth_expnt_cutoff); "
               "ngrids in {0,1,2,T-1,T,T+1,2T+1,4T-1, primes, 200, 1001, 20011, 50021 (long loops so that threads really overlap)} x T in {1,2,3,5,8,16,32,64} x 2-5 repetitions; "
               "caller buffers poisoned with NaN; all element-wise -> bit-identical to the 1-thread result; "
               "non-trivial = T>=2 and (ngrids < T or ngrids % T != 0).  Interleavings are not controlled: races are "
               "found only probabilistically, partition bugs reliably",
          tolerances={"exact": 0.0})
def coefs(case, ctx):
    from ciderpress.dft.plans import NLDFGaussianPlan, NLDFSplinePlan
    from ciderpress.dft.settings import NLDFSettingsVJ, NLDFSettingsVK

    e, n, T = case["entry"], case["n"], case["T"]
    theta = [1.0, 0.0, 0.03125]
    fps = [[2.0, 0.0, 0.04], [1.0, 0.0, 0.02], [4.0, 0.0, 0.08], [2.0, 0.0, 0.04, 2.0]]
    sj = NLDFSettingsVJ("MGGA", theta, "one", ["se", "se_ar2", "se_a2r4", "se_erf_rinv"], fps)
    sk = NLDFSettingsVK("MGGA", theta, "one", fps[:2], "exponential")
    order = "gq" if e.endswith("gq") else "qg"
    na = case["nalpha"]
    rng = rng_from(case["seed"])
    ctx.event("entry=" + e)
    nontrivial_T(ctx, T, n, [e, T, n])
    if e.startswith("gto") or e.startswith("vk1"):
        plan = NLDFGaussianPlan(sk if e.startswith("vk1") else sj, 1, 0.01, case["lambd"], na, coef_order=order)
        i = -1 if e.startswith("vk1") else case["i"]
        arg = np.ascontiguousarray(np.exp(rng.uniform(np.log(1e-3), np.log(20.0), n)))
        shape = (n, na) if order == "gq" else (na, n)

        def call():
            vb, db = nan(shape), nan(shape)
            a0 = arg.copy()
            p, dp = plan.get_interpolation_coefficients(a0, i=i, vbuf=vb, dbuf=db)
            return {"p": p.copy(), "dp": dp.copy(), "arg": a0}
    elif e.startswith("spline"):
        plan = NLDFSplinePlan(sj, 1, 0.01, case["lambd"], na, coef_order=order, alpha_formula="zexp",
                              spline_size=na + case["seed"] % 3 * na)
        i = case["i"]
        expg = np.ascontiguousarray(np.exp(rng.uniform(np.log(1e-4), np.log(1e3), n)))
        bootstrap.set_threads(1)
        arg = plan.get_a2q_fast(expg)[0]
        shape = (n, na) if order == "gq" else (na, n)

        def call():
            vb, db = nan(shape), nan(shape)
            p, dp = plan.get_interpolation_coefficients(arg.copy(), i=i, vbuf=vb, dbuf=db)
            return {"p": p.copy(), "dp": dp.copy()}
    elif e.startswith("ind"):
        plan = NLDFSplinePlan(sj, 1, 0.01, case["lambd"], na, alpha_formula="etb" if e == "ind_etb" else "zexp",
                              spline_size=na + case["seed"] % 2 * 3)
        expg = np.ascontiguousarray(np.exp(rng.uniform(np.log(1e-5), np.log(1e4), n)))

        def call():
            di, dd = plan.get_a2q_fast(expg.copy())
            return {"di": di, "derivi": dd}
    else:
        plan = NLDFGaussianPlan(sj, 1, 0.01, case["lambd"], na, use_smooth_expnt_cutoff=True)
        rho = np.exp(rng.uniform(np.log(1e-6), np.log(30.0), n))
        sigma = rng.uniform(0, 3, n) * rho ** (8.0 / 3) * 20
        tau = sigma / (8 * rho) + rng.uniform(0, 3, n) * rho ** (5.0 / 3) * 3
        i = case["i"]

        def call():
            a, da = plan.eval_feat_exp((rho.copy(), sigma.copy(), tau.copy()), i=i)
            return {"a": a, "dadn": da[0], "dadsigma": da[1], "dadtau": da[2]}

    run_diff(ctx, "coefs:" + e, call, T, case["reps"])


# ----------------------------------------------------------------------------------------------
# 2. grids <-> harmonics <-> orbitals, convolution collections

@st.composite
def st_lin(draw):
    T = draw(st.sampled_from(G.TEAMS_C10))
    real = draw(st.integers(0, 7)) == 0
    lay = draw(G.st_real_layout(levels=(0,), lmaxs=(1, 2, 3))) if real else \
        draw(G.st_synth_layout(max_l=4, max_nrad=12, lebedev=[6, 14, 26]))
    nalpha = draw(st.integers(1, 8))
    return {"entry": draw(st.sampled_from(["a2y", "y2a", "rad2orb", "orb2rad"])), "T": T, "layout": lay,
            "nalpha": nalpha, "win": draw(G.st_window(nalpha)), "reps": draw(REPS), "seed": draw(SEED)}


@subcheck("C10", "grid_orb", st_lin, quick=1000, thorough=20000,
          rule="reduce_angc_to_ylm / reduce_ylm_to_angc (dynamic,4 over radial shells, one dgemm per shell: class blas) and "
               "contract_rad_to_orb / contract_orb_to_rad (dynamic,4 over shells / radial points, fixed summation order: "
               "exact) through AtomicGridsIndexer.reduce_angc_ylm_ and ATCBasis.convert_rad2orb_; synthetic layouts with "
               "1-36 radial shells and 1-40 basis shells (mostly below the team) and real H2/HF/H2O/He layouts; windows "
               "with stride/offset; NaN-poisoned outputs; T in {1..64} x 2-5 repetitions; non-trivial = T>=2 and loop "
               "size not a multiple of T.  Interleavings are not controlled (races only probabilistically)",
          tolerances={"exact": 0.0, "blas_rtol": BLAS_RTOL})
def grid_orb(case, ctx):
    lay, e, T = case["layout"], case["entry"], case["T"]
    L = G.layout_ns(lay)
    ind = L.indexer
    nalpha, win = case["nalpha"], case["win"]
    rng = rng_from(case["seed"])
    ng, nrad, nlm = ind.all_weights.size, ind.nrad, ind.nlm
    sl = slice(win["offset"], win["offset"] + nalpha)
    ctx.event("entry=" + e)
    if e in ("a2y", "y2a"):
        nontrivial_T(ctx, T, nrad, [e, T, nrad, nalpha, win])
        gq = G.fill(rng, (ng, win["stride"]))
        rl = G.fill(rng, (nrad, nlm, nalpha))

        def call():
            if e == "a2y":
                out = nan((nrad, nlm, nalpha))
                ind.reduce_angc_ylm_(out, gq.copy(), a2y=True, offset=win["offset"])
                return {"rlmq": out}
            out = gq.copy()
            out[:, sl] = np.nan
            ind.reduce_angc_ylm_(rl.copy(), out, a2y=False, offset=win["offset"])
            return {"gq": out}

        run_diff(ctx, "reduce:" + e, call, T, case["reps"], mode="blas")
        return
    if lay["kind"] == "real":
        atco = G.build_real_atco(lay)[0]
    else:
        atco = G.build_atco(lay["atoms"])[0]
    nao = atco.nao
    nontrivial_T(ctx, T, atco.nbas if e == "rad2orb" else nrad, [e, T, atco.nbas, nrad, nalpha, win])
    pu = G.fill(rng, (nao, win["stride"]))
    rl = G.fill(rng, (nrad, nlm, nalpha))
    zero = case["seed"] % 2 == 0

    def call():
        if e == "rad2orb":
            out = pu.copy()
            if zero:
                out[:, sl] = np.nan
            atco.convert_rad2orb_(rl.copy(), out, ind, ind.rad_arr, rad2orb=True, offset=win["offset"], zero_output=zero)
            return {"p_uq": out}
        out = nan((nrad, nlm, nalpha)) if zero else rl.copy()
        atco.convert_rad2orb_(out, pu.copy(), ind, ind.rad_arr, rad2orb=False, offset=win["offset"], zero_output=zero)
        return {"rlmq": out}

    run_diff(ctx, "convert:" + e, call, T, case["reps"])


@st.composite
def st_cclT(draw):
    T = draw(st.sampled_from(G.TEAMS_C10))
    return {"T": T, "atoms": draw(G.st_atoms(max_natm=3, max_l=3, max_nexp=3)), "ccl": draw(G.st_ccl(nalpha_max=6)),
            "reps": draw(REPS), "seed": draw(SEED)}


@subcheck("C10", "conv_collection", st_cclT, quick=640, thorough=12000,
          rule="ConvolutionCollection(K): compute_integrals_ (generate_atc_integrals_vj/vi, dynamic over input shells, "
               "element-wise: exact), solve_projection_coefficients (solve_atc_coefs, per-thread scratch + dpotrs: blas), "
               "multiply_atc_integrals fwd/bwd (dgemm per shell pair: blas) and _vk (exact); a collection built with a "
               "team of T is compared with one built with a team of 1 through multiply on the same input evaluated with "
               "one thread (isolates integrals / solve), then the same collection is multiplied with T vs 1 threads; "
               "1-3 atoms, 1-30 shells (mostly below the team), nalpha 1-6; 2-5 repetitions; interleavings not controlled",
          tolerances={"exact": 0.0, "blas_rtol": BLAS_RTOL})
def conv_collection(case, ctx):
    T, cs = case["T"], case["ccl"]
    rng = rng_from(case["seed"])

    def build(team, solve):
        bootstrap.set_threads(team)
        c = G.build_ccl(case["atoms"], cs)
        c.compute_integrals_()
        if solve:
            c.solve_projection_coefficients()
        bootstrap.set_threads(1)
        return c

    c1 = build(1, False)
    ni, no, na, nb = c1.atco_inp.nao, c1.atco_out.nao, c1.nalpha, c1.num_out
    nontrivial_T(ctx, T, c1.atco_inp.nbas, ["ccl", T, c1.atco_inp.nbas, c1.atco_out.nbas, na, nb, cs["vk"]])
    ctx.event("vk" if cs["vk"] else "vij")
    x = G.fill(rng, (ni, na))
    y = G.fill(rng, (no, nb))

    def mult(c):
        return {"fwd": c.multiply_atc_integrals(x.copy(), output=np.zeros((no, nb)), fwd=True),
                "bwd": c.multiply_atc_integrals(y.copy(), output=np.zeros((ni, na)), fwd=False)}

    try:
        ref_int = mult(c1)
        ref_sol = mult(build(1, True))
        for r in range(case["reps"]):
            cT = build(T, False)
            got = mult(cT)
            for k in got:
                ctx.equal_bits(got[k], ref_int[k], ("ccl_integrals", k, "T_vs_1"), T=T, rep=r)
            cTs = build(T, True)
            got = mult(cTs)
            for k in got:
                same = got[k].tobytes() == ref_sol[k].tobytes()
                ctx.event("ccl_solve:" + ("bit_equal" if same else "not_bit_equal"))
                ctx.close(got[k], ref_sol[k], ("ccl_solve", k, "T_vs_1"), rtol=BLAS_RTOL, T=T, rep=r)
        cs1 = build(1, True)
        run_diff(ctx, "ccl_multiply_vk" if cs["vk"] else "ccl_multiply", lambda: mult(cs1), T, case["reps"],
                 mode="exact" if cs["vk"] else "blas")
    finally:
        bootstrap.set_threads(1)


# ----------------------------------------------------------------------------------------------
# 3. interpolators (conv_interpolation.c)

INTERP_ENTRIES = ["spline_maps", "num_ai", "spline_bas", "spline_bas_deriv", "conv2spline", "spline2conv",
                  "interp_fwd", "interp_bwd", "orb2grid", "grid2orb", "grad", "real_orb2grid", "real_grid2orb", "real_grad"]


@st.composite
def st_interpT(draw):
    T = draw(st.sampled_from(G.TEAMS_C10))
    n1 = draw(st.sampled_from([0, 1, 2]))
    lmax0 = n1 == 0 and draw(st.integers(0, 7)) == 0     # s-only basis: interpolator nlm = 1
    lay = draw(G.st_synth_layout(max_natm=3, max_l=0 if lmax0 else 3, max_nexp=2, max_nrad=4, lebedev=[6, 14],
                                 min_l=1 if n1 else 0, min_l_first=0 if lmax0 else 1))
    sizes = [s for s in G.team_sizes(T) if 1 <= s <= 300]
    return {"entry": draw(st.sampled_from(INTERP_ENTRIES)), "T": T, "layout": lay, "n0": draw(st.integers(0 if n1 else 1, 3)),
            "n1": n1, "nrad": draw(st.sampled_from([2, 3, 4, 5, 7, 9, 16, 17, 33])), "aparam": 0.03,
            "rmax": draw(G.pfloat(1.0, 30.0)), "itype": draw(st.sampled_from(["plain", "direct_onsite", "direct_spline"])),
            "npts": draw(st.sampled_from(sizes)), "reps": draw(REPS), "seed": draw(SEED),
            "real_layout": draw(G.st_real_layout(levels=(0,), lmaxs=(2, 3))), "real_nldf": draw(G.st_nldf())}


@subcheck("C10", "interpolation", st_interpT, quick=1100, thorough=20000,
          rule="LCAOInterpolator / LCAOInterpolatorDirect entry points: compute_spline_maps (constructor tables), "
               "compute_num_spline_contribs_new (set_coords), compute_spline_bas_separate(_deriv) (static over points, "
               "per-thread harmonic buffers), project_conv_to_spline / project_spline_to_conv, fill_l1_coeff_fwd/bwd "
               "(exact), compute_mol_convs_single_new / compute_pot_convs_single_new (dynamic,1 over spline bins, dgemm "
               "per bin + per-thread scratch: blas), add_lp1_term_fwd/bwd, add_lp1_onsite_new_fwd/bwd, and the gradient "
               "reductions add_lp1_term_grad (critical section) / contract_grad_terms_parallel (hand-computed chunks per "
               "thread: class reduce); spline size 2-33 and, for the plain interpolator, a free number of target points "
               "from {1,2,T-1,T,T+1,primes..300}; Direct interpolators use the layout's own grid (6-170 points); 1-3 "
               "atoms; plus project_orb2grid / project_grid2orb / project_orb2grid_grad of real PyscfNLDFGenerator "
               "interpolators (600-2300 points, long enough loops for threads to overlap); T in {1..64} x 2-5 repetitions; interleavings not controlled",
          tolerances={"exact": 0.0, "blas_rtol": BLAS_RTOL, "reduce_rtol": BLAS_RTOL})
def interpolation(case, ctx):
    lay, e, T = case["layout"], case["entry"], case["T"]
    rng = rng_from(case["seed"])
    if e.startswith("real_"):
        ns = dict(case["real_nldf"])
        if e == "real_grad" and ns["interp"] == "train_gen":
            ns["interp"] = "onsite_direct"
        bootstrap.set_threads(1)
        _, grids, gen = G.build_real_generator(case["real_layout"], ns)
        it = gen.interpolator
        npts = it.all_coords.shape[0]
        pad = grids.grids_indexer.padding if hasattr(it, "grids_indexer") else 0
        ctx.event("entry=" + e)
        ctx.event("real:%s/%s" % (ns["kind"], ns["interp"]))
        nontrivial_T(ctx, T, npts, [e, T, npts, ns["kind"], ns["interp"], it._n0, it._n1])
        f_uq = G.fill(rng, (it.atco.nao, it.num_in))
        f_g = G.fill(rng, (npts + pad, it.num_out))
        if e == "real_orb2grid":
            run_diff(ctx, "interp:" + e, lambda: {"f_gq": it.project_orb2grid(f_uq.copy())}, T, case["reps"], mode="blas")
        elif e == "real_grid2orb":
            run_diff(ctx, "interp:" + e, lambda: {"f_uq": it.project_grid2orb(f_g.copy())}, T, case["reps"], mode="blas")
        else:
            mag = float(np.abs(it.project_orb2grid(np.abs(f_uq))).max() * np.abs(f_g).max() * npts * it.num_out * 4 + 1e-300)
            run_diff(ctx, "interp:" + e, lambda: {"excsum": it.project_orb2grid_grad(f_uq.copy(), f_g[:npts].copy())}, T,
                     case["reps"], mode="blas", scale_of=lambda k, b: max(mag, float(np.abs(b).max())))
        return
    L = G.layout_ns(lay)
    atco = G.build_atco(lay["atoms"])[0]
    direct = case["itype"] != "plain"
    if e == "grad" and not direct:
        case = dict(case, itype="direct_onsite")
        direct = True
    ctx.event("entry=" + e)
    ctx.event("itype=" + case["itype"])
    if direct:
        coords = L.coords
    else:
        n = case["npts"]
        coords = np.ascontiguousarray(L.atom_coords[rng.integers(0, L.natm, n)] + rng.normal(size=(n, 3)) * 1.1 + 0.017)

    def make(team):
        bootstrap.set_threads(team)
        it = G.build_interpolator(case, L, atco)
        it.set_coords(coords)
        bootstrap.set_threads(1)
        return it

    it1 = make(1)
    npts = it1.all_coords.shape[0]
    nao, nin_q, nout_q = atco.nao, it1.num_in, it1.num_out
    shape_s = (atco.natm, it1.nrad, it1.nlm, 4, nout_q)
    ngout = coords.shape[0] if direct else npts
    size = {"spline_maps": atco.nbas, "num_ai": atco.natm, "spline_bas": npts, "spline_bas_deriv": npts,
            "conv2spline": atco.natm * it1.nrad, "spline2conv": atco.nbas, "interp_fwd": it1.nrad - 1,
            "interp_bwd": it1.nrad - 1, "orb2grid": npts, "grid2orb": npts, "grad": npts}[e]
    nontrivial_T(ctx, T, size, [e, T, size, case["itype"], case["n0"], case["n1"]])
    f_uq = G.fill(rng, (nao, nin_q))
    f_s = G.fill(rng, shape_s)
    f_g = G.fill(rng, (ngout, nout_q))
    mode = "exact"
    try:
        if e in ("spline_maps", "num_ai"):
            ref = {"w0": it1.w0_rsp, "wm": it1.wm_rsp, "num_ai": it1.num_ai, "loc_ai": it1._loc_ai}
            for r in range(case["reps"]):
                itT = make(T)
                got = {"w0": itT.w0_rsp, "wm": itT.wm_rsp, "num_ai": itT.num_ai, "loc_ai": itT._loc_ai}
                for k in ref:
                    if ref[k] is None:
                        ctx.check(got[k] is None, ("interp_setup", k))
                    else:
                        ctx.equal_bits(got[k], ref[k], ("interp_setup", k, "T_vs_1"), T=T, rep=r)
            return
        if e in ("spline_bas", "spline_bas_deriv"):
            a = case["seed"] % atco.natm

            def call():
                if e == "spline_bas":
                    gl, gp = it1._eval_spline_bas_single(a)
                else:
                    gl, gp = it1._eval_spline_bas_single_deriv(a)
                return {"auxo_gl": gl.copy(), "auxo_gp": gp.copy()}
        elif e == "conv2spline":
            def call():
                return {"f_arlpq": it1.conv2spline(f_uq.copy())}
        elif e == "spline2conv":
            def call():
                return {"f_uq": it1.spline2conv(f_s.copy())}
        elif e == "interp_fwd":
            mode = "blas"

            def call():
                return {"f_gq": it1.interpolate_fwd(f_s.copy())}
        elif e == "interp_bwd":
            mode = "blas"

            def call():
                return {"f_arlpq": it1.interpolate_bwd(f_g[:npts].copy())}
        elif e == "orb2grid":
            mode = "blas"

            def call():
                return {"f_gq": it1.project_orb2grid(f_uq.copy())}
        elif e == "grid2orb":
            mode = "blas"

            def call():
                return {"f_uq": it1.project_grid2orb(f_g.copy())}
        else:
            mode = "blas"
            vf = f_g[:npts].copy()

            def call():
                return {"excsum": it1.project_orb2grid_grad(f_uq.copy(), vf.copy())}

            # scale of the reduction: sum of |terms| that enter excsum
            bootstrap.set_threads(1)
            mag = float(np.abs(it1.project_orb2grid(np.abs(f_uq))[:npts]).max() * np.abs(vf).max() * max(npts, 1) * nout_q * 4 + 1e-300)
            run_diff(ctx, "interp:grad", call, T, case["reps"], mode="blas", scale_of=lambda k, b: max(mag, float(np.abs(b).max())))
            return
        run_diff(ctx, "interp:" + e, call, T, case["reps"], mode=mode)
    finally:
        bootstrap.set_threads(1)


# ----------------------------------------------------------------------------------------------
# 4. SDMX (fast_sdmx.c)

SDMX_ENTRIES = ["ylm", "cao", "slow_cao", "ao2bas", "ao2bas_bwd", "shl2alpha", "shl2alpha_bwd", "features_vxc"]


@st.composite
def st_sdmxT(draw):
    T, n = draw(G.st_team_and_size(extra=(55, 56, 57, 112, 127, 128, 129, 257, 3001), min_size=0, max_size=3001))
    return {"entry": draw(st.sampled_from(SDMX_ENTRIES)), "T": T, "ngrids": n,
            "mol": draw(st.sampled_from(["H2", "HF", "H2O", "LiH"])), "basis": draw(st.sampled_from(["sto-3g", "6-31g", "def2-svp"])),
            "kind": draw(st.sampled_from(["sdmx", "sdmxg", "sdmx1", "sdmxg1", "full"])), "reps": draw(REPS), "seed": draw(SEED)}


@subcheck("C10", "sdmx", st_sdmxT, quick=900, thorough=16000,
          rule="SDMXylm_loop / SDMXylm_grad / SDMXylm_yzx2xyz (static over atom x 56-point blocks; EXXSphGenerator._get_ylm), "
               "SDMXeval_rad_loop with all four contraction kernels (dynamic,4; get_cao), SDMXeval_loop / SDMXeval_sph_iter (sdmx_slow.eval_conv_gto_fast), SDMXcontract_ao_to_bas{,_bwd}, "
               "SDMXcontract_ao_to_bas_l1{,_bwd} (one hand-computed chunk of ceil(n/T) points per thread), "
               "contract_shl_to_alpha_l1{,_bwd} (128-point blocks), and get_features + get_vxc_ end to end in process; "
               "ngrids in {0,1,2,T-1,T,T+1,primes, 55-57, 112, 127-129, 257, 3001} (0 only where the wrapper accepts it), "
               "H2/HF/H2O/LiH x sto-3g/6-31g/def2-svp, five settings classes; all element-wise with fixed summation order "
               "-> bit-identical; T in {1..64} x 2-5 repetitions; interleavings not controlled",
          tolerances={"exact": 0.0, "features_vxc_rtol": BLAS_RTOL})
def sdmx(case, ctx):
    from ciderpress.pyscf.sdmx import libcider

    e, T, ng = case["entry"], case["T"], case["ngrids"]
    mol, gen, coords, nrf = G.sdmx_setup(case)
    rng = rng_from(case["seed"] + 5)
    d, nao = gen.deriv, mol.nao_nr()
    shls, ao_loc = (0, mol.nbas), mol.ao_loc_nr()
    ncomp, nalpha = 1 + 6 * d, gen.plan.nalpha
    if e in ("shl2alpha", "shl2alpha_bwd") and d == 0:
        e = "ao2bas"
    if ng == 0 and e in ("cao", "slow_cao", "features_vxc", "shl2alpha", "shl2alpha_bwd"):
        ng = 1  # pyscf's eval_ao / make_screen_index are not defined for an empty grid
        coords = np.asfortranarray(mol.atom_coords(unit="Bohr")[:1] + 0.37)
    ctx.event("entry=%s deriv=%d" % (e, d))
    nontrivial_T(ctx, T, ng, [e, T, ng, case["mol"], case["basis"], case["kind"]])
    c0 = np.asfortranarray(rng.uniform(-1, 1, (ng, nao)))
    b0 = G.fill(rng, (ncomp, nrf, ng))
    mode = "exact"
    if e == "ylm":
        def call():
            gen._ylm_buf = nan((1 + 3 * d) * (sum((np.max(mol._bas[mol._bas[:, 0] == ia, 1]) + 1) ** 2 for ia in range(mol.natm))) * ng)
            return {"ylm": gen._get_ylm(mol, coords).copy()}
    elif e == "cao":
        def call():
            gen._cao_buf = nan(nrf * ng * nalpha * (2 if d else 1))
            return {"cao": np.array(gen.get_cao(mol, coords))}
    elif e == "slow_cao":
        from ciderpress.pyscf import sdmx_slow

        cpa = 4 if d else 1

        def call():
            out = nan(nalpha * cpa * nao * ng)
            return {"cao": np.array(sdmx_slow.eval_conv_gto_fast("GTOval_sph_deriv%d" % d, gen.plan, mol, coords, out=out))}
    elif e == "ao2bas":
        def call():
            return {"b0": gen._contract_ao_to_bas(mol, c0.copy(order="F"), shls, ao_loc, coords)}
    elif e == "ao2bas_bwd":
        def call():
            return {"c0": np.array(gen._contract_ao_to_bas_bwd(mol, b0.copy(), shls, ao_loc, coords))}
    elif e in ("shl2alpha", "shl2alpha_bwd"):
        bootstrap.set_threads(1)
        cao = gen.get_cao(mol, coords, save_buf=False)
        t4 = G.fill(rng, (4, nalpha, ng))
        args = (ctypes.c_int(ng), ctypes.c_int(nalpha), ctypes.c_int(cao.shape[-1]))

        def call():
            if e == "shl2alpha":
                tmp = nan((4, nalpha, ng))
                libcider.contract_shl_to_alpha_l1(*args, tmp.ctypes.data_as(ctypes.c_void_p),
                                                  b0.ctypes.data_as(ctypes.c_void_p), cao.ctypes.data_as(ctypes.c_void_p))
                return {"tmp": tmp}
            return {"c0": np.array(gen._eval_crho_potential(mol, coords, cao, t4.copy(), shls, ao_loc))}
    else:
        mode = "blas"
        from pyscf import dft

        dm = dft.RKS(mol).get_init_guess()
        A = rng.normal(size=dm.shape) * 0.02
        dm = dm + A + A.T
        vg = None

        def call():
            gen.reset_buffers()
            feat = gen.get_features(dm, mol, coords)
            v = np.ascontiguousarray(np.cos(np.arange(feat.size)).reshape(feat.shape))
            vmat = gen.get_vxc_(np.zeros_like(dm), v)
            return {"feat": feat.copy(), "vmat": vmat.copy()}
    run_diff(ctx, "sdmx:" + e, call, T, case["reps"], mode=mode)


# ----------------------------------------------------------------------------------------------
# 5. kernel evaluation, reference integrator, FFT copies

@st.composite
def st_misc(draw):
    T, n = draw(G.st_team_and_size(extra=(200, 2003, 20011)))
    return {"entry": draw(st.sampled_from(["se", "se_antisym", "se_spin", "numint_i", "numint_j", "numint_k", "fft"])),
            "T": T, "n": n, "nfeat": draw(st.integers(2, 6)), "nctrl": draw(st.integers(1, 9)),
            "dims": draw(st.lists(st.integers(1, 6), min_size=1, max_size=3)), "r2c": draw(st.booleans()),
            "fwd": draw(st.booleans()), "inplace": draw(st.booleans()), "batch_first": draw(st.booleans()),
            "reps": draw(REPS), "seed": draw(SEED)}


@subcheck("C10", "kernels_misc", st_misc, quick=900, thorough=16000,
          rule="evaluate_se_kernel / _antisym / _spin (parallel for over samples; RBFEvaluator, AntisymRBFEvaluator, "
               "SpinRBFEvaluator called with a known prefill they must add to), debug_numint_vi/vj/vk (static over target "
               "points; debug_numint.get_nonlocal_features), write_fft_input / read_fft_output (parallel copies with the "
               "padded r2c layout; FFTWrapper.call, 1-3 dimensions, batch count = the drawn size); sizes in "
               "{0,1,2,T-1,T,T+1,primes,200,2003,20011 (numint and fft capped at 2003 / 70 batches)}; all per-output independent -> bit-identical; T in {1..64} x 2-5 "
               "repetitions; interleavings not controlled",
          tolerances={"exact": 0.0})
def kernels_misc(case, ctx):
    e, T, n = case["entry"], case["T"], case["n"]
    rng = rng_from(case["seed"])
    ctx.event("entry=" + e)
    if e.startswith("se"):
        from ciderpress.dft import xc_evaluator as xe
        from ciderpress.models.kernels import DiffConstantKernel, DiffRBF

        nf, nc = case["nfeat"], case["nctrl"]
        nontrivial_T(ctx, T, n, [e, T, n, nf, nc])
        ls = rng.uniform(0.3, 1.5, nf - 1 if e == "se_antisym" else nf)
        kern = DiffConstantKernel(0.7) * DiffRBF(length_scale=ls)
        alpha = rng.normal(size=nc)
        if e == "se":
            ev = xe.RBFEvaluator(kern, rng.uniform(0, 1, (nc, nf)), alpha)
            X = rng.uniform(0, 1, (n, nf))
        elif e == "se_antisym":
            ev = xe.AntisymRBFEvaluator(kern, rng.uniform(0, 1, (nc, nf)), alpha)
            X = rng.uniform(0, 1, (n, nf))
        else:
            ev = xe.SpinRBFEvaluator(kern, rng.uniform(0, 1, (2, nc, nf)), alpha)
            X = rng.uniform(0, 1, (2, n, nf))
        r0 = rng.uniform(-1, 1, n)
        d0 = rng.uniform(-1, 1, X.shape)

        def call():
            res, dres = ev(X.copy(), res=r0.copy(), dres=d0.copy())
            return {"res": res, "dres": dres}
    elif e.startswith("numint"):
        from ciderpress.dft import debug_numint as dn

        n = min(n, 2003)
        nontrivial_T(ctx, T, n, [e, T, n])
        m = 11 + case["seed"] % 23

        def dens(k):
            rho = rng.uniform(0.05, 2.0, k)
            g = rng.normal(size=(3, k)) * 0.3
            tau = np.sum(g * g, axis=0) / (8 * rho) + rng.uniform(0.1, 1, k)
            return np.ascontiguousarray(np.vstack([rho[None], g, tau[None]]))

        rho, vvrho = dens(n), dens(m)
        coords, vvcoords = rng.normal(size=(n, 3)), rng.normal(size=(m, 3))
        vvw = rng.uniform(0.1, 1, m)
        ge = dn.get_get_exponent({"a0": 1.0, "fac_mul": 0.03})
        ver = e[-1]

        def call():
            return {"feat": dn.get_nonlocal_features(rho.copy(), coords.copy(), vvrho.copy(), vvw.copy(), vvcoords.copy(),
                                                     ge, ge, version=ver)}
    else:
        from ciderpress.lib.fft_plan import FFTWrapper

        nt = max(n, 1)
        nt = min(nt, 70)
        dims = list(case["dims"])
        if case["r2c"] and dims[-1] < 2:
            dims[-1] = 2
        total = int(np.prod(dims)) * nt
        nontrivial_T(ctx, T, total, [e, T, dims, nt, case["r2c"], case["fwd"], case["inplace"], case["batch_first"]])
        bootstrap.set_threads(1)
        w = FFTWrapper(dims, ntransform=nt, fwd=case["fwd"], r2c=case["r2c"], inplace=case["inplace"],
                       batch_first=case["batch_first"])
        real_in = case["r2c"] and case["fwd"]
        x = rng.normal(size=w.input_shape)
        if not real_in:
            x = x + 1j * rng.normal(size=w.input_shape)
        x = np.ascontiguousarray(x)

        def call():
            return {"out": w.call(x.copy())}
    run_diff(ctx, "misc:" + e, call, T, case["reps"])


# ----------------------------------------------------------------------------------------------
# 6. end to end, one process per OMP_NUM_THREADS

E2E_MODELS = ["ij", "j", "sdmx1", "i", "k", "sdmx", "sl"]


def _shard_index():
    """Hypothesis starts every run with the all-minimal example; with a budget of a few cases per
    shard that would be the same case in every shard.  The e2e strategy therefore rotates its choice
    lists by the shard index (a saved case stays a plain dict, so replay is unaffected)."""
    try:
        return int(sys.argv[sys.argv.index("--worker") + 4])
    except (ValueError, IndexError):
        return 0


def _rot(lst, k):
    k %= len(lst)
    return lst[k:] + lst[:k]


def e2e_model(kind, seed, plan_type):
    from ciderpress.dft import baselines
    from ciderpress.dft.settings import (FeatureSettings, NLDFSettingsVI, NLDFSettingsVIJ, NLDFSettingsVJ,
                                         NLDFSettingsVK, SDMX1Settings, SDMXSettings, SemilocalSettings)
    from ciderpress.dft.transform_data import FeatureList, UMap
    from ciderpress.dft.xc_evaluator import MappedDFTKernel, MappedXC, RBFEvaluator
    from ciderpress.models.kernels import DiffConstantKernel, DiffRBF

    rng = np.random.default_rng(seed)
    theta = [1.0, 0.0, 0.03125]
    nldf = sdmx_s = None
    if kind == "j":
        nldf = NLDFSettingsVJ("MGGA", theta, "one", ["se", "se_ar2", "se_erf_rinv"],
                              [[2.0, 0.0, 0.04], [1.0, 0.0, 0.02], [2.0, 0.0, 0.04, 2.0]])
    elif kind == "i":
        nldf = NLDFSettingsVI("MGGA", theta, "one", ["se_ap"], ["se_grad"], [(0, 0), (-1, 0)])
    elif kind == "ij":
        nldf = NLDFSettingsVIJ("MGGA", theta, "one", ["se_ap"], ["se_grad"], [(0, 0)], ["se", "se_ar2"],
                               [[2.0, 0.0, 0.04], [1.0, 0.0, 0.02]])
    elif kind == "k":
        nldf = NLDFSettingsVK("MGGA", theta, "one", [[1.0, 0.0, 0.02], [2.0, 0.0, 0.04]], "exponential")
    elif kind == "sdmx":
        sdmx_s = SDMXSettings([0, 1, 2])
    elif kind == "sdmx1":
        sdmx_s = SDMX1Settings([1, 2], 1)
    fs = FeatureSettings(sl_settings=SemilocalSettings("npa"), nldf_settings=nldf, sdmx_settings=sdmx_s)
    fs.assign_reasonable_normalizer()
    nf = fs.nfeat
    fl = FeatureList([UMap(1, 0.3), UMap(2, 0.5)] + [UMap(i, 0.4) for i in range(3, nf)])
    n1 = fl.nfeat
    kern = DiffConstantKernel(0.7) * DiffRBF(length_scale=rng.uniform(0.3, 1.0, n1))
    ev = RBFEvaluator(kern, rng.uniform(0, 1, (7, n1)), rng.normal(size=7) * 0.1)
    return MappedXC([MappedDFTKernel([ev], fl, "SEP", baselines.lda_x, baselines.zero_xc)], fs)


def e2e_worker():
    """Runs in a fresh process with OMP_NUM_THREADS fixed by the parent.  argv: spec.json out.npz"""
    bootstrap.init()
    spec = json.load(open(sys.argv[1]))
    from pyscf import dft

    from ciderpress.pyscf.dft import make_cider_calc
    from ciderpress.pyscf.nldf_convolutions import PySCFNLDFInitializer

    mol = G.real_mol(spec)
    if spec["spin"] == "u" and mol.nelectron % 2 == 0:
        ks0 = dft.UKS(mol)
    elif spec["spin"] == "u":
        ks0 = dft.UKS(mol)
    else:
        ks0 = dft.RKS(mol)
    ks0.grids.level = spec["level"]
    model = e2e_model(spec["model"], spec["seed"], spec["plan"])
    kw = {}
    if spec["model"] in ("j", "i", "ij", "k"):
        kw["nldf_init"] = PySCFNLDFInitializer(model.settings.nldf_settings, plan_type=spec["plan"])
    ks = make_cider_calc(ks0, model, xmix=0.25, xkernel="GGA_X_PBE", ckernel="GGA_C_PBE", **kw)
    ks.build()
    ks.grids.build()
    rng = np.random.default_rng(spec["seed"])
    dm = np.asarray(ks.get_init_guess())
    if spec["spin"] == "u":
        pert = rng.normal(size=dm.shape) * 0.01
        dm = dm + pert + pert.transpose(0, 2, 1)
        n, e, v = ks._numint.nr_uks(mol, ks.grids, ks.xc, dm)
    else:
        pert = rng.normal(size=dm.shape) * 0.01
        dm = dm + pert + pert.T
        n, e, v = ks._numint.nr_rks(mol, ks.grids, ks.xc, dm)
    np.savez(sys.argv[2], nelec=np.atleast_1d(np.asarray(n, dtype=float)), exc=np.atleast_1d(float(e)), vmat=np.asarray(v),
             ngrids=np.atleast_1d(ks.grids.weights.size))


@st.composite
def st_e2e(draw):
    k = _shard_index()
    return {"mol": draw(st.sampled_from(_rot(["HF", "H2O", "H2"], k))), "basis": draw(st.sampled_from(_rot(["sto-3g", "6-31g"], k))),
            "level": draw(st.sampled_from(_rot([0, 1], k // 2))), "model": draw(st.sampled_from(_rot(E2E_MODELS, k))),
            "plan": draw(st.sampled_from(_rot(["gaussian", "spline"], k // 2))),
            "spin": draw(st.sampled_from(_rot(["r", "u", "r"], k))), "seed": draw(st.integers(0, 10**6)),
            "omp_env": draw(st.sampled_from(_rot(["passive", "dynamic", "spin1000", "passive"], k)))}


E2E_RTOL = 1e-10


@subcheck("C10", "end_to_end", st_e2e, quick=24, thorough=480, max_shards=8, shrink=False,
          rule="CiderNumInt.nr_rks / nr_uks of a synthesised model (semilocal, NLDF j/i/ij/k with Gaussian or spline plan, "
               "SDMX with and without vector terms) on H2/HF/H2O, sto-3g/6-31g, grid level 0-1, perturbed initial-guess "
               "density matrix, each evaluated in three fresh processes with OMP_NUM_THREADS = 1, 4, 16 (PySCF's own "
               "OpenMP runtime follows the same variable), under OMP_WAIT_POLICY=passive, OMP_DYNAMIC=true or a short active spin; nelec, exc, vmat of the 4- and 16-thread runs must agree with "
               "the 1-thread run to 1e-10 relative (BLAS / grid-block reductions reassociate); non-trivial = model has a "
               "nonlocal family.  Interleavings are not controlled: races only probabilistically",
          tolerances={"rtol": E2E_RTOL})
def end_to_end(case, ctx):
    tmp = tempfile.mkdtemp(prefix="c10e2e_", dir=os.path.join(bootstrap.VERIF, ".build"))
    try:
        spec = os.path.join(tmp, "spec.json")
        with open(spec, "w") as f:
            json.dump(case, f)
        procs = []
        for T in (1, 4, 16):
            env = dict(os.environ)
            env.update(OMP_NUM_THREADS=str(T), OPENBLAS_NUM_THREADS="1", PYTHONPATH=bootstrap.VERIF + os.pathsep + env.get("PYTHONPATH", ""),
                       VERIF_REPO=bootstrap.REPO)
            if case.get("omp_env") == "dynamic":
                env["OMP_DYNAMIC"] = "true"
            elif case.get("omp_env") == "spin1000":
                env.update(OMP_WAIT_POLICY="active", GOMP_SPINCOUNT="1000")
            out = os.path.join(tmp, "out%d.npz" % T)
            p = subprocess.Popen([sys.executable, "-c", "from props import c10; c10.e2e_worker()", spec, out],
                                 env=env, cwd=bootstrap.VERIF, stdout=subprocess.DEVNULL, stderr=subprocess.PIPE, text=True)
            procs.append((T, p, out))
        res = {}
        for T, p, out in procs:
            _, err = p.communicate()
            if p.returncode != 0:
                if "/ciderpress/" in (err or "") and "Traceback" in err:
                    ctx.check(False, ("e2e", "exception", "T=%d" % T), stderr=err[-1500:])
                raise HarnessError("e2e worker failed (T=%d): %s" % (T, (err or "")[-2000:]))
            res[T] = dict(np.load(out))
        ctx.event("model=%s/%s/%s" % (case["model"], case["plan"] if case["model"] in "j i ij k".split() else "-", case["spin"]))
        if case["model"] != "sl":
            ctx.nontrivial([case["mol"], case["basis"], case["level"], case["model"], case["plan"], case["spin"]])
        ref = res[1]
        for T in (4, 16):
            for k in ("nelec", "exc", "vmat"):
                ctx.close(res[T][k], ref[k], ("e2e", k, "T=%d_vs_1" % T), rtol=E2E_RTOL)
    finally:
        import shutil

        shutil.rmtree(tmp, ignore_errors=True)


# ----------------------------------------------------------------------------------------------
# 8. fractional-Laplacian orbital kernels (frac_lapl.c): the contraction callbacks run inside the OpenMP region of
#    PySCF's GTO driver (libcgto, PySCF's own OpenMP runtime: the team size is pyscf.lib.num_threads)

@st.composite
def st_flapl(draw):
    return {"mol": draw(st.sampled_from(["H2", "HF", "H2O", "LiH"])), "basis": draw(st.sampled_from(["sto-3g", "6-31g", "def2-svp", "cc-pvdz"])),
            "slist": draw(st.lists(st.sampled_from([-1.0, -0.5, 0.25, 0.5, 1.0]), min_size=1, max_size=3, unique=True)),
            "n1": draw(st.integers(0, 3)), "ng": draw(st.sampled_from([1, 55, 56, 57, 113, 300, 1000])),
            "T": draw(st.sampled_from([2, 2, 3, 4, 8, 16])), "reps": draw(st.sampled_from([3, 5, 8])), "seed": draw(SEED)}


@subcheck("C10", "frac_lapl", st_flapl, quick=300, thorough=5000,
          rule="eval_kao (GTOcontract_flapl0 / GTOcontract_flapl1 through PySCF's GTOeval_sph_drv) for 1-3 powers s, 0-3 of them "
               "with gradient components, on 1-1000 points (around the 56-point block) of H2/HF/H2O/LiH in four bases: team of "
               "1 (pyscf.lib.num_threads) vs 3-8 repetitions with a team of 2-16; every output element is computed by one "
               "thread -> bit-identical; interleavings not controlled (a shared scratch shows up in some repetitions only)",
          tolerances={"exact": 0.0})
def frac_lapl(case, ctx):
    from pyscf import lib

    from ciderpress.pyscf import frac_lapl as fl

    mol = G.real_mol({"mol": case["mol"], "basis": case["basis"]})
    rng = rng_from(case["seed"])
    ac = mol.atom_coords(unit="Bohr")
    ng = case["ng"]
    coords = np.ascontiguousarray(ac[rng.integers(0, mol.natm, ng)] + rng.normal(size=(ng, 3)) * 1.2)
    slist = list(case["slist"])
    n1 = min(case["n1"], len(slist))
    T = case["T"]
    ctx.event("n1=%s" % ("0" if n1 == 0 else ">0"))
    ctx.event("T=%d" % T)
    if ng > 56 and mol.nbas >= 2:
        ctx.nontrivial([case["mol"], case["basis"], slist, n1, ng, T])

    def call():
        return np.array(fl.eval_kao(slist, mol, coords, n1=n1), copy=True)

    old = lib.num_threads()
    try:
        lib.num_threads(1)
        ref = call()
        ctx.finite(ref, ("frac_lapl", "reference"))
        for r in range(case["reps"]):
            lib.num_threads(T)
            got = call()
            ctx.equal_bits(got, ref, ("frac_lapl", "kao", "deriv1" if n1 else "deriv0", "T_vs_1"), T=T, rep=r)
    finally:
        lib.num_threads(old)
