"""C13 -- uniform-electron-gas reference values match the computed features (DESIGN.md 5-C13).

Oracles are written from the documentation only:
* semilocal: docs/features/sl.rst  (n, |grad n|^2 = 0, tau_0 = 3/10 (3 pi^2)^(2/3) n^(5/3), p = 0, alpha = 1)
* NLDF: docs/features/nldf.rst kernels + the spec docstrings of settings.py, integrated radially with
  scipy.integrate.quad for a constant density; exponent a = pi (n/2)^(2/3) [A + B |grad n|^2/(8 n tau_0)
  + C (tau/tau_0 - 1)] = pi (n/2)^(2/3) A for the uniform gas.  The docs give se_erf_rinv only as
  "squared-exponential * 1/r with short-range erf damping"; its normalisation (kernel -> 1 at r -> 0,
  erf exponent = erf_mul * a_i) is the one of the repository's reference integrator debug_numint.c.
* SDMX: docs/features/sdmx.rst, the UEG density matrix n1(u) = 3 n j1(kF u)/(kF u), the documented h(u;R),
  H_j^0 = 4 pi int dR R^(2-j) |rho0|^2, H_j^0d = 4 pi int dR R^(4-j) |d rho0/dR|^2, times the
  exchange-energy factor -1/4 the code applies (plans.SDMXBasePlan.get_features: "factor of -1/4 for EXX").
  The `ratio` features of SDMXFullSettings are not in the docs; their definition
  1/2 H(1) + 1/2 * 4 pi int R^p f(R/sqrt r) f(sqrt r R) dR is read from plans.SDMXFullPlan.
* fractional Laplacian: (-Delta)^s on plane waves = k^(2s): (1/pi^2) int_0^kF k^(2+2s) dk.

Switch EXCLUDE_KNOWN: tags of recorded findings whose region the generators should step around
(counted as excluded_known:<tag> events) so that the search continues behind them.
"""
import math

import numpy as np
from hypothesis import strategies as st

from cpverif import gen_settings as G
from cpverif.oracles import rng_from
from cpverif.runner import HarnessError, subcheck
from props.c12 import build_map, build_normalizer, st_normalizer  # noqa: F401

EXCLUDE_KNOWN = set()   # tags: "gga_expnt" (fixed in 878e562), "inh_mgga" (get_ueg ignores inh=1), "sdmx_j2" (j=2 constants)

CFC_DOC = 0.3 * (3 * math.pi ** 2) ** (2.0 / 3)
MGGA_MODES = ("nst", "npa")


def st_rho():
    return st.floats(math.log(1e-4), math.log(1e3)).map(lambda t: float(math.exp(t)))


# ------------------------------------------------------------------------------------------------
# oracles

def doc_exponent_ueg(A, n):
    return math.pi * (n / 2.0) ** (2.0 / 3) * A


def radial_integral(g, a):
    """int_0^inf 4 pi r^2 g(r) dr for a kernel decaying like exp(-a r^2); r = t / sqrt(a)."""
    from scipy.integrate import quad

    sa = math.sqrt(a)
    val, err = quad(lambda t: 4 * math.pi * t * t * g(t / sa), 0.0, 13.0, epsabs=0.0, epsrel=1e-12, limit=400)
    if not (err <= 1e-9 * abs(val) + 1e-300):
        raise HarnessError("radial quadrature did not converge: %r %r" % (val, err))
    return val / a ** 1.5


def _erf_rinv(x):
    from scipy.special import erf

    return 1.0 - x * x / 3.0 if x < 1e-6 else 0.5 * math.sqrt(math.pi) * erf(x) / x


def k_vi(spec, a):
    e = lambda r: math.exp(-a * r * r)  # noqa: E731
    return {
        "se": lambda r: e(r),
        "se_r2": lambda r: r * r * e(r),
        "se_apr2": lambda r: a * r * r * e(r),
        "se_ap": lambda r: a * e(r),
        "se_ap2r2": lambda r: a * a * r * r * e(r),
        "se_lapl": lambda r: 4 * a * a * r * r * e(r) - 2 * a * e(r),
    }[spec]


def k_vj(spec, ai, a0, erf_mul):
    e = lambda r: math.exp(-(ai + a0) * r * r)  # noqa: E731
    return {
        "se": lambda r: e(r),
        "se_ar2": lambda r: ai * r * r * e(r),
        "se_a2r4": lambda r: ai * ai * r ** 4 * e(r),
        "se_erf_rinv": lambda r: e(r) * _erf_rinv(math.sqrt(erf_mul * ai) * r),
    }[spec]


def nldf_ueg_oracle(spec, n):
    """[(label, value)] for every feature of an NLDF settings spec at uniform density n."""
    a0 = doc_exponent_ueg(spec["theta_params"][0], n)
    b = 1.0 if spec["rho_mult"] == "one" else a0
    out = []
    c = spec["cls"]
    if c in ("NLDFSettingsVJ", "NLDFSettingsVIJ"):
        for s, p in zip(spec["feat_specs"], spec["feat_params"]):
            ai = doc_exponent_ueg(p[0], n)
            out.append(("j:" + s, n * b * radial_integral(k_vj(s, ai, a0, p[-1]), ai + a0)))
    if c == "NLDFSettingsVK":
        for p in spec["feat_params"]:
            ai = doc_exponent_ueg(p[0], n)
            val = radial_integral(lambda r: math.exp(-ai * r * r), ai)
            out.append(("k:se", n * b * math.exp(-1.5 * a0 / ai) * val))
    if c in ("NLDFSettingsVI", "NLDFSettingsVIJ"):
        for s in spec["l0_feat_specs"]:
            out.append(("i:" + s, n * b * radial_integral(k_vi(s, a0), a0)))
        for _ in spec["l1_feat_dots"]:
            out.append(("i:l1dot", 0.0))   # vector integrals vanish by isotropy
    return out


_GL = {}


def _gl(n, lo, hi):
    if n not in _GL:
        _GL[n] = np.polynomial.legendre.leggauss(n)
    x, w = _GL[n]
    return 0.5 * (hi - lo) * x + 0.5 * (hi + lo), 0.5 * (hi - lo) * w


def _n1_over_n(x):
    """UEG density matrix / n = 3 j1(x)/x, and its derivative d/dx = -3 j2(x)/x."""
    from scipy.special import spherical_jn

    small = x < 1e-3
    xs = np.where(small, 1.0, x)
    f = 3 * spherical_jn(1, xs) / xs
    df = -3 * spherical_jn(2, xs) / xs
    f = np.where(small, 1.0 - x * x / 10.0, f)
    df = np.where(small, -x / 5.0, df)
    return f, df


def sdmx_rho0(R, n, nt):
    """rho0(R) and d rho0/dR for the uniform gas: int d^3u h(u;R) n1(u), u = t R."""
    kF = (3 * math.pi ** 2 * n) ** (1.0 / 3)
    t, wt = _gl(nt, 0.0, 6.5)
    E1 = np.exp(-2 * t * t)
    g = (2 / math.pi) ** 1.5 * 4 / (4 - math.sqrt(2)) * E1 * (1 - E1)   # h(u;R) R^3
    x = kF * R[:, None] * t[None, :]
    f, df = _n1_over_n(x)
    w = 4 * math.pi * wt * t * t * g
    return n * f.dot(w), n * (df * (kF * t)[None, :]).dot(w)


def sdmx_H(j, n, kind, ratio=1.0, res=1.0):
    """-1/4 * 4 pi int dR R^p F(R) with F = rho0^2 (kind '0') or (d rho0/dR)^2 (kind 'd'); for
    ratio r the symmetrised cross term 1/2 F(R) + 1/2 f(R/sqrt r) f(sqrt r R)."""
    kF = (3 * math.pi ** 2 * n) ** (1.0 / 3)
    nR, nt = int(260 * res), int(260 * res)
    R, wR = _gl(nR, 0.0, 30.0 / kF)
    i = 0 if kind == "0" else 1
    p = (2 - j) if kind == "0" else (4 - j)
    a = sdmx_rho0(R, n, nt)[i]
    F = a * a
    if float(ratio) != 1.0:
        sr = math.sqrt(float(ratio))
        F = 0.5 * F + 0.5 * sdmx_rho0(R / sr, n, nt)[i] * sdmx_rho0(R * sr, n, nt)[i]
    return -0.25 * 4 * math.pi * float(np.sum(wR * R ** p * F))


def sdmx_H_checked(j, n, kind, ratio=1.0):
    v1, v2 = sdmx_H(j, n, kind, ratio, 1.0), sdmx_H(j, n, kind, ratio, 1.5)
    if not abs(v1 - v2) <= 1e-9 * abs(v2):
        raise HarnessError("SDMX quadrature self-test failed: %r %r" % (v1, v2))
    return v2


def sdmx_ueg_oracle(spec, n):
    c = spec["cls"]
    if c == "SADMSettings":
        if spec["mode"] == "smooth":
            return [("sadm:smooth:j1", sdmx_H_checked(1, n, "0"))]
        # exact exchange of the uniform gas (textbook): -(3/4)(3/pi)^(1/3) n^(4/3)
        return [("sadm:exact", -0.75 * (3 / math.pi) ** (1.0 / 3) * n ** (4.0 / 3))]
    out = []
    if c == "SDMXFullSettings":
        items = sorted(spec["settings"], key=lambda it: float(it[0]))
        for r, pows, nums in items:
            out += [("full:0:r%g:j%g" % (float(r), j), sdmx_H_checked(j, n, "0", r)) for j in pows[: nums[0]]]
            out += [("full:d:r%g:j%g" % (float(r), j), sdmx_H_checked(j, n, "d", r)) for j in pows[: nums[1]]]
        for r, pows, nums in items:
            out += [("full:l1", 0.0)] * (nums[2] + nums[3])
        return out
    pows = spec["pows"]
    out += [("H0:j%g" % j, sdmx_H_checked(j, n, "0")) for j in pows]
    nd = spec.get("ndt", spec.get("nd", 0))
    out += [("H0d:j%g" % j, sdmx_H_checked(j, n, "d")) for j in pows[:nd]]
    out += [("H1", 0.0)] * spec.get("n1", 0)
    return out


# self-tests of the oracles (an oracle bug must surface as a harness error, not as a violation)
def _oracle_selftest():
    if _oracle_selftest.done:
        return
    a = 1.7
    v = radial_integral(lambda r: r * r * math.exp(-a * r * r), a)
    assert abs(v - 1.5 / a * (math.pi / a) ** 1.5) < 1e-11 * v, "radial_integral self-test"
    # h(u;R) integrates to one: a constant 'density matrix' gives rho0 = const
    t, wt = _gl(200, 0.0, 6.5)
    E1 = np.exp(-2 * t * t)
    g = (2 / math.pi) ** 1.5 * 4 / (4 - math.sqrt(2)) * E1 * (1 - E1)
    assert abs(float(np.sum(4 * math.pi * wt * t * t * g)) - 1.0) < 1e-12, "h normalisation self-test"
    # uniform scaling of the quadrature itself: H_j(n) / n^(1+j/3) independent of n
    r = sdmx_H(1, 0.3, "0") / 0.3 ** (4.0 / 3) / (sdmx_H(1, 7.0, "0") / 7.0 ** (4.0 / 3))
    assert abs(r - 1) < 1e-10, "SDMX oracle scaling self-test"
    _oracle_selftest.done = True


_oracle_selftest.done = False


# ------------------------------------------------------------------------------------------------
@st.composite
def st_sl_case(draw):
    return {"mode": draw(st.sampled_from(G.SL_MODES)), "nspin": draw(st.sampled_from([1, 2])),
            "rhos": draw(st.lists(st_rho(), min_size=1, max_size=4))}


@subcheck("C13", "sl_ueg", st_sl_case, quick=800, thorough=12000,
          rule="all 4 semilocal modes x nspin 1/2 x 1-4 densities log-uniform in [1e-4,1e3]; SemilocalPlan.get_feat at "
               "(rho, grad 0, tau_0(rho)) per spin channel (channel density rho/nspin) and SemilocalSettings.ueg_vector "
               "both equal the documented values [n, 0, tau_0] / [n, 0, 1] (sl.rst) to 1e-12; non-trivial = rho != 1",
          tolerances={"rtol": 1e-12})
def sl_ueg(case, ctx):
    from ciderpress.dft.plans import SemilocalPlan
    from ciderpress.dft.settings import SemilocalSettings

    mode, nspin = case["mode"], case["nspin"]
    s = SemilocalSettings(mode)
    plan = SemilocalPlan(s, nspin)
    rho = np.array(case["rhos"])
    ng = rho.size
    data = np.zeros((nspin, 5, ng))
    data[:, 0] = rho / nspin
    data[:, 4] = CFC_DOC * rho ** (5.0 / 3) / nspin
    feat = plan.get_feat(data)
    ctx.event("mode=%s nspin=%d" % (mode, nspin))
    ctx.check(feat.shape == (nspin, s.nfeat, ng), ("shape", mode))
    for g in range(ng):
        n = float(rho[g])
        want = {"nst": [n, 0.0, CFC_DOC * n ** (5.0 / 3)], "npa": [n, 0.0, 1.0], "ns": [n, 0.0], "np": [n, 0.0]}[mode]
        ueg = np.asarray(s.ueg_vector(n), dtype=float)
        ctx.close(ueg, want, ("ueg_vector_vs_doc", mode), rtol=1e-12)
        for sp in range(nspin):
            ctx.close(feat[sp, :, g], want, ("get_feat_vs_doc", mode, "nspin%d" % nspin), rtol=1e-12)
            ctx.close(feat[sp, :, g], ueg, ("get_feat_vs_ueg_vector", mode, "nspin%d" % nspin), rtol=1e-12)
        if abs(n - 1) > 1e-3:
            ctx.nontrivial([mode, nspin, round(math.log10(n), 1)])


# ------------------------------------------------------------------------------------------------
@st.composite
def st_nldf_case(draw):
    return {"nldf": draw(G.st_nldf()), "rho": draw(st_rho())}


@subcheck("C13", "nldf_ueg", st_nldf_case, quick=1600, thorough=20000,
          rule="NLDFSettingsVI/VJ/VIJ/VK from G-settings (GGA and MGGA, rho_mult one/expnt, spec lists in any order with "
               "repeats, parameter tuples a0 in [0.5,8], multipliers in {0} U [0,0.1], erf_mul in [0.25,4]) x rho "
               "log-uniform [1e-4,1e3]; oracle: rho * b * int 4 pi r^2 K(r) dr by scipy.integrate.quad (1e-12) of the "
               "documented kernel with a = pi (n/2)^(2/3) A, version k with exp(-3 a0 / 2 a_i); l1 dot features 0; "
               "compared with ueg_vector(rho) at rtol 1e-8; non-trivial = rho != 1 and at least one feature; "
               "distinct by (class, level, rho_mult, spec lists, decade of rho)",
          tolerances={"rtol": 1e-8})
def nldf_ueg(case, ctx):
    _oracle_selftest()
    G.assert_tables_current()
    spec, n = case["nldf"], case["rho"]
    ctx.event("class=" + G.class_label(spec))
    gga_expnt = spec["sl_level"] == "GGA" and spec["rho_mult"] == "expnt"
    if gga_expnt and "gga_expnt" in EXCLUDE_KNOWN:
        ctx.event("excluded_known:gga_expnt")
        return
    s = G.build_settings(spec)
    try:
        got = s.ueg_vector(n)
    except IndexError as e:
        ctx.check(False, ("ueg_vector_raises", "GGA+expnt" if gga_expnt else "other", "IndexError"), message=str(e), spec=spec)
    got = np.asarray(got, dtype=float)
    want = nldf_ueg_oracle(spec, n)
    ctx.check(got.shape == (len(want),) and len(want) == s.nfeat, ("length", spec["cls"]), got=got.shape, want=len(want))
    ver = spec["cls"][len("NLDFSettings"):]
    for g, (label, w) in zip(got, want):
        ctx.event("feat=" + label + ":" + spec["rho_mult"])
        if w == 0.0:
            ctx.check(g == 0.0, ("value", ver, label), got=float(g))
        else:
            ctx.close([g], [w], ("value", ver, label), rtol=1e-8, spec=spec, rho=n)
    if abs(n - 1) > 1e-3 and len(want):
        ctx.nontrivial([spec["cls"], spec["sl_level"], spec["rho_mult"], spec.get("l0_feat_specs"), spec.get("feat_specs"),
                        len(spec.get("feat_params", [])), round(math.log10(n))])


# ------------------------------------------------------------------------------------------------
@st.composite
def st_sdmx_case(draw):
    return {"sdmx": draw(G.st_sdmx()), "rho": draw(st_rho())}


@subcheck("C13", "sdmx_ueg", st_sdmx_case, quick=480, thorough=6000,
          rule="SDMXSettings/G/1/G1/Full and SADMSettings with pows from {0,1,2} (any order, repeats, int or float) and "
               "ratios {1,1.5,2} x rho log-uniform [1e-4,1e3]; oracle: Gauss-Legendre quadrature (two resolutions must "
               "agree to 1e-9, else harness error; cross-checked once against the k-space closed form) of the documented "
               "H_j^0 / H_j^0d with the UEG density matrix 3 n j1(kF u)/(kF u), times -1/4; l=1 features 0 by isotropy; "
               "compared with ueg_vector(rho) at rtol 1e-9 (measured agreement of the j=0,1 constants: 3e-13; SADM smooth "
               "3e-10), signature class j01 / j2 (the tabulated j=2 constants deviate 4e-6..8e-5, reported as a finding); "
               "a deviation > 1.2e-4 (j=2) / 5e-4 has its own signature value_gross; non-trivial = rho != 1",
          tolerances={"rtol": 1e-9, "gross_rtol_j2": 1.2e-4, "gross_rtol": 5e-4})
def sdmx_ueg(case, ctx):
    _oracle_selftest()
    spec, n = case["sdmx"], case["rho"]
    s = G.build_settings(spec)
    ctx.event("class=" + G.class_label(spec))
    got = np.asarray(s.ueg_vector(n), dtype=float)
    want = sdmx_ueg_oracle(spec, n)
    ctx.check(got.shape == (len(want),) and len(want) == s.nfeat, ("length", spec["cls"]), got=got.shape, want=len(want))
    for g, (label, w) in zip(got, want):
        ctx.event("feat=" + label)
        jcls = "j2" if label.endswith("j2") else "j01"
        if w == 0.0:
            ctx.check(g == 0.0, ("value", "l1_nonzero", spec["cls"]), got=float(g), label=label)
        else:
            # a gross error first (own signature), then the sharp comparison
            # (j=2: the tabulated constants are off by 4e-6..7.9e-5, a recorded finding; anything beyond 1.2e-4 is new)
            ctx.close([g], [w], ("value_gross", jcls, spec["cls"]), rtol=1.2e-4 if jcls == "j2" else 5e-4, spec=spec, rho=n, label=label)
            if jcls == "j2" and "sdmx_j2" in EXCLUDE_KNOWN:
                ctx.event("excluded_known:sdmx_j2")
                continue
            sig = ("value", "j2_constant") if jcls == "j2" else ("value", "j01", spec["cls"])
            ctx.close([g], [w], sig, rtol=1e-9, spec=spec, rho=n, label=label)
    if abs(n - 1) > 1e-3 and len(want):
        ctx.nontrivial([spec, round(math.log10(n))])


# ------------------------------------------------------------------------------------------------
@st.composite
def st_fl_case(draw):
    return {"fl": draw(G.st_fraclapl()), "rho": draw(st_rho())}


@subcheck("C13", "fraclapl_ueg", st_fl_case, quick=400, thorough=6000,
          rule="FracLaplSettings (1-4 powers s in [-1,2], all count/dot combinations) x rho; oracle for the nk0 scalar "
               "entries: (1/pi^2) int_0^kF k^(2+2s) dk by quad (plane waves are eigenfunctions of (-Delta)^s); l1/ld dot "
               "entries 0 by isotropy; the ndd entries are documented placeholders (TODO in the source) and are "
               "excluded and counted; rtol 1e-10; non-trivial = nk0 > 0 and rho != 1",
          tolerances={"rtol": 1e-10})
def fraclapl_ueg(case, ctx):
    from scipy.integrate import quad

    spec, n = case["fl"], case["rho"]
    s = G.build_settings(spec)
    got = np.asarray(s.ueg_vector(n), dtype=float)
    ctx.check(got.shape == (s.nfeat,), ("length",), got=got.shape, nfeat=s.nfeat)
    kF = (3 * math.pi ** 2 * n) ** (1.0 / 3)
    for i in range(spec["nk0"]):
        sv = spec["slist"][i]
        val, err = quad(lambda x: x ** (2 + 2 * sv), 0.0, 1.0, epsabs=0, epsrel=1e-13)
        want = kF ** (3 + 2 * sv) * val / math.pi ** 2
        ctx.close([got[i]], [want], ("value", "nk0"), rtol=1e-10, s=sv, rho=n)
    ndots = len(spec["l1_dots"]) + len(spec["ld_dots"])
    ctx.check(np.all(got[spec["nk0"]: spec["nk0"] + ndots] == 0), ("value", "dots_nonzero"))
    if spec["ndd"]:
        ctx.event("excluded_documented_placeholder:ndd")
    if spec["nk0"] and abs(n - 1) > 1e-3:
        ctx.nontrivial([spec["nk0"], [round(x, 1) for x in spec["slist"]], round(math.log10(n))])


# ------------------------------------------------------------------------------------------------
def _inh_dependent(nspec):
    """Does this normaliser's forward value depend on the inhomogeneity argument?"""
    k = nspec["kind"]
    if k in ("const", "density"):
        return False
    if k in ("inhom", "general"):
        return nspec["c2"] != 0 and nspec["p2"] != 0
    return nspec["tau_mul"] != 0 and nspec["p2"] != 0     # factories: const2 = C/B, power2 = p2


def ueg_inh(slmode):
    """Inhomogeneity argument of the normalisers at the uniform gas: tau/tau_0 = 1 for the meta-GGA modes,
    tau_W/tau_0 = 0 for the GGA modes (feat_normalizer docstrings / _get_rho_and_inh)."""
    return 1.0 if slmode in MGGA_MODES else 0.0


@st.composite
def st_norm_case(draw):
    return {"norm": draw(st_normalizer()), "slmode": draw(st.sampled_from(G.SL_MODES)), "rho": draw(st_rho()),
            "x": draw(st.floats(0.05, 3.0)) * draw(st.sampled_from([-1.0, 1.0]))}


@subcheck("C13", "norm_ueg", st_norm_case, quick=1600, thorough=24000,
          rule="the four normaliser classes and two factory functions (drawn constants, powers in [-2,2]) x the four "
               "semilocal modes x rho; oracle: get_ueg(rho, inh_ueg) * x == fill_fwd(x, rho, inh_ueg) (1e-12) with inh_ueg = 1 in the "
               "meta-GGA modes (tau/tau_0) and 0 in the GGA modes (tau_W/tau_0), and the same through a one-element "
               "FeatNormalizerList.ueg_vector / get_normalized_feature_vector; non-trivial = normaliser not constant",
          tolerances={"rtol": 1e-12})
def norm_ueg(case, ctx):
    from ciderpress.dft.feat_normalizer import FeatNormalizerList

    nspec, mode, n, x = case["norm"], case["slmode"], case["rho"], case["x"]
    nrm = build_normalizer(nspec)
    inh = ueg_inh(mode)
    dep = _inh_dependent(nspec) and inh != 0.0
    cls = "inh_mgga" if dep else "plain"
    ctx.event("kind=%s %s" % (nspec["kind"], cls))
    if dep and "inh_mgga" in EXCLUDE_KNOWN:
        ctx.event("excluded_known:inh_mgga")
        return
    if nspec["kind"] != "const":
        ctx.nontrivial([nspec["kind"], mode, round(nspec["p1"], 1), round(nspec["p2"], 1), round(math.log10(n))])
    fwd = nrm.fill_fwd(np.array([x]), np.array([n]), np.array([inh]))
    # get_ueg(rho, inh): the class cannot know the semilocal mode, the caller supplies the UEG inhomogeneity value
    # (trees before 7e8f37c have get_ueg(rho) only; there the meta-GGA value is simply wrong -> class inh_mgga)
    try:
        ueg_fac = nrm.get_ueg(n, inh)
    except TypeError:
        ueg_fac = nrm.get_ueg(n)
    ctx.close(ueg_fac * np.array([x]), fwd, ("get_ueg_vs_fill_fwd", cls, type(nrm).__name__), rtol=1e-12,
              norm=nspec, slmode=mode, rho=n)
    # default argument: the GGA value
    ctx.close(nrm.get_ueg(n) * np.array([x]), nrm.fill_fwd(np.array([x]), np.array([n]), np.array([0.0])),
              ("get_ueg_default_vs_fill_fwd_inh0", type(nrm).__name__), rtol=1e-12)
    # the same through the list API on a semilocal UEG row block
    nsl = 3 if mode in MGGA_MODES else 2
    sl = {"nst": [n, 0.0, CFC_DOC * n ** (5.0 / 3)], "npa": [n, 0.0, 1.0], "ns": [n, 0.0], "np": [n, 0.0]}[mode]
    nl = FeatNormalizerList([None] * nsl + [nrm], slmode=mode)
    raw = np.array(sl + [x])
    comp = nl.get_normalized_feature_vector(raw[None, :, None])[0, :, 0]
    ctx.close(raw * nl.ueg_vector(n), comp, ("list_ueg_vector_vs_normalized", cls, type(nrm).__name__), rtol=1e-12)


# ------------------------------------------------------------------------------------------------
def _fs_norm_specs(fs_spec):
    n = fs_spec["normalizers"]
    return n["list"] if n["kind"] == "list" else None


def _has_inh_mgga(fs_spec, fs):
    """Is an inhomogeneity-dependent normaliser active under a meta-GGA semilocal mode?"""
    if fs_spec["sl"]["mode"] not in MGGA_MODES:
        return False
    from ciderpress.dft import feat_normalizer as fn

    for i in range(fs.normalizers.nfeat):
        nm = fs.normalizers[i]
        if isinstance(nm, fn.InhomogeneityNormalizer) and nm.const2 != 0 and nm.power != 0:
            return True
        if isinstance(nm, fn.GeneralNormalizer) and nm.const2 != 0 and nm.power2 != 0:
            return True
    return False


@st.composite
def st_list_case(draw):
    return {"fs": draw(G.st_feature_settings()), "rho": draw(st_rho()),
            "nspin": draw(st.sampled_from([1, 2])), "ngrid": draw(st.integers(1, 3))}


@subcheck("C13", "list_ueg", st_list_case, quick=1600, thorough=24000,
          rule="FeatureSettings over all family combinations (semilocal mode x NLDF x FracLapl x SDMX) with default, "
               "recommended or drawn normaliser lists x rho x "
               "nspin x 1-3 grid points; oracles: ueg_vector(rho) is the concatenation of the family vectors and has nfeat "
               "entries; every row of get_normalized_feature_vector(raw UEG block) == that normaliser's fill_fwd at inh_ueg (1 for "
               "nst/npa, 0 for ns/np); ueg_vector(rho, True) == get_normalized_feature_vector(raw UEG block) (1e-12); "
               "non-trivial = >= 2 families and a non-constant normaliser",
          tolerances={"rtol": 1e-12})
def list_ueg(case, ctx):
    spec, n = case["fs"], case["rho"]
    fs = G.build_settings(spec)
    ctx.event("families=%d norm=%s" % (sum(spec[k] is not None for k in ("nldf", "nlof", "sdmx")), spec["normalizers"]["kind"]))
    raw = np.asarray(fs.ueg_vector(n), dtype=float)
    parts = [np.asarray(p.ueg_vector(n), dtype=float) for p in (fs.sl_settings, fs.nldf_settings, fs.nlof_settings, fs.sdmx_settings)]
    ctx.check(raw.shape == (fs.nfeat,), ("raw_length",), got=raw.shape, nfeat=fs.nfeat)
    ctx.equal_bits(raw, np.concatenate(parts), ("raw_concat",))
    ctx.finite(raw, ("raw",))
    known = _has_inh_mgga(spec, fs)
    cls = "inh_mgga" if known else "plain"
    ctx.event("class=" + cls)
    if known and "inh_mgga" in EXCLUDE_KNOWN:
        ctx.event("excluded_known:inh_mgga")
        return
    rep = np.asarray(fs.ueg_vector(n, with_normalizers=True), dtype=float)
    X = np.repeat(np.repeat(raw[None, :, None], case["nspin"], axis=0), case["ngrid"], axis=2)
    comp = fs.normalizers.get_normalized_feature_vector(X)
    nonconst = any(x is not None and type(x).__name__ != "ConstantNormalizer" for x in (fs.normalizers[i] for i in range(fs.nfeat)))
    if sum(spec[k] is not None for k in ("nldf", "nlof", "sdmx")) >= 2 and nonconst:
        ctx.nontrivial([G.class_label(spec), spec["normalizers"]["kind"], round(math.log10(n))])
    # the list's own inhomogeneity argument at the UEG point: each row must equal that normaliser's fill_fwd at
    # (rho, inh_ueg) with inh_ueg = 1 (meta-GGA modes) / 0 (GGA modes) -- independent of get_ueg
    inh = ueg_inh(spec["sl"]["mode"])
    for i in range(fs.nfeat):
        nm = fs.normalizers[i]
        want_i = raw[i] if nm is None else float(nm.fill_fwd(np.array([raw[i]]), np.array([n]), np.array([inh]))[0])
        ctx.close(comp[:, i, :], np.full(comp[:, i, :].shape, want_i), ("computed_vs_fill_fwd", spec["sl"]["mode"]), rtol=1e-12,
                  scale=abs(want_i) + 1e-300, row=i)
    scale = np.maximum(np.abs(rep), 1e-300)
    for s in range(case["nspin"]):
        for g in range(case["ngrid"]):
            ctx.close(comp[s, :, g] / scale, rep / scale, ("reported_vs_computed", cls), rtol=1e-12, scale=1.0,
                      label=G.class_label(spec), rho=n)


# ------------------------------------------------------------------------------------------------
@st.composite
def st_model_case(draw):
    fs = draw(G.st_feature_settings(min_families=1))
    nf = G.spec_nfeat(fs)
    nmap = draw(st.integers(1, min(6, nf - 1)))
    idx = draw(st.lists(st.integers(1, nf - 1), min_size=nmap, max_size=nmap))
    maps = [{"i": i, "g": draw(st.floats(0.1, 0.9)), "scale": draw(st.floats(0.3, 3.0))} for i in idx]
    return {"fs": fs, "rho": draw(st_rho()), "maps": maps, "nspin": draw(st.sampled_from([1, 2])),
            "mode": draw(st.sampled_from(["SEP", "NPOL"])), "evaluator": draw(st.sampled_from(["linear", "rbf", "linear+rbf"])),
            "mul": draw(st.sampled_from(["LDA_X", "ONE", "GGA_X_PBE"])), "add": draw(st.sampled_from(["ZERO", "LDA_X", "GGA_X_PBE"])),
            "api": draw(st.sampled_from([1, 2])), "seed": draw(st.integers(0, 2 ** 31 - 1)),
            # 2 grid points are left out: with nspin = 1 MappedDFTKernel.apply_descriptor_grad mistakes a 2-sample batch for a
            # polarised array (ValueError in SEP mode) -- reported separately, C04/C09's domain
            "ngrid": draw(st.sampled_from([1, 3, 4]))}


@subcheck("C13", "model_baseline", st_model_case, quick=900, thorough=14000,
          rule="FeatureSettings (>= 1 nonlocal family, any normalisers) + a FeatureList of 1-6 VMaps over drawn normalised "
               "features, each centred with scale*get_vmap_heg_value(ueg_vector(rho, True)[i], gamma); evaluators "
               "GlobalLinear / RBF / both; MappedXC (native baselines) or MappedXC2 (libxc baselines), mode SEP/NPOL, nspin "
               "1/2; oracle: at the normalised UEG point every transformed feature is 0 (1e-12 of scale) and the model "
               "returns f(0)*multiplicative + additive baseline (exactly the additive baseline for a linear evaluator); "
               "non-trivial = rho != 1 and a non-constant normaliser on a mapped feature",
          tolerances={"x1_atol": 1e-12, "energy_rtol": 1e-11})
def model_baseline(case, ctx):
    from ciderpress.dft import baselines
    from ciderpress.dft.transform_data import FeatureList, VMap, get_vmap_heg_value
    from ciderpress.dft.xc_evaluator import GlobalLinearEvaluator, MappedDFTKernel, MappedXC, RBFEvaluator
    from ciderpress.dft.xc_evaluator2 import MappedDFTKernel2, MappedXC2
    from ciderpress.models.kernels import DiffConstantKernel, DiffRBF

    spec, n, nspin, ng = case["fs"], case["rho"], case["nspin"], case["ngrid"]
    fs = G.build_settings(spec)
    known = _has_inh_mgga(spec, fs)
    cls = "inh_mgga" if known else "plain"
    ctx.event("class=%s api=%d %s %s" % (cls, case["api"], case["mode"], case["evaluator"]))
    if known and "inh_mgga" in EXCLUDE_KNOWN:
        ctx.event("excluded_known:inh_mgga")
        return
    raw = np.asarray(fs.ueg_vector(n), dtype=float)
    heg = np.asarray(fs.ueg_vector(n, with_normalizers=True), dtype=float)
    maps = []
    for m in case["maps"]:
        gamma = m["g"] / (1.0 + abs(heg[m["i"]]))
        maps.append(VMap(m["i"], gamma, scale=m["scale"], center=m["scale"] * get_vmap_heg_value(heg[m["i"]], gamma)))
    fl = FeatureList(maps)
    n1 = fl.nfeat
    rng = rng_from(case["seed"])
    fevals = []
    if "linear" in case["evaluator"]:
        fevals.append(GlobalLinearEvaluator(rng.uniform(-1, 1, n1)))
    if "rbf" in case["evaluator"]:
        kern = DiffConstantKernel(0.7) * DiffRBF(length_scale=rng.uniform(0.3, 1.0, n1))
        fevals.append(RBFEvaluator(kern, rng.uniform(-1, 1, (5, n1)), rng.normal(size=5)))
    X = np.repeat(np.repeat(raw[None, :, None], nspin, axis=0), ng, axis=2)
    Xn = fs.normalizers.get_normalized_feature_vector(X)
    X1 = fl(Xn[0].T.copy())
    sc = np.array([m["scale"] for m in case["maps"]])
    ctx.close(X1 / sc, np.zeros_like(X1), ("x1_not_zero_at_ueg", cls), rtol=0, atol=1e-12, label=G.class_label(spec), rho=n)
    f0 = 0.0
    for fe in fevals:
        r, _ = fe(np.zeros((1, n1)))
        f0 += float(r[0])
    mapped = set(m["i"] for m in case["maps"])
    if abs(n - 1) > 1e-3 and any(fs.normalizers[i] is not None and type(fs.normalizers[i]).__name__ != "ConstantNormalizer" for i in mapped):
        ctx.nontrivial([G.class_label(spec), case["mode"], case["api"], case["evaluator"], round(math.log10(n))])
    if case["api"] == 1:
        mk = MappedDFTKernel(fevals, fl, case["mode"], baselines.BASELINE_CODES[case["mul"]], baselines.BASELINE_CODES[case["add"]])
        model = MappedXC([mk], fs)
        res, dres = model(Xn.copy())
        m, _ = mk.multiplicative_baseline(Xn)
        a, _ = mk.additive_baseline(Xn)
        want = (f0 * m + a).sum(0) if case["mode"] == "SEP" else f0 * m + a
        mag = ((abs(f0) + 1) * np.abs(m) + np.abs(a))
        mag = mag.sum(0) if case["mode"] == "SEP" else mag
    else:
        mul = {"LDA_X": "LDA_X", "ONE": "LDA_C_PW_MOD", "GGA_X_PBE": "GGA_X_PBE"}[case["mul"]]
        add = {"ZERO": None, "LDA_X": "LDA_X", "GGA_X_PBE": "GGA_C_PBE"}[case["add"]]
        mk = MappedDFTKernel2(fevals, fl, case["mode"], mul, add)
        model = MappedXC2([mk], fs)
        rho = np.full((nspin, ng), n / nspin, order="F")
        sigma = np.zeros((2 * nspin - 1, ng), order="F")
        rho_tuple = (rho, sigma)
        res, dres, _ = model(Xn.copy(), rho_tuple)
        m = mk.multiplicative_baseline(rho_tuple)[0]
        a = 0.0 if add is None else mk.additive_baseline(rho_tuple)[0]
        want = (f0 * m + a).sum(0) if case["mode"] == "SEP" else f0 * m + a
        mag = ((abs(f0) + 1) * np.abs(m) + np.abs(a))
        mag = mag.sum(0) if case["mode"] == "SEP" else mag
    mag = np.maximum(np.broadcast_to(mag, np.shape(res)), 1e-300)
    ctx.close(np.asarray(res) / mag, np.broadcast_to(want, np.shape(res)) / mag, ("energy_not_baseline", cls, "api%d" % case["api"]),
              rtol=1e-11, scale=1.0, f0=f0)
    if case["evaluator"] == "linear":
        ctx.check(f0 == 0.0, ("linear_f0_nonzero",))   # then `want` above is exactly the additive baseline
