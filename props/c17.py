"""C17 -- analytic nuclear gradients equal the derivative of the SCF energy."""
import numpy as np
from hypothesis import strategies as st

from cpverif import gen_mol as G
from cpverif.runner import Skip, subcheck

TOL = {"fd_step_bohr": 2e-3, "with_grid_response_atol": 5e-6, "without_grid_response_atol": {"level0": 3e-3, "level1": 3e-3},
       "sum_forces_with_response": 1e-8, "scf_conv_tol": 1e-10, "scf_conv_tol_grad": 5e-7}


@st.composite
def st_case(draw, families=("sl", "sl", "nldf"), grid_response=None):
    model = draw(G.st_model(families=families, max_kernels=1, allow_xc2=True))
    for k in model["kernels"]:
        k["amp"] = min(k["amp"], 0.5)
    nldf = model["nldf"] is not None
    # level 0 is too coarse for the fixed-grid approximation with NLDF features (measured |sum F| = 0.18 Eh/bohr
    # for an NH/6-31G case that has 1e-3 at level 1), so without grid response NLDF cases use level 1
    lv = (1,) if (not nldf or grid_response is False) else (0, 1)
    mol = draw(G.st_mol_chem(max_atoms=2 if nldf else 3, max_elec=10 if nldf else 16, levels=lv))
    calc = draw(G.st_calc())
    calc["xmix"] = draw(st.sampled_from([0.25, 0.5, 1.0]))
    natm = len(mol["atoms"])
    u = [draw(st.floats(-1, 1)) for _ in range(3 * natm)]
    if sum(x * x for x in u) < 1e-2:
        u[0] = 1.0
    return {"mol": mol, "model": model, "calc": calc, "uks": draw(st.booleans()), "df": draw(st.booleans()),
            "grid_response": draw(st.booleans()) if grid_response is None else grid_response, "u": u}


def st_noresp():
    return st_case(grid_response=False)


@st.composite
def st_resp_sl(draw):
    case = draw(st_case(families=("sl",), grid_response=True))
    # a quarter of the semilocal full-response cases carry PySCF's VV10 term (separate grid, separate response block)
    case["nlc"] = draw(st.sampled_from(range(4))) == 0
    return case


def st_resp_nldf():
    return st_case(families=("nldf",), grid_response=True)


def _scf(case, atoms, dm0=None, frozen_grid=None):
    from pyscf import dft

    mol = G.build_mol(case["mol"], atoms=atoms)
    model = G.build_model(case["model"])
    uks = case["uks"] or mol.spin != 0
    from ciderpress.pyscf.dft import make_cider_calc
    from ciderpress.pyscf.nldf_convolutions import PySCFNLDFInitializer

    ks = dft.UKS(mol) if uks else dft.RKS(mol)
    ks.grids.level = case["mol"]["grid_level"]
    if case["df"]:
        ks = ks.density_fit()
    cs = case["calc"]
    nldf_init = None
    if model.settings.has_nldf:
        nldf_init = PySCFNLDFInitializer(model.settings.nldf_settings, plan_type=cs["plan_type"],
                                         interpolator_type=cs["interp"], aux_lambd=cs["aux_lambd"])
    mf = make_cider_calc(ks, model, xmix=cs["xmix"], xc=cs["xc"], xkernel=cs["xkernel"], ckernel=cs["ckernel"],
                         nldf_init=nldf_init)
    if case["df"]:
        mf = mf.density_fit() if not hasattr(mf, "with_df") or mf.with_df is None else mf
    if case.get("nlc"):
        # the VV10 nonlocal correlation term of PySCF on top of the CIDER functional (its own, coarse grid)
        mf.nlc = "vv10"
        mf.nlcgrids.level = 0
    mf.conv_tol = 1e-10
    # the forces are first order in the residual orbital gradient: 5e-7 keeps that error below the 5e-6 tolerance even
    # with a response factor of 10 (thorough tier: an OH/sto-3g UKS case "converged" at 3e-6 was 4e-5 off and does not
    # converge at all at 1e-7: such cases are counted scf_not_converged, not judged)
    mf.conv_tol_grad = 5e-7
    mf.max_cycle = 100
    mf.small_rho_cutoff = 0.0      # no density pruning of the grid between geometries
    mf.verbose = 0
    if frozen_grid is not None:
        # the integration grid of the reference geometry, held fixed while the atoms (and their AOs) move
        mf.grids.coords = frozen_grid[0].copy()
        mf.grids.weights = frozen_grid[1].copy()
        mf.grids.non0tab = mf.grids.make_mask(mol, mf.grids.coords)
        mf.grids.screen_index = mf.grids.non0tab
    try:
        mf.kernel(dm0=dm0)
    except Exception as e:
        if "exponent" in str(e).lower() and "large" in str(e).lower():
            # the documented guard of the plan (C18): the drawn exponent parameters exceed the default ladder for this
            # molecule -- a rejected configuration, not a force
            raise Skip()
        raise
    return mol, mf


def _run(case, ctx):
    mspec = case["mol"]
    natm = len(mspec["atoms"])
    fam = "nldf" if case["model"]["nldf"] else "sl"
    ctx.event("family=" + fam)
    ctx.event("sl=" + case["model"]["sl"])
    ctx.event("df" if case["df"] else "nodf")
    ctx.event("grid_response" if case["grid_response"] else "no_grid_response")
    ctx.event("xc2" if case["model"]["xc2"] else "xc1")
    if case.get("nlc"):
        ctx.event("vv10")
    if case["model"]["nldf"]:
        ctx.event("nldf=%s/%s/%s" % (case["model"]["nldf"]["version"], case["calc"]["plan_type"], case["calc"]["interp"]))
    coords = np.array([p for _, p in mspec["atoms"]])
    u = np.array(case["u"]).reshape(natm, 3)
    u = u / np.linalg.norm(u)
    atoms0 = [[a, list(p)] for (a, _), p in zip(mspec["atoms"], coords)]
    mol, mf = _scf(case, atoms0)
    ctx.event("uks" if (case["uks"] or mol.spin != 0) else "rks")
    if not mf.converged:
        ctx.event("scf_not_converged")
        raise Skip()
    g = mf.nuc_grad_method()
    g.grid_response = case["grid_response"]
    g.verbose = 0
    F = np.asarray(g.kernel())
    ctx.finite(F, ("forces",))
    if case["uks"] or mol.spin != 0:
        # exact metamorphic relation, no extra SCF: exchanging the roles of the two spin channels (orbitals, occupations
        # and orbital energies handed to the gradient driver in swapped order) is the same physical state, so the
        # forces are the same numbers.  Catches a beta-channel term contracted with alpha-channel data.
        gs = mf.nuc_grad_method()
        gs.grid_response = case["grid_response"]
        gs.verbose = 0
        Fs = np.asarray(gs.kernel(mo_energy=np.asarray(mf.mo_energy)[::-1].copy(), mo_coeff=np.asarray(mf.mo_coeff)[::-1].copy(),
                                  mo_occ=np.asarray(mf.mo_occ)[::-1].copy()))
        polarised = bool(np.max(np.abs(np.asarray(mf.mo_occ)[0] - np.asarray(mf.mo_occ)[1])) > 0)
        ctx.event("spin_swap_forces:" + ("open_shell" if polarised else "closed_shell"))
        ctx.measure("force_spin_swap", float(np.max(np.abs(Fs - F))) / 1e-6)
        ctx.close(Fs, F, ("force_spin_swap", fam, "open_shell" if polarised else "closed_shell",
                          "grid_response" if case["grid_response"] else "no_grid_response"), rtol=0, atol=1e-6)
    dm0 = mf.make_rdm1()
    h = 2e-3
    es = {}
    # without grid response and without NLDF the analytic gradient is the exact derivative of the energy on a
    # FROZEN grid (points and weights do not follow the atoms): use that as the oracle, it needs no error envelope
    frozen = None
    if not case["grid_response"] and fam == "sl":
        frozen = (np.array(mf.grids.coords), np.array(mf.grids.weights))
        ctx.event("frozen_grid_oracle")
    for step in (h, -h, h / 2, -h / 2):
        atoms = [[a, list(p)] for (a, _), p in zip(mspec["atoms"], coords + step * u)]
        _, mfs = _scf(case, atoms, dm0=dm0, frozen_grid=frozen)
        if not mfs.converged:
            ctx.event("scf_not_converged_displaced")
            raise Skip()
        es[step] = mfs.e_tot
    # 4th-order stencil from (+-h, +-h/2): f' = [8(f(h/2)-f(-h/2)) - (f(h)-f(-h))] / (6h)
    fd = (8 * (es[h / 2] - es[-h / 2]) - (es[h] - es[-h])) / (6 * h)
    fd2 = (es[h] - es[-h]) / (2 * h)
    an = float(np.sum(F * u))
    sigbase = (fam, "df" if case["df"] else "nodf", "uks" if (case["uks"] or mol.spin != 0) else "rks")
    spread = abs(fd - fd2)
    if case["grid_response"] or frozen is not None:
        tol = 5e-6
    else:
        tol = TOL["without_grid_response_atol"]["level%d" % mspec["grid_level"]]
    if spread > max(tol, 1e-6):
        ctx.unresolved_fd("fd_unresolved:forces")
        return
    ctx.measure("force_fd/" + "/".join(sigbase) + ("/resp" if case["grid_response"] else "/noresp"), abs(an - fd) / tol)
    judged = case["grid_response"] or frozen is not None
    if not judged:
        # NLDF model without grid response: the neglected terms are (dE/dfeature) x (dependence of the fitted features on the
        # atom centres through auxiliary basis and atomic grids).  For a synthetic model that product has no bound that
        # follows from the property (measured: 1e-3 typical, 0.07 with a se_rvec feature and an RBF evaluator, 0.11 with a
        # spline evaluator, while the full-response gradient of the same models agrees with the finite difference to 3e-9),
        # so the deviation is recorded, not judged.  What the fixed-grid gradient does compute is decided exactly by
        # fixed_grid_matrix_fd and forces_spin_swap.
        ctx.event("nldf_no_response_deviation:" + ("<1e-3" if abs(an - fd) < 1e-3 else "<3e-3" if abs(an - fd) < 3e-3 else "<3e-2" if abs(an - fd) < 3e-2 else ">=3e-2"))
    else:
        ctx.check(abs(an - fd) <= tol, ("force_vs_fd",) + sigbase + ("grid_response" if case["grid_response"] else "no_grid_response",),
                  analytic=an, fd=fd, fd_2nd_order=fd2, tol=tol)
    tot = F.sum(0)
    torque = np.cross(coords, F).sum(0)
    if case["grid_response"]:
        ctx.close(tot, np.zeros(3), ("sum_forces", "grid_response"), rtol=0, atol=1e-8)
        # (no torque condition: the atomic grids are not rotationally invariant, so the net torque vanishes only
        # to quadrature accuracy; measured 1e-6)
    elif frozen is None:
        ctx.measure("sum_forces/nldf/noresp", float(np.max(np.abs(tot))) / (tol * natm))     # recorded, not judged (see above)
    if abs(an) > 1e-3:
        ctx.nontrivial([G.mol_class(mspec), G.model_signature(case["model"]), case["df"], case["uks"], case["grid_response"],
                        case["calc"]["plan_type"] if case["model"]["nldf"] else None])


RULE = ("chemically reasonable small molecules (15 templates with jittered bond lengths/angles, generic orientation, sto-3g/6-31g) x synthetic model (semilocal all four modes or NLDF "
        "i/j/ij/k with Gaussian/spline plans and both interpolators; SEP/NPOL/POL; MappedXC/MappedXC2; xmix/xkernel/ckernel) x "
        "RKS/UKS x density fitting on/off x a drawn unit displacement u over all 3*natm coordinates: SCF converged to 1e-10 at "
        "the geometry and at +-h u, +-h/2 u (h = 2e-3 bohr, same initial guess chain, no density pruning of the grid); "
        "oracle: 4th-order finite difference of the converged total energy vs u.F from nuc_grad_method().kernel(); the 2nd- and "
        "4th-order estimates must agree (else unresolved); unrestricted cases additionally: forces recomputed with the two "
        "spin channels handed to the gradient driver in swapped order equal the forces (1e-6 Eh/bohr); ")


@subcheck("C17", "forces_no_grid_response", st_noresp, quick=24, thorough=320, tolerances=TOL, shrink=False,
          rule=RULE + "grid_response=False: for semilocal models the displaced energies are computed on the FROZEN grid of the "
               "reference geometry (the fixed-grid gradient is the exact derivative of that energy: 5e-6); for NLDF models "
               "(atom-centred expansions tied to the grid) the deviation from the moving-grid finite difference is RECORDED, NOT JUDGED (it is "
               "proportional to the model's sensitivity to the fitted features and unbounded for synthetic models; the fixed-grid gradient is decided "
               "exactly by fixed_grid_matrix_fd and forces_spin_swap); formerly: envelope "
               "(3e-3 Eh/bohr at grid level 1; measured up to 1.1e-3; RBF / kernel evaluators only: the envelope is proportional to the model's "
               "sensitivity to the fitted features, which random spline tables make unphysically large) and sum of forces within natm*tol; "
               "non-trivial = |u.F| > 1e-3")
def forces_no_grid_response(case, ctx):
    _run(case, ctx)


@subcheck("C17", "forces_grid_response_sl", st_resp_sl, quick=16, thorough=240, tolerances=TOL, shrink=False,
          rule=RULE + "grid_response=True, semilocal features, a quarter of the cases with PySCF's VV10 term (nlc = 'vv10') added: |u.F - FD| <= 5e-6 Eh/bohr, sum of forces <= 1e-8")
def forces_grid_response_sl(case, ctx):
    _run(case, ctx)


@subcheck("C17", "forces_grid_response_nldf", st_resp_nldf, quick=16, thorough=240, tolerances=TOL, shrink=False,
          rule=RULE + "grid_response=True, nonlocal density features (full response of the feature pipeline): same tolerances")
def forces_grid_response_nldf(case, ctx):
    _run(case, ctx)


# ------------------------------------------------------------------------------------------------
@st.composite
def st_swap(draw):
    model = draw(G.st_model(families=("sl", "nldf", "nldf"), max_kernels=1, allow_xc2=True))
    for k in model["kernels"]:
        k["amp"] = min(k["amp"], 0.5)
    mol = draw(G.st_mol_chem(max_atoms=3 if not model["nldf"] else 2, max_elec=10, levels=(0, 1), open_shell=True))
    calc = draw(G.st_calc())
    calc["xmix"] = draw(st.sampled_from([0.25, 0.5, 1.0]))
    return {"mol": mol, "model": model, "calc": calc, "uks": True, "df": draw(st.booleans()),
            "grid_response": draw(st.booleans())}


@subcheck("C17", "forces_spin_swap", st_swap, quick=40, thorough=400, tolerances=TOL, shrink=False,
          rule="open-shell templates (OH, NH, NH2, BeH) x semilocal / NLDF synthetic models x DF on/off x grid_response "
               "on/off, one converged UKS calculation per case: the forces recomputed with the two spin channels (orbitals, "
               "occupations, orbital energies) handed to the gradient driver in swapped order equal the forces to 1e-6 "
               "Eh/bohr (exact relation, no finite difference: many cases per second of budget); with grid response the "
               "forces also sum to zero (1e-8); non-trivial = always (alpha and beta occupations differ)")
def forces_spin_swap(case, ctx):
    mspec = case["mol"]
    fam = "nldf" if case["model"]["nldf"] else "sl"
    ctx.event("family=" + fam)
    ctx.event("sl=" + case["model"]["sl"])
    ctx.event("grid_response" if case["grid_response"] else "no_grid_response")
    atoms0 = [[a, list(p)] for a, p in mspec["atoms"]]
    mol, mf = _scf(case, atoms0)
    if not mf.converged:
        ctx.event("scf_not_converged")
        raise Skip()
    g = mf.nuc_grad_method()
    g.grid_response = case["grid_response"]
    g.verbose = 0
    F = np.asarray(g.kernel())
    ctx.finite(F, ("forces",))
    gs = mf.nuc_grad_method()
    gs.grid_response = case["grid_response"]
    gs.verbose = 0
    Fs = np.asarray(gs.kernel(mo_energy=np.asarray(mf.mo_energy)[::-1].copy(), mo_coeff=np.asarray(mf.mo_coeff)[::-1].copy(),
                              mo_occ=np.asarray(mf.mo_occ)[::-1].copy()))
    ctx.measure("force_spin_swap", float(np.max(np.abs(Fs - F))) / 1e-6)
    ctx.close(Fs, F, ("force_spin_swap", fam, "open_shell", "grid_response" if case["grid_response"] else "no_grid_response"),
              rtol=0, atol=1e-6)
    if case["grid_response"]:
        ctx.close(F.sum(0), np.zeros(3), ("sum_forces", "grid_response"), rtol=0, atol=1e-8)
    ctx.nontrivial([G.mol_class(mspec), G.model_signature(case["model"]), case["df"], case["grid_response"],
                    case["calc"]["plan_type"] if case["model"]["nldf"] else None])


# ------------------------------------------------------------------------------------------------
@st.composite
def st_unsupported(draw):
    model = draw(G.st_model(families=("sdmx", "nldf+sdmx"), max_kernels=1))
    mol = draw(G.st_mol_chem(max_atoms=2, max_elec=10, levels=(0,), bases=("sto-3g",)))
    return {"mol": mol, "model": model, "calc": draw(G.st_calc()), "uks": draw(st.booleans()), "df": draw(st.booleans()),
            "grid_response": draw(st.booleans())}


@subcheck("C17", "unsupported_raise", st_unsupported, quick=16, thorough=200, tolerances=TOL, shrink=False,
          rule="models with SDMX features (alone or with NLDF), RKS/UKS, DF on/off, grid_response on/off: the gradient method "
               "must raise NotImplementedError; returning numbers, None or another exception class is a violation; "
               "non-trivial = always")
def unsupported_raise(case, ctx):
    mspec = case["mol"]
    atoms0 = [[a, list(p)] for a, p in mspec["atoms"]]
    from pyscf import dft  # noqa

    mol = G.build_mol(mspec)
    model = G.build_model(case["model"])
    uks = case["uks"] or mol.spin != 0
    ks = G.build_calc(mol, model, case["calc"], uks, level=0)
    if case["df"]:
        ks = ks.density_fit()
    ks.verbose = 0
    ks.max_cycle = 2
    ks.kernel()
    g = ks.nuc_grad_method()
    g.grid_response = case["grid_response"]
    g.verbose = 0
    fam = "+".join(f for f in ("nldf", "sdmx") if case["model"][f])
    ctx.event("family=" + fam)
    ctx.nontrivial([G.model_signature(case["model"]), uks, case["df"], case["grid_response"]])
    sig = ("unsupported", fam, "uks" if uks else "rks", "df" if case["df"] else "nodf",
           "grid_response" if case["grid_response"] else "no_grid_response")
    try:
        res = g.kernel()
    except NotImplementedError:
        return
    except Exception as e:  # noqa
        ctx.check(False, sig + ("wrong_exception", type(e).__name__), message=str(e)[:300])
        return
    ctx.check(False, sig + ("returned_numbers",), result=repr(type(res)))


# ------------------------------------------------------------------------------------------------
# the fixed-grid XC derivative matrix against its own definition (exact, no SCF, no envelope)
@st.composite
def st_fixed(draw):
    model = draw(G.st_model(families=("sl", "nldf", "nldf"), max_kernels=2, allow_xc2=True))
    nldf = model["nldf"] is not None
    mol = draw(G.st_mol(min_atoms=2, max_atoms=2 if nldf else 3, max_elec=14, levels=(0, 1), bases=("sto-3g", "6-31g")))
    natm = len(mol["atoms"])
    u = [draw(st.floats(-1, 1)) for _ in range(3 * natm)]
    if sum(x * x for x in u) < 1e-2:
        u[0] = 1.0
    # max_memory of the derivative-matrix routine decides into how many blocks the grid is cut
    return {"mol": mol, "model": model, "calc": draw(G.st_calc()), "dm": draw(G.st_dm()), "u": u,
            "mem": draw(st.sampled_from([2000, 2000, 1.0, 0.05]))}


@subcheck("C17", "fixed_grid_matrix_fd", st_fixed, quick=48, thorough=600, tolerances=TOL, shrink=False,
          rule="what grid_response=False computes, against its definition: G-mol x PSD density matrix (no SCF) x synthetic model "
               "(semilocal or NLDF i/j/ij/k, every evaluator kind, MappedXC/MappedXC2) x RKS/UKS x max_memory 2000 / 1 / 0.05 MB (grid in one or many blocks).  The XC derivative matrices "
               "returned by rks_grad.get_vxc / uks_grad.get_vxc, contracted with the density matrix per atom and with a drawn "
               "unit displacement u, must equal the 4th-order finite difference of the XC energy of the integrator when only "
               "the atomic-orbital centres move by h u (two estimates, from h = 2e-3, 1e-3 and from 1e-3, 5e-4 bohr) while the integration grid, its weights and the NLDF "
               "feature generator (auxiliary basis centres, atomic grids) stay those of the reference geometry and the density "
               "matrix is held fixed: |analytic - FD| <= 2e-6 of max(|value|, 1e-2) (cases whose two estimates differ by more than that are unresolved: the energy is piecewise smooth because of density cutoffs); this is exact, "
               "so spline and linear evaluators are included; non-trivial = |u.F_xc| > 1e-4")
def fixed_grid_matrix_fd(case, ctx):
    from ciderpress.pyscf import rks_grad, uks_grad

    mspec = case["mol"]
    mol = G.build_mol(mspec)
    model = G.build_model(case["model"])
    uks = case["dm"]["uks"]
    ks = G.build_calc(mol, model, case["calc"], uks, level=mspec["grid_level"])
    ni = ks._numint
    grids = ks.grids
    chans = G.build_dm(mol, case["dm"])[0]
    dms = np.array([c["dm"] for c in chans])
    fam = "nldf" if case["model"]["nldf"] else "sl"
    ctx.event("family=" + fam)
    ctx.event("uks" if uks else "rks")
    ctx.event("sl=" + case["model"]["sl"])
    if case.get("mem", 2000) != 2000:
        ctx.event("grid_cut_into_blocks")
    for k in case["model"]["kernels"]:
        for e in k["evals"]:
            ctx.event("eval=" + e)
    natm = mol.natm
    u = np.array(case["u"]).reshape(natm, 3)
    u = u / np.linalg.norm(u)
    # analytic: derivative matrices of the fixed-grid gradient (the function returns -<nabla phi_mu| v |phi_nu>)
    if uks:
        exc, vxc = uks_grad.get_vxc(ni, mol, grids, ks.xc, dms, max_memory=case.get("mem", 2000))
        vx = np.asarray(vxc)                       # (2, 3, nao, nao)
    else:
        exc, vxc = rks_grad.get_vxc(ni, mol, grids, ks.xc, dms[0], max_memory=case.get("mem", 2000))
        vx = np.asarray(vxc)[None]
    ctx.finite(vx, ("fixed_grid", "vxc_matrices"))
    aoslices = mol.aoslice_by_atom()
    F = np.zeros((natm, 3))
    for ia in range(natm):
        p0, p1 = aoslices[ia, 2], aoslices[ia, 3]
        for s in range(len(vx)):
            F[ia] += 2.0 * np.einsum("xij,ij->x", vx[s][:, p0:p1], dms[s][p0:p1])
    an = float(np.sum(F * u))
    # definition: E_xc with only the AO centres displaced.  The integrator is initialised at the reference geometry and
    # its feature generators are kept (initialize_feature_generators is made a no-op on this object: the generator would
    # otherwise follow the displaced molecule, which is exactly the dependence the fixed-grid gradient neglects)
    if uks:
        ni.nr_uks(mol, grids, ks.xc, dms, max_memory=2000)
    else:
        ni.nr_rks(mol, grids, ks.xc, dms[0], max_memory=2000)
    keep = ni.initialize_feature_generators

    def frozen_init(m, g, nspin, _keep=keep):
        return None

    ni.initialize_feature_generators = frozen_init
    coords = mol.atom_coords()
    try:
        def exc_at(step):
            m2 = mol.copy()
            m2.set_geom_(coords + step * u, unit="Bohr")
            m2.build(False, False)
            if uks:
                return float(ni.nr_uks(m2, grids, ks.xc, dms, max_memory=2000)[1])
            return float(ni.nr_rks(m2, grids, ks.xc, dms[0], max_memory=2000)[1])

        h = 2e-3
        e = {st_: exc_at(st_) for st_ in (h, -h, h / 2, -h / 2, h / 4, -h / 4)}
    finally:
        ni.initialize_feature_generators = keep
    # two 4th-order estimates, from (h, h/2) and (h/2, h/4)
    fd4_ = (8 * (e[h / 2] - e[-h / 2]) - (e[h] - e[-h])) / (6 * h)
    fd4b = (8 * (e[h / 4] - e[-h / 4]) - (e[h / 2] - e[-h / 2])) / (3 * h)
    scale = max(abs(fd4b), abs(an), 1e-2)
    spread = abs(fd4_ - fd4b)
    # (the energy is only piecewise smooth in the AO centres: density cutoffs switch single grid points on and off, which
    # shows as disagreement between the two estimates; such cases are not judged.  With a loose resolution rule exactly
    # those cases "fail" by 1e-5..4e-4: measured while building this sub-check)
    tol = 2e-6 * scale
    if spread > tol:
        ctx.unresolved_fd("fd_unresolved:fixed_grid_matrix")
        return
    ctx.decided["fixed_grid_matrix/" + fam] = ctx.decided.get("fixed_grid_matrix/" + fam, 0) + 1
    ctx.measure("fixed_grid_matrix/" + fam + ("/uks" if uks else "/rks"), abs(an - fd4b) / tol)
    ctx.check(abs(an - fd4b) <= max(tol, 10 * spread), ("fixed_grid_matrix_vs_definition", fam, "uks" if uks else "rks"),
              analytic=an, fd=fd4b, fd_coarse=fd4_, tol=tol)
    if abs(an) > 1e-4:
        ctx.nontrivial([G.mol_class(mspec), G.model_signature(case["model"]), uks, case["calc"]["plan_type"] if fam == "nldf" else None])


# ------------------------------------------------------------------------------------------------
# the same calculation object at a second geometry (scanners, geometry optimisers, mf.reset(mol))
@st.composite
def st_scan(draw):
    case = draw(st_case(families=("sl", "nldf", "nldf"), grid_response=draw(st.booleans())))
    case["shift"] = [draw(st.floats(-1, 1)) for _ in range(3 * len(case["mol"]["atoms"]))]
    return case


@subcheck("C17", "forces_scanner_reuse", st_scan, quick=16, thorough=200, tolerances=TOL, shrink=False,
          rule="chemically reasonable molecule x synthetic model (semilocal / NLDF) x RKS/UKS x DF on/off x grid_response on/off: "
               "nuc_grad_method().as_scanner() called at geometry A and then at geometry B (every atom moved by up to 0.06 bohr) "
               "returns at B the energy (1e-8 Eh) and forces (5e-6 Eh/bohr) of a freshly built calculation at B -- the "
               "calculation, integrator, grids and feature generators of A must not leak into B; non-trivial = both SCFs converged")
def forces_scanner_reuse(case, ctx):
    mspec = case["mol"]
    fam = "nldf" if case["model"]["nldf"] else "sl"
    ctx.event("family=" + fam)
    ctx.event("grid_response" if case["grid_response"] else "no_grid_response")
    coords = np.array([p for _, p in mspec["atoms"]])
    sh = np.array(case["shift"]).reshape(-1, 3) * 0.06
    atomsA = [[a, list(p)] for (a, _), p in zip(mspec["atoms"], coords)]
    atomsB = [[a, list(p)] for (a, _), p in zip(mspec["atoms"], coords + sh)]
    molA, mfA = _scf(case, atomsA)
    if not mfA.converged:
        ctx.event("scf_not_converged")
        raise Skip()
    g = mfA.nuc_grad_method()
    g.grid_response = case["grid_response"]
    g.verbose = 0
    scan = g.as_scanner()
    scan.verbose = 0
    scan(molA)
    molB = G.build_mol(mspec, atoms=atomsB)
    eB_scan, FB_scan = scan(molB)
    if not scan.base.converged:
        ctx.event("scf_not_converged_scanner")
        raise Skip()
    # fresh objects at B, started from the density the scanner converged to: open-shell cases with these synthetic
    # functionals have several SCF solutions (triplet NH: 8e-4 Eh apart, thorough tier, seed 3), and which one a run lands
    # on depends on its path; the property is about the reused objects, not about the SCF, so both are evaluated at the
    # same solution (a scanner working with stale grids or generators is not at a solution of the fresh objects, which
    # then move away from it)
    _, mfB = _scf(case, atomsB, dm0=scan.base.make_rdm1())
    if not mfB.converged:
        ctx.event("scf_not_converged")
        raise Skip()
    gB = mfB.nuc_grad_method()
    gB.grid_response = case["grid_response"]
    gB.verbose = 0
    FB = np.asarray(gB.kernel())
    ctx.close([eB_scan], [mfB.e_tot], ("scanner_reuse", "energy", fam), rtol=0, atol=1e-8)
    ctx.close(np.asarray(FB_scan), FB, ("scanner_reuse", "forces", fam, "grid_response" if case["grid_response"] else "no_grid_response"),
              rtol=0, atol=5e-6)
    ctx.nontrivial([G.mol_class(mspec), G.model_signature(case["model"]), case["df"], case["uks"], case["grid_response"]])
