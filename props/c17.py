"""C17 -- analytic nuclear gradients equal the derivative of the SCF energy."""
import numpy as np
from hypothesis import strategies as st

from cpverif import gen_mol as G
from cpverif.runner import Skip, subcheck

TOL = {"fd_step_bohr": 2e-3, "with_grid_response_atol": 5e-6, "without_grid_response_atol": {"level0": 3e-3, "level1": 3e-3},
       "sum_forces_with_response": 1e-8, "scf_conv_tol": 1e-10}


@st.composite
def st_case(draw, families=("sl", "sl", "nldf"), grid_response=None):
    model = draw(G.st_model(families=families, max_kernels=1, allow_xc2=True))
    for k in model["kernels"]:
        k["amp"] = min(k["amp"], 0.5)
    nldf = model["nldf"] is not None
    # level 0 is too coarse for the fixed-grid approximation with NLDF features (measured |sum F| = 0.18 Eh/bohr
    # for an NH/6-31G case that has 1e-3 at level 1), so without grid response NLDF cases use level 1
    lv = (1,) if (not nldf or grid_response is False) else (0, 1)
    mol = draw(G.st_mol_chem(max_atoms=2 if nldf else 3, max_elec=10 if nldf else 16, levels=lv))
    calc = draw(G.st_calc())
    calc["xmix"] = draw(st.sampled_from([0.25, 0.5, 1.0]))
    natm = len(mol["atoms"])
    u = [draw(st.floats(-1, 1)) for _ in range(3 * natm)]
    if sum(x * x for x in u) < 1e-2:
        u[0] = 1.0
    return {"mol": mol, "model": model, "calc": calc, "uks": draw(st.booleans()), "df": draw(st.booleans()),
            "grid_response": draw(st.booleans()) if grid_response is None else grid_response, "u": u}


def st_noresp():
    return st_case(grid_response=False)


def st_resp_sl():
    return st_case(families=("sl",), grid_response=True)


def st_resp_nldf():
    return st_case(families=("nldf",), grid_response=True)


def _scf(case, atoms, dm0=None, frozen_grid=None):
    from pyscf import dft

    mol = G.build_mol(case["mol"], atoms=atoms)
    model = G.build_model(case["model"])
    uks = case["uks"] or mol.spin != 0
    from ciderpress.pyscf.dft import make_cider_calc
    from ciderpress.pyscf.nldf_convolutions import PySCFNLDFInitializer

    ks = dft.UKS(mol) if uks else dft.RKS(mol)
    ks.grids.level = case["mol"]["grid_level"]
    if case["df"]:
        ks = ks.density_fit()
    cs = case["calc"]
    nldf_init = None
    if model.settings.has_nldf:
        nldf_init = PySCFNLDFInitializer(model.settings.nldf_settings, plan_type=cs["plan_type"],
                                         interpolator_type=cs["interp"], aux_lambd=cs["aux_lambd"])
    mf = make_cider_calc(ks, model, xmix=cs["xmix"], xc=cs["xc"], xkernel=cs["xkernel"], ckernel=cs["ckernel"],
                         nldf_init=nldf_init)
    if case["df"]:
        mf = mf.density_fit() if not hasattr(mf, "with_df") or mf.with_df is None else mf
    mf.conv_tol = 1e-10
    mf.conv_tol_grad = 3e-6
    mf.max_cycle = 80
    mf.small_rho_cutoff = 0.0      # no density pruning of the grid between geometries
    mf.verbose = 0
    if frozen_grid is not None:
        # the integration grid of the reference geometry, held fixed while the atoms (and their AOs) move
        mf.grids.coords = frozen_grid[0].copy()
        mf.grids.weights = frozen_grid[1].copy()
        mf.grids.non0tab = mf.grids.make_mask(mol, mf.grids.coords)
        mf.grids.screen_index = mf.grids.non0tab
    mf.kernel(dm0=dm0)
    return mol, mf


def _run(case, ctx):
    mspec = case["mol"]
    natm = len(mspec["atoms"])
    fam = "nldf" if case["model"]["nldf"] else "sl"
    ctx.event("family=" + fam)
    ctx.event("sl=" + case["model"]["sl"])
    ctx.event("df" if case["df"] else "nodf")
    ctx.event("grid_response" if case["grid_response"] else "no_grid_response")
    ctx.event("xc2" if case["model"]["xc2"] else "xc1")
    if case["model"]["nldf"]:
        ctx.event("nldf=%s/%s/%s" % (case["model"]["nldf"]["version"], case["calc"]["plan_type"], case["calc"]["interp"]))
    coords = np.array([p for _, p in mspec["atoms"]])
    u = np.array(case["u"]).reshape(natm, 3)
    u = u / np.linalg.norm(u)
    atoms0 = [[a, list(p)] for (a, _), p in zip(mspec["atoms"], coords)]
    mol, mf = _scf(case, atoms0)
    ctx.event("uks" if (case["uks"] or mol.spin != 0) else "rks")
    if not mf.converged:
        ctx.event("scf_not_converged")
        raise Skip()
    g = mf.nuc_grad_method()
    g.grid_response = case["grid_response"]
    g.verbose = 0
    F = np.asarray(g.kernel())
    ctx.finite(F, ("forces",))
    if case["uks"] or mol.spin != 0:
        # exact metamorphic relation, no extra SCF: exchanging the roles of the two spin channels (orbitals, occupations
        # and orbital energies handed to the gradient driver in swapped order) is the same physical state, so the
        # forces are the same numbers.  Catches a beta-channel term contracted with alpha-channel data.
        gs = mf.nuc_grad_method()
        gs.grid_response = case["grid_response"]
        gs.verbose = 0
        Fs = np.asarray(gs.kernel(mo_energy=np.asarray(mf.mo_energy)[::-1].copy(), mo_coeff=np.asarray(mf.mo_coeff)[::-1].copy(),
                                  mo_occ=np.asarray(mf.mo_occ)[::-1].copy()))
        polarised = bool(np.max(np.abs(np.asarray(mf.mo_occ)[0] - np.asarray(mf.mo_occ)[1])) > 0)
        ctx.event("spin_swap_forces:" + ("open_shell" if polarised else "closed_shell"))
        ctx.measure("force_spin_swap", float(np.max(np.abs(Fs - F))) / 1e-6)
        ctx.close(Fs, F, ("force_spin_swap", fam, "open_shell" if polarised else "closed_shell",
                          "grid_response" if case["grid_response"] else "no_grid_response"), rtol=0, atol=1e-6)
    dm0 = mf.make_rdm1()
    h = 2e-3
    es = {}
    # without grid response and without NLDF the analytic gradient is the exact derivative of the energy on a
    # FROZEN grid (points and weights do not follow the atoms): use that as the oracle, it needs no error envelope
    frozen = None
    if not case["grid_response"] and fam == "sl":
        frozen = (np.array(mf.grids.coords), np.array(mf.grids.weights))
        ctx.event("frozen_grid_oracle")
    for step in (h, -h, h / 2, -h / 2):
        atoms = [[a, list(p)] for (a, _), p in zip(mspec["atoms"], coords + step * u)]
        _, mfs = _scf(case, atoms, dm0=dm0, frozen_grid=frozen)
        if not mfs.converged:
            ctx.event("scf_not_converged_displaced")
            raise Skip()
        es[step] = mfs.e_tot
    # 4th-order stencil from (+-h, +-h/2): f' = [8(f(h/2)-f(-h/2)) - (f(h)-f(-h))] / (6h)
    fd = (8 * (es[h / 2] - es[-h / 2]) - (es[h] - es[-h])) / (6 * h)
    fd2 = (es[h] - es[-h]) / (2 * h)
    an = float(np.sum(F * u))
    sigbase = (fam, "df" if case["df"] else "nodf", "uks" if (case["uks"] or mol.spin != 0) else "rks")
    spread = abs(fd - fd2)
    if case["grid_response"] or frozen is not None:
        tol = 5e-6
    else:
        tol = TOL["without_grid_response_atol"]["level%d" % mspec["grid_level"]]
    if spread > max(tol, 1e-6):
        ctx.unresolved_fd("fd_unresolved:forces")
        return
    ctx.measure("force_fd/" + "/".join(sigbase) + ("/resp" if case["grid_response"] else "/noresp"), abs(an - fd) / tol)
    ctx.check(abs(an - fd) <= tol, ("force_vs_fd",) + sigbase + ("grid_response" if case["grid_response"] else "no_grid_response",),
              analytic=an, fd=fd, fd_2nd_order=fd2, tol=tol)
    tot = F.sum(0)
    torque = np.cross(coords, F).sum(0)
    if case["grid_response"]:
        ctx.close(tot, np.zeros(3), ("sum_forces", "grid_response"), rtol=0, atol=1e-8)
        # (no torque condition: the atomic grids are not rotationally invariant, so the net torque vanishes only
        # to quadrature accuracy; measured 1e-6)
    elif frozen is None:
        ctx.close(tot, np.zeros(3), ("sum_forces", "no_grid_response"), rtol=0, atol=tol * natm)
    if abs(an) > 1e-3:
        ctx.nontrivial([G.mol_class(mspec), G.model_signature(case["model"]), case["df"], case["uks"], case["grid_response"],
                        case["calc"]["plan_type"] if case["model"]["nldf"] else None])


RULE = ("chemically reasonable small molecules (15 templates with jittered bond lengths/angles, generic orientation, sto-3g/6-31g) x synthetic model (semilocal all four modes or NLDF "
        "i/j/ij/k with Gaussian/spline plans and both interpolators; SEP/NPOL/POL; MappedXC/MappedXC2; xmix/xkernel/ckernel) x "
        "RKS/UKS x density fitting on/off x a drawn unit displacement u over all 3*natm coordinates: SCF converged to 1e-10 at "
        "the geometry and at +-h u, +-h/2 u (h = 2e-3 bohr, same initial guess chain, no density pruning of the grid); "
        "oracle: 4th-order finite difference of the converged total energy vs u.F from nuc_grad_method().kernel(); the 2nd- and "
        "4th-order estimates must agree (else unresolved); unrestricted cases additionally: forces recomputed with the two "
        "spin channels handed to the gradient driver in swapped order equal the forces (1e-6 Eh/bohr); ")


@subcheck("C17", "forces_no_grid_response", st_noresp, quick=24, thorough=320, tolerances=TOL, shrink=False,
          rule=RULE + "grid_response=False: for semilocal models the displaced energies are computed on the FROZEN grid of the "
               "reference geometry (the fixed-grid gradient is the exact derivative of that energy: 5e-6); for NLDF models "
               "(atom-centred expansions tied to the grid) the moving-grid energy is used with the fixed-grid error envelope "
               "(3e-3 Eh/bohr at grid level 1; measured up to 1.1e-3) and sum of forces within natm*tol; non-trivial = |u.F| > 1e-3")
def forces_no_grid_response(case, ctx):
    _run(case, ctx)


@subcheck("C17", "forces_grid_response_sl", st_resp_sl, quick=16, thorough=240, tolerances=TOL, shrink=False,
          rule=RULE + "grid_response=True, semilocal features: |u.F - FD| <= 5e-6 Eh/bohr, sum of forces <= 1e-8")
def forces_grid_response_sl(case, ctx):
    _run(case, ctx)


@subcheck("C17", "forces_grid_response_nldf", st_resp_nldf, quick=16, thorough=240, tolerances=TOL, shrink=False,
          rule=RULE + "grid_response=True, nonlocal density features (full response of the feature pipeline): same tolerances")
def forces_grid_response_nldf(case, ctx):
    _run(case, ctx)


# ------------------------------------------------------------------------------------------------
@st.composite
def st_swap(draw):
    model = draw(G.st_model(families=("sl", "nldf", "nldf"), max_kernels=1, allow_xc2=True))
    for k in model["kernels"]:
        k["amp"] = min(k["amp"], 0.5)
    mol = draw(G.st_mol_chem(max_atoms=3 if not model["nldf"] else 2, max_elec=10, levels=(0, 1), open_shell=True))
    calc = draw(G.st_calc())
    calc["xmix"] = draw(st.sampled_from([0.25, 0.5, 1.0]))
    return {"mol": mol, "model": model, "calc": calc, "uks": True, "df": draw(st.booleans()),
            "grid_response": draw(st.booleans())}


@subcheck("C17", "forces_spin_swap", st_swap, quick=40, thorough=400, tolerances=TOL, shrink=False,
          rule="open-shell templates (OH, NH, NH2, BeH) x semilocal / NLDF synthetic models x DF on/off x grid_response "
               "on/off, one converged UKS calculation per case: the forces recomputed with the two spin channels (orbitals, "
               "occupations, orbital energies) handed to the gradient driver in swapped order equal the forces to 1e-6 "
               "Eh/bohr (exact relation, no finite difference: many cases per second of budget); with grid response the "
               "forces also sum to zero (1e-8); non-trivial = always (alpha and beta occupations differ)")
def forces_spin_swap(case, ctx):
    mspec = case["mol"]
    fam = "nldf" if case["model"]["nldf"] else "sl"
    ctx.event("family=" + fam)
    ctx.event("sl=" + case["model"]["sl"])
    ctx.event("grid_response" if case["grid_response"] else "no_grid_response")
    atoms0 = [[a, list(p)] for a, p in mspec["atoms"]]
    mol, mf = _scf(case, atoms0)
    if not mf.converged:
        ctx.event("scf_not_converged")
        raise Skip()
    g = mf.nuc_grad_method()
    g.grid_response = case["grid_response"]
    g.verbose = 0
    F = np.asarray(g.kernel())
    ctx.finite(F, ("forces",))
    gs = mf.nuc_grad_method()
    gs.grid_response = case["grid_response"]
    gs.verbose = 0
    Fs = np.asarray(gs.kernel(mo_energy=np.asarray(mf.mo_energy)[::-1].copy(), mo_coeff=np.asarray(mf.mo_coeff)[::-1].copy(),
                              mo_occ=np.asarray(mf.mo_occ)[::-1].copy()))
    ctx.measure("force_spin_swap", float(np.max(np.abs(Fs - F))) / 1e-6)
    ctx.close(Fs, F, ("force_spin_swap", fam, "open_shell", "grid_response" if case["grid_response"] else "no_grid_response"),
              rtol=0, atol=1e-6)
    if case["grid_response"]:
        ctx.close(F.sum(0), np.zeros(3), ("sum_forces", "grid_response"), rtol=0, atol=1e-8)
    ctx.nontrivial([G.mol_class(mspec), G.model_signature(case["model"]), case["df"], case["grid_response"],
                    case["calc"]["plan_type"] if case["model"]["nldf"] else None])


# ------------------------------------------------------------------------------------------------
@st.composite
def st_unsupported(draw):
    model = draw(G.st_model(families=("sdmx", "nldf+sdmx"), max_kernels=1))
    mol = draw(G.st_mol_chem(max_atoms=2, max_elec=10, levels=(0,), bases=("sto-3g",)))
    return {"mol": mol, "model": model, "calc": draw(G.st_calc()), "uks": draw(st.booleans()), "df": draw(st.booleans()),
            "grid_response": draw(st.booleans())}


@subcheck("C17", "unsupported_raise", st_unsupported, quick=16, thorough=200, tolerances=TOL, shrink=False,
          rule="models with SDMX features (alone or with NLDF), RKS/UKS, DF on/off, grid_response on/off: the gradient method "
               "must raise NotImplementedError; returning numbers, None or another exception class is a violation; "
               "non-trivial = always")
def unsupported_raise(case, ctx):
    mspec = case["mol"]
    atoms0 = [[a, list(p)] for a, p in mspec["atoms"]]
    from pyscf import dft  # noqa

    mol = G.build_mol(mspec)
    model = G.build_model(case["model"])
    uks = case["uks"] or mol.spin != 0
    ks = G.build_calc(mol, model, case["calc"], uks, level=0)
    if case["df"]:
        ks = ks.density_fit()
    ks.verbose = 0
    ks.max_cycle = 2
    ks.kernel()
    g = ks.nuc_grad_method()
    g.grid_response = case["grid_response"]
    g.verbose = 0
    fam = "+".join(f for f in ("nldf", "sdmx") if case["model"][f])
    ctx.event("family=" + fam)
    ctx.nontrivial([G.model_signature(case["model"]), uks, case["df"], case["grid_response"]])
    sig = ("unsupported", fam, "uks" if uks else "rks", "df" if case["df"] else "nodf",
           "grid_response" if case["grid_response"] else "no_grid_response")
    try:
        res = g.kernel()
    except NotImplementedError:
        return
    except Exception as e:  # noqa
        ctx.check(False, sig + ("wrong_exception", type(e).__name__), message=str(e)[:300])
        return
    ctx.check(False, sig + ("returned_numbers",), result=repr(type(res)))
