"""C11 -- mapped (fast) evaluators reproduce the Gaussian-process predictive function
f(x) = sum_a k(x, x_a) alpha_a and its gradient.

Reference everywhere: the Python kernel object itself (kernel(X, X1ctrl) / kernel.k_and_deriv), i.e. what
KernelEvaluator computes.  Kernels are built with the repository's constructors (kernel_plans.kernel_tools,
arbf_exchange.get_kernel) or with the classes those constructors use.
Signatures: (sub-check, relation, structural class of the kernel / index form, ...).
"""
import numpy as np
from hypothesis import strategies as st

from cpverif import gen_kernel as G
from cpverif.oracles import fd_check_vec, rng_from
from cpverif.runner import Skip, subcheck

SEED = st.integers(0, 2**31 - 1)


# ------------------------------------------------------------------------------------------------
# shared pieces

@st.composite
def st_bounded_maps(draw, n1):
    """feature list of n1 bounded maps, each reading its own raw feature"""
    maps = []
    for j in range(n1):
        c = draw(st.sampled_from(["U", "V", "L", "VZ"]))
        m = {"code": c, "i": j}
        if c == "L":
            lo = draw(st.floats(-2.0, 1.0))
            m["bounds"] = [lo, lo + draw(G.logfloat(0.5, 4.0))]
        else:
            m["gamma"] = draw(G.logfloat(0.1, 5.0))
        if c in ("V", "VZ"):
            m["scale"] = draw(G.logfloat(0.5, 3.0))
            m["center"] = draw(st.floats(-0.5, 0.5))
        maps.append(m)
    return maps


def points_in_bounds(lo, hi, n, rng, with_corners=False):
    X = lo + (hi - lo) * rng.uniform(0.0, 1.0, (n, len(lo)))
    if with_corners:
        X = np.vstack([X, lo, hi, np.where(rng.uniform(size=len(lo)) < 0.5, lo, hi)])
    return X


def alpha_weights(n, rng):
    a = rng.normal(size=n) * np.exp(rng.uniform(-1.0, 1.0, n))
    if n > 1 and np.ptp(a) < 1e-3:
        a[0] += 1.0
    return a


def index_form(idx):
    """structural class of an index spec: decides which branch of the evaluator's index extraction runs"""
    if idx is None:
        return "plain"
    if idx["k"] != "slice":
        return "sequence"
    a, b, c = idx["v"]
    if a is None:
        return "slice[start=None]"
    if b is None:
        return "slice[stop=None,step>1]" if (c is not None and c > 1) else "slice[stop=None]"
    return "slice[step>1]" if (c is not None and c > 1) else "slice"


def _lsq(ls):
    """length scales to the nearest power of two: the part of them that enters the distinctness key"""
    return [int(round(float(np.log2(v)))) for v in ls]


def reference(kernel, X, Xc, alpha):
    k, dk = kernel.k_and_deriv(X, Xc)
    return k.dot(alpha), np.einsum("gcn,c->gn", dk, alpha)


# =================================================================================================
# 1. C squared-exponential evaluator

@st.composite
def st_c_rbf(draw):
    n1 = draw(st.integers(1, 6))
    idx = None
    if draw(st.integers(0, 4)) > 0:
        if draw(st.integers(0, 2)) == 0:
            # an index that selects every feature in order: the only subset form the evaluator interface supports
            idx = draw(st.sampled_from([{"k": "slice", "v": [0, None, None]}, {"k": "slice", "v": [0, n1, 1]},
                                        {"k": "slice", "v": [0, n1, None]}, {"k": "list", "v": list(range(n1))},
                                        {"k": "slice", "v": [None, None, None]}, {"k": "slice", "v": [None, n1, None]}]))
        else:
            idx = draw(G.st_index(n1, kinds=("list", "slice")))  # get_rbf_kernel indexes a numpy vector: no tuples
    return {"n1": n1, "idx": idx, "ls": [draw(G.logfloat(0.15, 8.0)) for _ in range(n1)],
            "scale": draw(st.one_of(st.none(), G.logfloat(0.05, 20.0))),
            "via": draw(st.sampled_from(["tools", "tools_opt", "direct"])),
            "nctrl": draw(st.integers(1, 40)), "n": draw(st.integers(1, 30)), "order_f": draw(st.booleans()),
            "seed": draw(SEED)}


def build_rbf_kernel(case):
    from ciderpress.models import kernels as K
    from ciderpress.models.kernel_plans import kernel_tools as kt

    ls = np.array(case["ls"])
    idx = case["idx"]
    if idx is None:
        base = K.DiffRBF(length_scale=ls)
        return base if case["scale"] is None else K.DiffConstantKernel(case["scale"]) * base
    index = G.mk_index(idx)
    if case["via"].startswith("tools"):
        return kt.get_rbf_kernel(index, ls, scale=1.0 if case["scale"] is None else case["scale"],
                                 opt_hparams=case["via"] == "tools_opt")
    sub = K.SubsetRBF(index, length_scale=ls[index], length_scale_bounds="fixed")
    return sub if case["scale"] is None else K.DiffConstantKernel(case["scale"], constant_value_bounds="fixed") * sub


@subcheck("C11", "c_rbf", st_c_rbf, quick=2500, thorough=40000,
          rule="RBFEvaluator over DiffRBF, Constant*DiffRBF, SubsetRBF and kernel_tools.get_rbf_kernel(indexes, ...) with "
               "indexes as list/tuple or slice (start/stop/step incl. None and step 2,3), 1-6 features, 1-40 control points, "
               "weights of mixed size; reference f = k(x, X1ctrl).alpha and gradient from the Python kernel; oracles: the "
               "constructor accepts every kernel the Python side accepts, the extracted index set equals numpy's meaning of "
               "`indexes`, value and gradient agree to 1e-12 * sum|alpha*scale| (gradient / min l) through the FuncEvaluator "
               "interface (X1 with all features, res/dres of full shape, accumulation into passed arrays); for a proper "
               "subset the same through the only memory-safe call (control points restricted by the caller) plus the "
               "interface requirement; non-trivial = l != 1 somewhere, >= 2 active features, alpha not all equal",
          tolerances={"value_rtol": 1e-12, "grad_rtol": 1e-12},
          assumptions=["RBFEvaluator private fields _indexes/_X1ctrl are read (when present) to avoid calling the C routine with inconsistent strides"])
def c_rbf(case, ctx):
    from ciderpress.dft.xc_evaluator import RBFEvaluator

    n1, idx = case["n1"], case["idx"]
    form = index_form(idx)
    cols = list(range(n1)) if idx is None else G.resolve(idx, n1)
    proper = cols != list(range(n1))
    ctx.event("form=" + form)
    ctx.event("proper_subset" if proper else "all_features")
    rng = rng_from(case["seed"])
    kernel = G.guard(ctx, ("kernel_constructor", form), lambda: build_rbf_kernel(case), always=True)
    Xc = rng.uniform(-1.5, 1.5, (case["nctrl"], n1))
    X = rng.uniform(-1.5, 1.5, (case["n"], n1))
    if case["nctrl"] > 1:
        X[0] = Xc[0]  # evaluation at a control point
    alpha = alpha_weights(case["nctrl"], rng)
    f_ref, g_ref = reference(kernel, X, Xc, alpha)
    scale = 1.0 if case["scale"] is None else case["scale"]
    S = float(np.sum(np.abs(alpha))) * scale
    Sg = S / float(np.min(np.array(case["ls"])[cols]))
    if len(cols) >= 2 and case["nctrl"] >= 2:
        ctx.nontrivial([form, proper, n1, cols, case["scale"] is None, case["via"], _lsq(case["ls"])])
    # memory layout of the control points handed to the constructor: C order, Fortran order (what
    # DFTKernel.set_control_points(reduce=True) stores), or a strided view; the values are the same
    layout = ["C", "F", "strided"][(case["seed"] // 7) % 3]
    ctx.event("ctrl_layout=" + layout)
    if layout == "F":
        Xc_in = np.asfortranarray(Xc)
    elif layout == "strided":
        wide = np.zeros((case["nctrl"], 2 * n1))
        wide[:, ::2] = Xc
        Xc_in = wide[:, ::2]
    else:
        Xc_in = Xc
    ev = G.guard(ctx, ("evaluator_constructor", form), lambda: RBFEvaluator(kernel, Xc_in, alpha), always=True)
    got_idx = getattr(ev, "_indexes", None)
    stride_ok = True
    if got_idx is not None:
        got_idx = [int(i) for i in np.asarray(got_idx).ravel()]
        ctx.check(got_idx == cols, ("index_extraction", form), got=got_idx, want=cols, indexes=str(idx))
        # the C routine is called with the width of the stored control points as the row stride of the indexed X1
        stride_ok = getattr(ev, "_X1ctrl", None) is None or np.shape(ev._X1ctrl)[-1] == len(cols)
    if not stride_ok:
        # Unsafe to call (out-of-bounds reads and writes).  What can work at all: the caller restricts the control
        # points himself; judge that, then report the interface defect.
        ev2 = G.guard(ctx, ("evaluator_constructor", form), lambda: RBFEvaluator(kernel, np.ascontiguousarray(Xc[:, cols]), alpha),
                      always=True)
        ctx.check([int(i) for i in ev2._indexes] == cols and np.shape(ev2._X1ctrl)[-1] == len(cols), ("index_extraction", form))
        f, g = G.guard(ctx, ("call", form), lambda: ev2(X), always=True)
        ctx.close(f, f_ref, ("value_restricted_ctrl", form), rtol=1e-12, scale=S)
        ctx.check(g.shape == (len(X), len(cols)), ("gradient_shape", form), got=g.shape)
        ctx.close(g, g_ref[:, cols], ("gradient_restricted_ctrl", form), rtol=1e-12, scale=Sg)
        ctx.check(False, ("proper_subset_unusable", "control_points_not_restricted"),
                  stride_used=int(np.shape(ev._X1ctrl)[-1]), subset_width=len(cols), form=form)
    # the evaluator interface: same (kernel, X1ctrl, alpha) as KernelEvaluator, full-width X1, res and dres
    Xin = np.asfortranarray(X) if case["order_f"] else X
    f, g = G.guard(ctx, ("call", form), lambda: ev(Xin), always=True)
    ctx.close(f, f_ref, ("value", form), rtol=1e-12, scale=S)
    ctx.check(g.shape == X.shape, ("gradient_shape", form), got=g.shape, want=X.shape)
    ctx.close(g, g_ref, ("gradient", form), rtol=1e-12, scale=Sg)
    res0, dres0 = rng.normal(size=len(X)), rng.normal(size=X.shape)
    res, dres = res0.copy(), dres0.copy()
    G.guard(ctx, ("call_accumulate", form), lambda: ev(X, res, dres), always=True)
    ctx.close(res, res0 + f_ref, ("accumulate_value", form), rtol=1e-12, scale=S + 4.0)
    ctx.close(dres, dres0 + g_ref, ("accumulate_gradient", form), rtol=1e-12, scale=Sg + 4.0)


# =================================================================================================
# 2. antisymmetric evaluator

@st.composite
def st_c_antisym(draw):
    n1 = draw(st.integers(3, 6))
    return {"n1": n1, "ls": [draw(G.logfloat(0.2, 8.0)) for _ in range(n1)],
            "scale": draw(st.one_of(st.none(), G.logfloat(0.05, 20.0))),
            "via": draw(st.sampled_from(["tools", "tools_opt", "direct"])), "nctrl": draw(st.integers(1, 30)),
            "n": draw(st.integers(1, 12)), "dim3": draw(st.booleans()), "seed": draw(SEED)}


@subcheck("C11", "c_antisym", st_c_antisym, quick=700, thorough=10000,
          rule="AntisymRBFEvaluator over kernel_tools.get_antisym_rbf_kernel (and Constant*DiffAntisymRBF, DiffAntisymRBF), "
               "3-6 features, 1-30 control points; reference value from the Python kernel's __call__; the C gradient is "
               "compared with the two-step finite difference of the Python value (DiffAntisymRBF.k_and_deriv cannot run, "
               "see C15); 2-D and (1,n,N1) inputs, accumulation into passed arrays; non-trivial = x0 != x1 for some row",
          tolerances={"value_rtol": 1e-12, "fd_rtol": 1e-6})
def c_antisym(case, ctx):
    from ciderpress.dft.xc_evaluator import AntisymRBFEvaluator
    from ciderpress.models import kernels as K
    from ciderpress.models.kernel_plans import kernel_tools as kt

    n1 = case["n1"]
    ls = np.array(case["ls"])
    rng = rng_from(case["seed"])
    sc = 1.0 if case["scale"] is None else case["scale"]
    if case["via"].startswith("tools"):
        kernel = kt.get_antisym_rbf_kernel(ls, scale=sc, opt_hparams=case["via"] == "tools_opt")
    else:
        base = K.DiffAntisymRBF(length_scale=np.append(0.5 * (ls[0] + ls[1]), ls[2:]), length_scale_bounds="fixed")
        kernel = base if case["scale"] is None else K.DiffConstantKernel(sc, constant_value_bounds="fixed") * base
    cls = "product" if hasattr(kernel, "k1") else "bare"
    ctx.event("class=" + cls)
    Xc = rng.uniform(-1.5, 1.5, (case["nctrl"], n1))
    X = rng.uniform(-1.5, 1.5, (case["n"], n1))
    alpha = alpha_weights(case["nctrl"], rng)
    ctx.nontrivial([n1, cls, case["dim3"], min(case["nctrl"], 3), _lsq(case["ls"])])
    f_ref = kernel(X, Xc).dot(alpha)
    S = 2.0 * float(np.sum(np.abs(alpha))) * sc
    ev = G.guard(ctx, ("evaluator_constructor", cls), lambda: AntisymRBFEvaluator(kernel, Xc, alpha), always=True)
    if case["dim3"]:
        res, dres = np.zeros(len(X)), np.zeros((1,) + X.shape)
        G.guard(ctx, ("call", cls, "3d"), lambda: ev(X[None], res, dres), always=True)
        f, g = res, dres[0]
    else:
        f, g = G.guard(ctx, ("call", cls, "2d"), lambda: ev(X), always=True)
    ctx.close(f, f_ref, ("value", cls), rtol=1e-12, scale=S)
    gmax = float(np.max(np.abs(g)))
    for j in range(n1):
        def fj(step, j=j):
            Xp = X.copy()
            Xp[:, j] = X[:, j] + step
            return kernel(Xp, Xc).dot(alpha)

        fd_check_vec(ctx, fj, g[:, j], ("gradient_fd", cls, "x01" if j < 2 else "rest"), 1e-4 * np.ones(len(X)),
                     rtol=1e-6, atol=1e-12 * gmax + 1e-200, feature=j)
    res0, dres0 = rng.normal(size=len(X)), rng.normal(size=X.shape)
    res, dres = res0.copy(), dres0.copy()
    G.guard(ctx, ("call_accumulate", cls), lambda: ev(X, res, dres), always=True)
    ctx.close(res, res0 + f, ("accumulate_value", cls), rtol=1e-12, scale=S + 4.0)
    ctx.close(dres, dres0 + g, ("accumulate_gradient", cls), rtol=1e-12, scale=gmax + 4.0)
    # (1, n, N1) input with the optional output arrays left out
    out = G.guard(ctx, ("call_default_outputs", cls, "3d"), lambda: ev(X[None]), always=True)
    ctx.check(isinstance(out, (tuple, list)) and len(out) == 2 and np.shape(out[0]) == (len(X),) and np.shape(out[1]) == (1,) + X.shape,
              ("res_default", "shape", cls), got=[list(np.shape(o)) for o in out] if isinstance(out, tuple) else repr(type(out)))
    ctx.close(out[0], f, ("res_default", "value", cls), rtol=1e-12, scale=S)
    ctx.close(out[1][0], g, ("res_default", "gradient", cls), rtol=1e-12, scale=gmax + 1e-300)


# =================================================================================================
# 3. spin-polarised product evaluator

@st.composite
def st_c_spin(draw):
    n1 = draw(st.integers(1, 5))
    return {"n1": n1, "ls": [draw(G.logfloat(0.15, 8.0)) for _ in range(n1)],
            "scale": draw(st.one_of(st.none(), G.logfloat(0.05, 20.0))),
            "form": draw(st.sampled_from(["plain", "slice_all", "tools", "subset_list", "subset_prefix"])), "nctrl": draw(st.integers(1, 30)),
            "n": draw(st.integers(1, 12)), "equal_spins": draw(st.integers(0, 4)) == 0, "seed": draw(SEED)}


@subcheck("C11", "c_spin", st_c_spin, quick=800, thorough=12000,
          rule="SpinRBFEvaluator (POL mode kernel k_aa k_bb + k_ab k_ba) over DiffRBF / Constant*DiffRBF / "
               "get_rbf_kernel(slice(0,None)) / SubsetRBF on a proper subset of the columns (index list or leading block), control points (2,nctrl,N1), samples (2,n,N1) incl. equal spin channels; "
               "reference from the Python kernel's k_and_deriv with the product rule; value and both spin gradients to "
               "1e-12 * sum|alpha| scale^2; res/dres passed as MappedDFTKernel passes them, accumulation; "
               "non-trivial = spin channels differ",
          tolerances={"value_rtol": 1e-12})
def c_spin(case, ctx):
    from ciderpress.dft.xc_evaluator import SpinRBFEvaluator
    from ciderpress.models import kernels as K
    from ciderpress.models.kernel_plans import kernel_tools as kt

    n1 = case["n1"]
    ls = np.array(case["ls"])
    sc = 1.0 if case["scale"] is None else case["scale"]
    rng = rng_from(case["seed"])
    if case["form"] in ("subset_list", "subset_prefix"):
        # the kernel acts on a proper subset of the columns (scattered list, or a leading block narrower than the
        # descriptor); control points and samples keep the full width, as MappedDFTKernel hands them over
        if n1 == 1:
            idx = [0]
        elif case["form"] == "subset_prefix":
            idx = list(range(1 + case["seed"] % (n1 - 1)))
        else:
            idx = sorted(rng_from(case["seed"] + 5).choice(n1, 1 + case["seed"] % (n1 - 1), replace=False).tolist())
        sel = idx if case["form"] == "subset_list" else slice(0, len(idx))
        base = K.SubsetRBF(sel, length_scale=ls[idx])
        kernel = base if case["scale"] is None else K.DiffConstantKernel(sc) * base
        ls = ls[idx]
    elif case["form"] == "tools":
        kernel = kt.get_rbf_kernel(slice(0, None), ls, scale=sc)
    else:
        base = K.DiffRBF(length_scale=ls) if case["form"] == "plain" else K.SubsetRBF(slice(0, n1, 1), length_scale=ls)
        kernel = base if case["scale"] is None else K.DiffConstantKernel(sc) * base
    cls = case["form"] + ("*const" if hasattr(kernel, "k1") else "")
    ctx.event("class=" + cls)
    Xc = rng.uniform(-1.5, 1.5, (2, case["nctrl"], n1))
    X = rng.uniform(-1.5, 1.5, (2, case["n"], n1))
    if case["equal_spins"]:
        X[1] = X[0]
    else:
        ctx.nontrivial([cls, n1, min(case["nctrl"], 3), _lsq(case["ls"])])
    alpha = alpha_weights(case["nctrl"], rng)
    scal = sc if hasattr(kernel, "k1") else 1.0
    S = 2.0 * float(np.sum(np.abs(alpha))) * scal**2
    Sg = S / float(np.min(ls))
    kaa, daa = kernel.k_and_deriv(X[0], Xc[0])
    kbb, dbb = kernel.k_and_deriv(X[1], Xc[1])
    kab, dab = kernel.k_and_deriv(X[0], Xc[1])
    kba, dba = kernel.k_and_deriv(X[1], Xc[0])
    f_ref = (kaa * kbb + kab * kba).dot(alpha)
    ga = np.einsum("gcn,c->gn", daa * kbb[..., None] + dab * kba[..., None], alpha)
    gb = np.einsum("gcn,c->gn", dbb * kaa[..., None] + dba * kab[..., None], alpha)
    ev = G.guard(ctx, ("evaluator_constructor", cls), lambda: SpinRBFEvaluator(kernel, Xc, alpha), always=True)
    res0, dres0 = rng.normal(size=case["n"]), rng.normal(size=X.shape)
    res, dres = res0.copy(), dres0.copy()
    G.guard(ctx, ("call", cls), lambda: ev(X, res, dres), always=True)
    ctx.close(res - res0, f_ref, ("value", cls), rtol=1e-12, scale=S + 4.0)
    ctx.close(dres[0] - dres0[0], ga, ("gradient_a", cls), rtol=1e-12, scale=Sg + 4.0)
    ctx.close(dres[1] - dres0[1], gb, ("gradient_b", cls), rtol=1e-12, scale=Sg + 4.0)
    # the same call with the optional output arrays left out (allocated by the evaluator)
    out = G.guard(ctx, ("call_default_outputs", cls), lambda: ev(X), always=True)
    ctx.check(isinstance(out, (tuple, list)) and len(out) == 2 and np.shape(out[0]) == (case["n"],) and np.shape(out[1]) == X.shape,
              ("res_default", "shape", cls), got=[list(np.shape(o)) for o in out] if isinstance(out, tuple) else repr(type(out)))
    ctx.close(out[0], f_ref, ("res_default", "value", cls), rtol=1e-12, scale=S + 4.0)
    ctx.close(out[1][0], ga, ("res_default", "gradient_a", cls), rtol=1e-12, scale=Sg + 4.0)
    ctx.close(out[1][1], gb, ("res_default", "gradient_b", cls), rtol=1e-12, scale=Sg + 4.0)


# =================================================================================================
# 4. KernelEvaluator (pure Python path of the same interface)

@st.composite
def st_py_eval(draw):
    n1 = draw(st.integers(2, 5))
    spec = draw(G.st_tree(n1, depth=2, leaves=["RBF", "Const", "Poly", "ARBF", "ARBFV2", "AddRQ", "AddLLRBF", "Subset", "SpinSym", "Linear"],
                          max_order=3, min_order=1))
    return {"n1": n1, "kernel": spec, "nctrl": draw(st.integers(1, 12)),
            "n": draw(st.sampled_from([1, 3, 7, 20, 1999, 2000, 2001, 4003])), "seed": draw(SEED)}


@subcheck("C11", "py_kernel_eval", st_py_eval, quick=300, thorough=3000,
          rule="KernelEvaluator over drawn kernel expressions (classes with a working k_and_deriv), sample counts on both "
               "sides of its internal block size of 2000; f and gradient equal the one-shot k(X, X1ctrl).alpha at 1e-12, "
               "accumulation into passed arrays; non-trivial = more than one block or a composite kernel",
          tolerances={"rtol": 1e-12})
def py_kernel_eval(case, ctx):
    from ciderpress.dft.xc_evaluator import KernelEvaluator

    n1 = case["n1"]
    rng = rng_from(case["seed"])
    kernel = G.build(case["kernel"])
    Xc = rng.uniform(-1.5, 1.5, (case["nctrl"], n1))
    X = rng.uniform(-1.5, 1.5, (case["n"], n1))
    alpha = alpha_weights(case["nctrl"], rng)
    f_ref, g_ref = reference(kernel, X, Xc, alpha)
    if not (np.all(np.isfinite(f_ref)) and np.all(np.isfinite(g_ref))):
        raise Skip()
    ctx.event("blocks=%d" % ((case["n"] + 1999) // 2000))
    if case["n"] > 2000 or G.children(case["kernel"]):
        ctx.nontrivial([G.describe(case["kernel"]), case["n"]])
    ev = KernelEvaluator(kernel, Xc, alpha)
    f, g = G.guard(ctx, ("call",), lambda: ev(X), always=True)
    S = max(float(np.max(np.abs(f_ref))), 1e-300)
    Sg = max(float(np.max(np.abs(g_ref))), 1e-300)
    ctx.close(f, f_ref, ("value",), rtol=1e-12, scale=S)
    ctx.close(g, g_ref, ("gradient",), rtol=1e-12, scale=Sg)
    res0, dres0 = rng.normal(size=len(X)), rng.normal(size=X.shape)
    res, dres = res0.copy(), dres0.copy()
    ev(X, res, dres)
    ctx.close(res, res0 + f_ref, ("accumulate_value",), rtol=1e-12, scale=S + 4.0)
    ctx.close(dres, dres0 + g_ref, ("accumulate_gradient",), rtol=1e-12, scale=Sg + 4.0)


# =================================================================================================
# 5./6. spline-mapped evaluators

DENSITIES = (4, 8, 16)
# range/length-scale ratio allowed per dimension of the largest spline term (keeps the finest grid small)
RMAX = {1: 6.0, 2: 4.0, 3: 2.0, 4: 1.2}


@st.composite
def st_lengths(draw, maps, dmax):
    lo, hi = G.feature_bounds(maps)
    return [float((h - l) / draw(G.logfloat(0.4, RMAX[dmax]))) for l, h in zip(lo, hi)]


def spline_errors(ctx, case, kernel, mapper, Xc, alpha, lo, hi, S, Sg, cls, expect=None):
    """error of the spline-mapped evaluator at the three grid densities, relative to the natural scale"""
    from ciderpress.dft.xc_evaluator import SplineSetEvaluator

    rng = rng_from(case["seed"] + 17)
    X = points_in_bounds(lo, hi, 60, rng, with_corners=True)
    f_ref, g_ref = reference(kernel, X, Xc, alpha)
    errs, gerrs = [], []
    for d in DENSITIES:
        ret = G.guard(ctx, ("mapper", cls), lambda: mapper(d), always=True)
        if expect is not None:
            expect(ret, d)
        ev = G.guard(ctx, ("evaluator_constructor", cls), lambda: SplineSetEvaluator(*ret), always=True)
        f, g = G.guard(ctx, ("call", cls), lambda: ev(X), always=True)
        ctx.finite(f, ("value", cls))
        ctx.finite(g, ("gradient", cls))
        errs.append(float(np.max(np.abs(f - f_ref))) / S)
        gerrs.append(float(np.max(np.abs(g - g_ref))) / Sg)
        if d == DENSITIES[-1]:
            res0, dres0 = rng.normal(size=len(X)), rng.normal(size=X.shape)
            res, dres = res0.copy(), dres0.copy()
            ev(X, res, dres)
            ctx.close(res, res0 + f, ("accumulate_value", cls), rtol=1e-12, scale=float(np.max(np.abs(f))) + 4.0)
            ctx.close(dres, dres0 + g, ("accumulate_gradient", cls), rtol=1e-12, scale=float(np.max(np.abs(g))) + 4.0)
    return errs, gerrs


def judge_spline(ctx, errs, gerrs, cls, tau, taug):
    ctx.measure("e16_over_tau/" + cls, errs[-1] / tau)
    ctx.measure("g16_over_tau/" + cls, gerrs[-1] / taug)
    ctx.check(errs[-1] <= tau, ("spline_error_at_density_16", cls), errors=errs, tau=tau)
    ctx.check(errs[-1] <= 0.5 * errs[0] + 1e-9, ("spline_error_not_decreasing", cls), errors=errs)
    ctx.check(gerrs[-1] <= taug, ("spline_gradient_error_at_density_16", cls), errors=gerrs, tau=taug)
    ctx.check(gerrs[-1] <= 0.5 * gerrs[0] + 1e-7, ("spline_gradient_error_not_decreasing", cls), errors=gerrs)


@st.composite
def st_spline_simple(draw, ndim=None):
    n1 = draw(st.integers(1, 5))
    if ndim is None:
        idx = draw(G.st_index(n1, kinds=("list", "slice"))) if draw(st.integers(0, 3)) else None
        cols = list(range(n1)) if idx is None else G.resolve(idx, n1)
        if len(cols) > 3:
            idx = {"k": "list", "v": cols[:3]}
            cols = cols[:3]
    else:
        n1 = draw(st.integers(ndim, 5))
        idx = draw(G.st_index(n1, size=ndim, kinds=("list",)))
        cols = idx["v"]
    maps = draw(st_bounded_maps(n1))
    return {"n1": n1, "idx": idx, "maps": maps, "ls": draw(st_lengths(maps, len(cols))),
            "scale": draw(G.logfloat(0.05, 20.0)), "opt": draw(st.booleans()), "nctrl": draw(st.integers(3, 40)),
            "seed": draw(SEED)}


TAU_SIMPLE = (2e-3, 1e-1)


def _spline_simple(case, ctx):
    from ciderpress.models import kernels as K
    from ciderpress.models.kernel_plans import kernel_tools as kt
    from ciderpress.models.kernel_plans import map_tools as mt

    n1, idx = case["n1"], case["idx"]
    cols = list(range(n1)) if idx is None else G.resolve(idx, n1)
    ls = np.array(case["ls"])
    if idx is None:
        kernel = K.DiffConstantKernel(case["scale"]) * K.DiffRBF(length_scale=ls)
    else:
        kernel = kt.get_rbf_kernel(G.mk_index(idx), ls, scale=case["scale"], opt_hparams=case["opt"])
    fl = G.build_featlist(case["maps"])
    lo, hi = G.feature_bounds(case["maps"])
    rng = rng_from(case["seed"])
    Xc = points_in_bounds(lo, hi, case["nctrl"], rng)
    alpha = alpha_weights(case["nctrl"], rng)
    cls = "dim%d/%s" % (len(cols), index_form(idx))
    ctx.event("class=" + cls)
    if len(cols) >= 2:
        ctx.nontrivial([cls, n1, cols, _lsq(case["ls"])])
    S = float(np.sum(np.abs(alpha))) * case["scale"]
    Sg = S / float(np.min(ls[cols]))

    def expect(ret, d):
        scale, ind_sets = ret[0], ret[1]
        ctx.check([int(i) for i in ind_sets[0]] == cols and len(ind_sets) == 1, ("ind_sets", cls), got=str(ind_sets), want=cols)
        ctx.close(np.array(scale, dtype=float), np.array([case["scale"]]), ("scale_list", cls), rtol=1e-15)

    errs, gerrs = spline_errors(ctx, case, kernel,
                                lambda d: mt.get_mapped_gp_evaluator_simple(kernel, Xc, alpha, fl, rbf_density=d),
                                Xc, alpha, lo, hi, S, Sg, cls, expect)
    judge_spline(ctx, errs, gerrs, "dim%d" % len(cols), *TAU_SIMPLE)


_RULE_SPLINE = ("error e(d) = max|f_spline - f_python| / (sum|alpha| * sum of the term scales) on 60 points uniform in the "
                "feature bounds plus the two corners and a mixed corner, at spline densities 4, 8, 16; oracles: e(16) <= tau "
                "(calibrated x5, see tolerances), e(16) <= e(4)/2 + 1e-9, the same for the gradient (scale / min l), index "
                "sets and term scales as documented, accumulation into passed arrays; ")


@subcheck("C11", "spline_simple", lambda: st_spline_simple(), quick=500, thorough=6000,
          rule="get_mapped_gp_evaluator_simple -> SplineSetEvaluator over Constant*DiffRBF and get_rbf_kernel(indexes) with 1-3 "
               "active features out of 1-5 (list/tuple/slice indexes), bounded feature maps U/V/VZ/L(bounds), 3-40 control "
               "points inside the bounds, range/l up to 6/4/2 for 1/2/3 dimensions; " + _RULE_SPLINE +
               "non-trivial = >= 2 active dimensions",
          tolerances={"tau_value": TAU_SIMPLE[0], "tau_gradient": TAU_SIMPLE[1],
                      "calibration": "largest e(16) over VERIF_SEED 1-5 (quick tier, unchanged tree): value 3.4e-4, gradient "
                                     "2.0e-2 (natural-spline end conditions make the error O(h^2) / O(h) at the bounds); x5 margin"})
def spline_simple(case, ctx):
    _spline_simple(case, ctx)


@st.composite
def st_spline_additive(draw, dterm=None):
    """additive kernels as kernel_tools.get_agpr_kernel builds them, plus SubsetAddRQ / SubsetAddLLRBF"""
    kind = draw(st.sampled_from(["arbf", "arbf", "arbf+single", "arbf+single", "addrq", "addllrbf"]))
    if dterm == 4:
        kind = "arbf+single"  # the only 4-dimensional additive term: one single times a triple (orders > 3 are rejected)
    ns = 1 if kind == "arbf+single" else 0
    if dterm is None:
        order = draw(st.integers(0 if kind != "arbf+single" else 0, 3 - ns))
        if ns == 0 and order == 0:
            order = 1  # a constant kernel has no spline term ("Kernel is constant!")
    else:
        order = dterm - ns
    na = draw(st.integers(max(order, 1), 4))
    n1 = draw(st.integers(ns + na, min(ns + na + 1, 6)))
    if draw(st.booleans()) and n1 == ns + na:
        # contiguous blocks as in arbf_exchange.get_kernel: singles first, the rest additive
        sidx = {"k": "slice", "v": [0, ns, None]} if ns else None
        aidx = {"k": "slice", "v": [ns, None, None]}
    else:
        perm = [int(i) for i in draw(st.permutations(list(range(n1))))]
        sidx = {"k": "list", "v": perm[:ns]} if ns else None
        aidx = {"k": "list", "v": sorted(perm[ns: ns + na]) if draw(st.booleans()) else perm[ns: ns + na]}
    maps = draw(st_bounded_maps(n1))
    nctrl = draw(st.integers(3, 40))
    if order + ns == 3 and dterm is None and draw(st.sampled_from(range(4))) == 0:
        # the 3-index projection accumulates the control points in batches of 200 (map_tools.project_kernel_onto_grid):
        # control sets that need more than one batch
        nctrl = draw(st.sampled_from([201, 260, 401]))
    return {"kind": kind, "n1": n1, "order": order, "sidx": sidx, "aidx": aidx, "maps": maps,
            "ls": draw(st_lengths(maps, max(order + ns, 1))), "scale": [draw(G.logfloat(0.25, 4.0)) for _ in range(order + 1)],
            "alpha_rq": draw(G.logfloat(0.5, 5.0)), "opt": draw(st.booleans()), "nctrl": nctrl,
            "seed": draw(SEED)}


def build_additive(case):
    from ciderpress.models import kernels as K
    from ciderpress.models.kernel_plans import kernel_tools as kt

    ls = np.array(case["ls"])
    a = G.mk_index(case["aidx"])
    if case["kind"] in ("arbf", "arbf+single"):
        s = G.mk_index(case["sidx"]) if case["sidx"] is not None else slice(0, 0)
        return kt.get_agpr_kernel(s, a, ls, scale=list(case["scale"]), order=case["order"],
                                  nsingle=1 if case["kind"] == "arbf+single" else 0, opt_hparams=case["opt"])
    cls = K.SubsetAddRQ if case["kind"] == "addrq" else K.SubsetAddLLRBF
    return cls(a, order=case["order"], alpha=case["alpha_rq"], length_scale=ls[a], scale=list(case["scale"]),
               length_scale_bounds="fixed", scale_bounds="fixed")


TAU_ADD = {"arbf": (2e-3, 1e-1), "arbf+single": (2e-3, 1e-1), "addrq": (2e-3, 1e-1), "addllrbf": (2e-3, 1e-1)}


def _spline_additive(case, ctx):
    from itertools import combinations

    from ciderpress.models.kernel_plans import map_tools as mt

    n1, order, kind = case["n1"], case["order"], case["kind"]
    acols = G.resolve(case["aidx"], n1)
    scols = G.resolve(case["sidx"], n1) if case["sidx"] is not None else []
    kernel = G.guard(ctx, ("kernel_constructor", kind), lambda: build_additive(case), always=True)
    ref_kernel = kernel
    if order == 0:
        # single x order-0 ARBF is scale_0 * RBF(singles); the order-0 ARBF object itself returns python scalars
        # (C15), so the reference is written as the equivalent constant-times-RBF kernel
        from ciderpress.models import kernels as K

        sind = G.mk_index(case["sidx"])
        ref_kernel = K.DiffConstantKernel(case["scale"][0]) * K.SubsetRBF(sind, length_scale=np.array(case["ls"])[sind])
    fl = G.build_featlist(case["maps"])
    lo, hi = G.feature_bounds(case["maps"])
    rng = rng_from(case["seed"])
    Xc = points_in_bounds(lo, hi, case["nctrl"], rng)
    alpha = alpha_weights(case["nctrl"], rng)
    ls = np.array(case["ls"])
    nd = len(acols)
    cls = "%s/order%d" % (kind, order)
    ctx.event("class=%s/na=%d" % (cls, nd))
    if case["nctrl"] > 200:
        ctx.event("nctrl>200(3-index batches)")
    ctx.event("index=" + case["aidx"]["k"])
    if order >= 2 or (order >= 1 and nd >= 2):
        ctx.nontrivial([cls, n1, acols, scols, _lsq(case["ls"])])
    amp = 1.0
    if kind == "addllrbf":
        amp = float(np.max(1.0 + np.maximum(np.abs(lo), np.abs(hi))[acols] ** 2 / (case["alpha_rq"] * ls[acols] ** 2)))
    from math import comb

    terms = sum(case["scale"][n] * comb(nd, n) * amp**n for n in range(order + 1))
    S = float(np.sum(np.abs(alpha))) * terms
    Sg = S / float(np.min(ls[acols + scols]))
    want_sets = []
    want_scale = []
    for o in range(order + 1):
        for c in combinations(acols, o):
            if scols or c:
                want_sets.append(scols + list(c))
                want_scale.append(case["scale"][o])

    def expect(ret, d):
        ctx.check(len(ret) == (4 if scols else 5), ("return_arity", cls), got=len(ret))
        got_sets = [[int(i) for i in s] for s in ret[1]]
        ctx.check(got_sets == want_sets, ("ind_sets", cls), got=got_sets, want=want_sets)
        ctx.close(np.array(ret[0], dtype=float), np.array(want_scale, dtype=float), ("scale_list", cls), rtol=1e-15)
        if not scols:
            ctx.close(ret[4], case["scale"][0] * float(np.sum(alpha)), ("constant_term", cls), rtol=1e-12,
                      scale=case["scale"][0] * float(np.sum(np.abs(alpha))))

    errs, gerrs = spline_errors(ctx, case, ref_kernel,
                                lambda d: mt.get_mapped_gp_evaluator_additive(kernel, Xc, alpha, fl, srbf_density=d, arbf_density=d),
                                Xc, alpha, lo, hi, S, Sg, cls, expect)
    judge_spline(ctx, errs, gerrs, kind, *TAU_ADD[kind])


@subcheck("C11", "spline_additive", lambda: st_spline_additive(), quick=500, thorough=6000,
          rule="get_mapped_gp_evaluator_additive -> SplineSetEvaluator over kernel_tools.get_agpr_kernel (SubsetARBF orders "
               "1-3, or SubsetRBF single x SubsetARBF orders 0-2; index sets as contiguous slices like arbf_exchange.get_kernel "
               "or as lists in any order) and SubsetAddRQ / SubsetAddLLRBF orders 1-3, term scales within a factor 16 of each "
               "other so that every order matters; reference from the Python kernel; " + _RULE_SPLINE +
               "the additive constant (scale_0 sum alpha) and the per-term scale list against itertools.combinations order; "
               "non-trivial = order >= 2 or >= 2 additive dimensions",
          tolerances={"tau": str(TAU_ADD), "calibration": "largest e(16) over VERIF_SEED 1-5: value 2.6e-4, gradient 1.7e-2; x5 margin"})
def spline_additive(case, ctx):
    _spline_additive(case, ctx)


@st.composite
def st_spline_4d(draw):
    if draw(st.booleans()):
        return {"which": "simple", "case": draw(st_spline_simple(ndim=4))}
    c = draw(st_spline_additive(dterm=4))
    return {"which": "additive", "case": c}


@subcheck("C11", "spline_4d", st_spline_4d, quick=3, thorough=48, max_shards=1,
          rule="the four-dimensional spline terms (simple RBF over 4 features; single x order-3 ARBF): same oracles as "
               "spline_simple / spline_additive.  Kept separate and on one shard because the first call compiles the "
               "4-D numba spline evaluator (about two minutes once per machine, cached in .build/numba_cache)",
          tolerances={"tau": "as spline_simple / spline_additive"})
def spline_4d(case, ctx):
    ctx.event("which=" + case["which"])
    if case["which"] == "simple":
        _spline_simple(case["case"], ctx)
    else:
        _spline_additive(case["case"], ctx)


# =================================================================================================
# 7. linear map

@st.composite
def st_linear(draw):
    n1 = draw(st.integers(1, 6))
    return {"n1": n1, "nctrl": draw(st.one_of(st.just(n1), st.integers(1, 30))),
            "scale": draw(st.one_of(st.none(), G.logfloat(0.05, 20.0))), "n": draw(st.integers(1, 20)), "seed": draw(SEED)}


@subcheck("C11", "linear_map", st_linear, quick=400, thorough=4000,
          rule="get_mapped_gp_evaluator_linear -> GlobalLinearEvaluator over DiffLinearKernel and Constant*DiffLinearKernel, "
               "1-6 features, 1-30 control points (equal to the feature count in a third of the cases); f and gradient "
               "equal k(x, X1ctrl).alpha at 1e-12, accumulation; non-trivial = nctrl != nfeat or nfeat >= 2",
          tolerances={"rtol": 1e-12})
def linear_map(case, ctx):
    from ciderpress.models import kernels as K
    from ciderpress.models.kernel_plans import map_tools as mt

    n1, nc = case["n1"], case["nctrl"]
    rng = rng_from(case["seed"])
    kernel = K.DiffLinearKernel()
    if case["scale"] is not None:
        kernel = K.DiffConstantKernel(case["scale"]) * kernel
    Xc = rng.uniform(-1.5, 1.5, (nc, n1))
    X = rng.uniform(-1.5, 1.5, (case["n"], n1))
    alpha = alpha_weights(nc, rng)
    cls = "nctrl==nfeat" if nc == n1 else "nctrl!=nfeat"
    ctx.event(cls)
    if nc != n1 or n1 >= 2:
        ctx.nontrivial([n1, nc, case["scale"] is None])
    f_ref, g_ref = reference(kernel, X, Xc, alpha)
    ev = G.guard(ctx, ("mapper", cls), lambda: mt.get_mapped_gp_evaluator_linear(kernel, Xc, alpha), always=True)
    f, g = G.guard(ctx, ("call", cls), lambda: ev(X), always=True)
    S = float(np.sum(np.abs(alpha))) * (case["scale"] or 1.0) * 1.5 * 1.5 * n1
    ctx.close(f, f_ref, ("value", cls), rtol=1e-12, scale=S)
    ctx.close(g, g_ref, ("gradient", cls), rtol=1e-12, scale=S)
    res0, dres0 = rng.normal(size=len(X)), rng.normal(size=X.shape)
    res, dres = res0.copy(), dres0.copy()
    ev(X, res, dres)
    ctx.close(res, res0 + f_ref, ("accumulate_value", cls), rtol=1e-12, scale=S + 4.0)
    ctx.close(dres, dres0 + g_ref, ("accumulate_gradient", cls), rtol=1e-12, scale=S + 4.0)


# =================================================================================================
# 8. per-dimension factor used for mapping == factor the kernel itself uses

@st.composite
def st_k0(draw):
    nf = draw(st.integers(1, 5))
    t = draw(st.sampled_from(["ARBFV2", "AddRQ", "AddLLRBF", "SubsetAddRQ", "SubsetAddLLRBF"]))
    return {"t": t, "nf": nf, "ls": [draw(st.one_of(st.just(1.0), G.logfloat(0.15, 8.0))) for _ in range(nf)],
            "alpha": draw(G.logfloat(0.3, 5.0)), "order": draw(st.integers(1, 3)),
            "x": draw(st.lists(st.floats(-2.0, 2.0, width=32), min_size=1, max_size=6)),
            "y": draw(st.lists(st.floats(-2.0, 2.0, width=32), min_size=1, max_size=6)), "seed": draw(SEED)}


@subcheck("C11", "k0_pointwise", st_k0, quick=1500, thorough=20000,
          rule="DiffARBFV2, DiffAddRQ, DiffAddLLRBF and the Subset variants with 1-5 anisotropic length scales (1.0 included "
               "on purpose as the value that hides a misplaced division); for every feature i get_k0_for_mapping(x, y, l_i) "
               "must equal _get_k0_dk0_eval(X, Y)[0][:, :, i] with X[:, i] = x, Y[:, i] = y to 1e-13; "
               "non-trivial = l_i != 1 for the compared feature",
          tolerances={"rtol": 1e-13})
def k0_pointwise(case, ctx):
    from ciderpress.models import kernels as K

    nf, t = case["nf"], case["t"]
    ls = np.array(case["ls"])
    scale = [1.0] * (case["order"] + 1)
    if t == "ARBFV2":
        k = K.DiffARBFV2(order=case["order"], length_scale=ls, scale=scale)
    elif t in ("AddRQ", "AddLLRBF"):
        k = (K.DiffAddRQ if t == "AddRQ" else K.DiffAddLLRBF)(order=case["order"], alpha=case["alpha"], length_scale=ls, scale=scale)
    else:
        k = (K.SubsetAddRQ if t == "SubsetAddRQ" else K.SubsetAddLLRBF)(list(range(nf)), order=case["order"], alpha=case["alpha"],
                                                                         length_scale=ls, scale=scale)
    x, y = np.array(case["x"], dtype=float), np.array(case["y"], dtype=float)
    rng = rng_from(case["seed"])
    X = rng.uniform(-2, 2, (len(x), nf))
    Y = rng.uniform(-2, 2, (len(y), nf))
    ctx.event("class=" + t)
    for i in range(nf):
        X[:, i], Y[:, i] = x, y
        want = G.guard(ctx, ("eval_factor", t), lambda: k._get_k0_dk0_eval(X, Y, False)[0][:, :, i], always=True)
        got = G.guard(ctx, ("mapping_factor", t), lambda: k.get_k0_for_mapping(x, y, ls[i]), always=True)
        if ls[i] != 1.0:
            ctx.nontrivial([t, nf, i, round(float(np.log2(ls[i])), 1)])
        ctx.close(got, want, ("mapping_factor_vs_kernel_factor", t, "l=1" if ls[i] == 1.0 else "l!=1"), rtol=1e-13,
                  scale=max(float(np.max(np.abs(want))), 1.0), feature=i, length_scale=float(ls[i]))


# =================================================================================================
# 9. whole path: DFTKernel.map(plan) -> MappedDFTKernel

@st.composite
def st_whole(draw):
    mode = draw(st.sampled_from(["SEP", "NPOL", "POL"]))
    plan = draw(st.sampled_from(["c_rbf", "c_rbf", "kernel_eval", "spline_exchange"] if mode != "POL" else ["c_spin"]))
    n1 = draw(st.integers(2, 4))
    n0 = n1
    maps = draw(st_bounded_maps(n1))
    for m in maps:
        if m["code"] == "L":
            m["bounds"] = [0.0, 3.2]  # raw features are drawn in (0.05, 3)
    dmax = 3 if plan == "spline_exchange" else 1
    return {"mode": mode, "plan": plan, "n0": n0, "n1": n1, "maps": maps, "ls": draw(st_lengths(maps, dmax)),
            "scale": draw(G.logfloat(0.2, 5.0)), "nspin": draw(st.sampled_from([1, 2])), "nctrl": draw(st.integers(2, 12)),
            "nsamp": draw(st.integers(1, 6)), "mul": draw(st.sampled_from(["ONE", "LDA_X", "GGA_X_PBE"])),
            "add": draw(st.sampled_from(["ZERO", "LDA_X"])), "seed": draw(SEED)}


TAU_WHOLE_SPLINE = 1e-2


@subcheck("C11", "whole_path", st_whole, quick=500, thorough=6000,
          rule="DFTKernel(kernel, feature list of bounded maps, mode, native baselines).map(plan) -> MappedDFTKernel in SEP / "
               "NPOL / POL with nspin 1/2; plans: RBFEvaluator (get_rbf_kernel over all features), SpinRBFEvaluator (POL), "
               "KernelEvaluator, arbf_exchange.get_kernel + arbf_exchange.mapping_plan (splines, density 8); reference "
               "sum_a get_k(X0T)_a alpha_a times the multiplicative baseline plus the additive one, combined as the class "
               "documents (SEP: per spin channel, baseline of that channel / nspin, summed); C/Python plans at 1e-11, spline "
               "plan within the calibrated spline error; derivative wrt every raw feature vs finite differences of the mapped "
               "value itself (C/Python plans); non-trivial = nctrl >= 2 and a density-dependent baseline or nspin = 2",
          tolerances={"rtol_exact": 1e-11, "tau_spline": TAU_WHOLE_SPLINE, "fd_rtol": 1e-6,
                      "calibration": "spline plan at the plan's own density 8: largest error over VERIF_SEED 1-5 is 1.9e-3 of "
                                     "sum|alpha| * sum of term scales * |baseline|; x5 margin"})
def whole_path(case, ctx):
    from ciderpress.dft import baselines
    from ciderpress.dft.xc_evaluator import KernelEvaluator, RBFEvaluator, SpinRBFEvaluator
    from ciderpress.models.dft_kernel import DFTKernel
    from ciderpress.models.kernel_plans import arbf_exchange
    from ciderpress.models.kernel_plans import kernel_tools as kt

    mode, plan, nspin = case["mode"], case["plan"], case["nspin"]
    n0, n1, ns = case["n0"], case["n1"], case["nsamp"]
    rng = rng_from(case["seed"])
    fl = G.build_featlist(case["maps"])
    ls = np.array(case["ls"])
    mulf, addf = baselines.BASELINE_CODES[case["mul"]], baselines.BASELINE_CODES[case["add"]]
    if plan == "spline_exchange":
        kernel = arbf_exchange.get_kernel(natural_scale=case["scale"], natural_lscale=ls, scale_factor=1.0, lscale_factor=1.0)
    else:
        kernel = kt.get_rbf_kernel(slice(0, None), ls, scale=case["scale"])
    dk = DFTKernel(kernel, fl, mode, mulf, addf)
    nsc = 2 if mode == "POL" else 1
    X0c = np.exp(rng.uniform(np.log(0.05), np.log(3.0), (nsc, n0, case["nctrl"])))
    dk.set_control_points([X0c], reduce=False)
    dk.alpha = alpha_weights(dk.X1ctrl.shape[-2], rng)
    ctx.event("mode=%s/plan=%s/nspin=%d" % (mode, plan, nspin))
    ctx.event("baseline=%s+%s" % (case["mul"], case["add"]))
    if case["nctrl"] >= 2 and (case["mul"] != "ONE" or nspin == 2):
        ctx.nontrivial([mode, plan, nspin, case["mul"], case["add"], n1, min(case["nctrl"], 4), case["nsamp"]])
    plans = {"c_rbf": lambda d: RBFEvaluator(d.kernel, d.X1ctrl, d.alpha),
             "c_spin": lambda d: SpinRBFEvaluator(d.kernel, d.X1ctrl, d.alpha),
             "kernel_eval": lambda d: KernelEvaluator(d.kernel, d.X1ctrl, d.alpha),
             "spline_exchange": arbf_exchange.mapping_plan}
    mapped = G.guard(ctx, ("map", mode, plan), lambda: dk.map(plans[plan]), always=True)
    X0T = np.exp(rng.uniform(np.log(0.05), np.log(3.0), (nspin, n0, ns)))
    _whole_compare(case, ctx, dk, mapped, X0T, mulf, addf)


def _whole_compare(case, ctx, dk, mapped, X0T, mulf, addf):
    from math import comb

    mode, plan, nspin = case["mode"], case["plan"], case["nspin"]
    n0, n1, ns = case["n0"], case["n1"], case["nsamp"]

    def ref(x0t):
        kk = dk.get_k(x0t)
        nsp = x0t.shape[0]
        if mode == "SEP":
            out = np.zeros(x0t.shape[2])
            for s in range(nsp):
                f = np.einsum("cg,c->g", kk[:, s], dk.alpha)
                out += f * mulf(x0t[s: s + 1])[0] / nsp + addf(x0t[s: s + 1])[0] / nsp
            return out
        f = np.einsum("cg,c->g", kk, dk.alpha)
        return f * mulf(x0t)[0] + addf(x0t)[0]

    want = ref(X0T)
    res, dres = G.guard(ctx, ("call", mode, plan), lambda: mapped(X0T.copy()), always=True)
    terms = case["scale"] ** (2 if mode == "POL" else 1)
    if plan == "spline_exchange":
        terms = 1e-5 + 1e-5 * (n1 - 1) + case["scale"] * comb(n1 - 1, 2)
    S = float(np.sum(np.abs(dk.alpha))) * terms * max(1.0, float(np.max(np.abs(mulf(X0T)[0])))) \
        + float(np.max(np.abs(addf(X0T)[0]))) + 1e-300
    ctx.check(np.shape(res) == (ns,), ("value_shape", mode, plan), got=np.shape(res))
    ctx.check(np.shape(dres) == X0T.shape, ("gradient_shape", mode, plan), got=np.shape(dres))
    if plan == "spline_exchange":
        err = float(np.max(np.abs(res - want))) / S
        ctx.measure("whole_spline_over_tau", err / TAU_WHOLE_SPLINE)
        ctx.check(err <= TAU_WHOLE_SPLINE, ("value_spline", mode, plan), err=err)
        return
    ctx.close(res, want, ("value", mode, plan), rtol=1e-11, scale=S)
    gmax = float(np.max(np.abs(dres)))
    for s in range(nspin):
        for i in range(n0):
            h = 1e-4 * X0T[s, i]

            def f(step, s=s, i=i):
                xp = X0T.copy()
                xp[s, i] = X0T[s, i] + step
                return mapped(xp)[0]

            fd_check_vec(ctx, f, dres[s, i], ("gradient_fd", mode, plan), h, rtol=1e-6, atol=1e-12 * gmax + 1e-200, spin=s, raw=i)
