"""C18 -- bookkeeping is consistent, bad input is rejected, C calls stay within buffers (DESIGN.md 5-C18).

(a) consistency / sl_rows / fraclapl_rows / generator_rows   (b) rejection / plan_rejection / expnt_guard
(c) asan_plans (variant="asan": the same plan-level calls on the sanitizer build)
"""
import math
import types

import numpy as np
from hypothesis import strategies as st

from cpverif import gen_settings as G
from cpverif.oracles import rng_from
from cpverif.runner import subcheck
from props.c12 import build_normalizer, st_normalizer

# tags of recorded findings whose region the generators step around (counted as excluded_known:<tag> events):
#   "vk1_proc_inds"  version-k theta coefficients with a proc_inds subset (heap overflow in cider_coefs_vk1_*)
#   "fraclapl_ld"    FracLaplPlan ld_dots with nd1 > nk1 (_cache_ld_vectors loops over nk1)
#   "plan_new"       NLDFAuxiliaryPlan.new() re-dividing rhocut / alpha0, dropping spline_size
#   "lenient_counts" negative / oversized counts and unchecked ld_dots accepted by SDMX*/FracLapl constructors
EXCLUDE_KNOWN = set()
CFC_DOC = 0.3 * (3 * math.pi ** 2) ** (2.0 / 3)


# ------------------------------------------------------------------------------------------------
# suite (a): the consistency conditions of the property, usable on any settings object

_last_relation = {"name": None}


def _sig(sig, relation, in_sig):
    _last_relation["name"] = relation
    return sig + (relation,) if in_sig else sig


def suite_a(ctx, obj, sig, expect_nfeat=None, expect_usps=None, relation_in_sig=True, **detail):
    """nfeat == len(get_feat_usps()) == len(ueg_vector()) == len(get_reasonable_normalizer()) (or that method raises
    NotImplementedError); optional doc-derived expectations.  `sig` is the signature prefix."""
    nfeat = obj.nfeat
    detail = dict(detail)
    ctx.check(isinstance(nfeat, (int, np.integer)) and nfeat >= 0, _sig(sig, "nfeat_not_a_count", relation_in_sig), nfeat=repr(nfeat), **detail)
    if expect_nfeat is not None:
        ctx.check(nfeat == expect_nfeat, _sig(sig, "nfeat_vs_doc", relation_in_sig), nfeat=int(nfeat), expected=expect_nfeat, **detail)
    try:
        usps = list(obj.get_feat_usps())
    except NotImplementedError:
        usps = None
        ctx.event("not_implemented:get_feat_usps")
    if usps is not None:
        ctx.check(len(usps) == nfeat, _sig(sig, "len_usps", relation_in_sig), nfeat=int(nfeat), n=len(usps), **detail)
        if expect_usps is not None and len(usps) == len(expect_usps):
            ctx.close(np.asarray(usps, dtype=float), np.asarray(expect_usps, dtype=float), _sig(sig, "usps_vs_doc", relation_in_sig), rtol=0, atol=1e-12)
    try:
        ueg = np.asarray(obj.ueg_vector(), dtype=float)
        ueg2 = np.asarray(obj.ueg_vector(0.37), dtype=float)
    except NotImplementedError:
        ueg = None
        ctx.event("not_implemented:ueg_vector")
    if ueg is not None:
        ctx.check(ueg.shape == (nfeat,) and ueg2.shape == (nfeat,), _sig(sig, "len_ueg_vector", relation_in_sig), nfeat=int(nfeat), shape=ueg.shape, **detail)
    try:
        norms = obj.get_reasonable_normalizer()
    except NotImplementedError:
        norms = None
        ctx.event("not_implemented:get_reasonable_normalizer")
    if norms is not None:
        ctx.check(norms is not None and len(norms) == nfeat, _sig(sig, "len_reasonable_normalizer", relation_in_sig), nfeat=int(nfeat),
                  n=None if norms is None else len(norms), **detail)
    ctx.check(obj.is_empty == (nfeat == 0), _sig(sig, "is_empty", relation_in_sig))
    return nfeat


@st.composite
def st_consistency_case(draw):
    if draw(st.integers(0, 3)) == 0:
        return {"spec": draw(G.st_settings())}
    return {"spec": draw(G.st_feature_settings())}


@subcheck("C18", "consistency", st_consistency_case, quick=2400, thorough=36000,
          rule="every valid settings object from G-settings: 1/4 single settings classes (SemilocalSettings, NLDF VI/VJ/VIJ/VK, "
               "SDMX*, SADM, FracLapl), 3/4 FeatureSettings over all family combinations with default / recommended / drawn "
               "normalisers; oracle: nfeat == len(get_feat_usps()) == len(ueg_vector()) == len(get_reasonable_normalizer()) "
               "(NotImplementedError allowed and counted) == the count and scaling powers derived from the documentation "
               "(gen_settings.spec_nfeat / spec_usps); get_feat_loc == cumulative family counts ending at nfeat; "
               "get_feat_loc_dict agrees; normaliser list length == nfeat; each family's slice of the recommended-normaliser list "
               "equals that family's own recommendation (class and scaling power); non-trivial = >= 2 families present",
          tolerances={})
def consistency(case, ctx):
    G.assert_tables_current()
    spec = case["spec"]
    obj = G.build_settings(spec)
    label = G.class_label(spec)
    ctx.event("class=" + (label if spec["cls"] != "FeatureSettings" else "FeatureSettings"))
    cls = spec["cls"]
    suite_a(ctx, obj, (cls,), expect_nfeat=G.spec_nfeat(spec), expect_usps=G.spec_usps(spec), label=label)
    if cls != "FeatureSettings":
        return
    counts = G.family_counts(spec)
    nfam = sum(c > 0 for c in counts)
    ctx.event("families=%d" % nfam)
    if nfam >= 2:
        ctx.nontrivial([label, spec["normalizers"]["kind"]])
    for fam, sub in (("sl", obj.sl_settings), ("nldf", obj.nldf_settings), ("nlof", obj.nlof_settings), ("sdmx", obj.sdmx_settings)):
        if spec.get(fam) is not None:
            suite_a(ctx, sub, (spec[fam]["cls"],), expect_nfeat=G.spec_nfeat(spec[fam]), expect_usps=G.spec_usps(spec[fam]), label=label)
    loc = np.asarray(obj.get_feat_loc())
    want = np.cumsum([0] + counts + [0])
    ctx.check(loc.shape == want.shape and np.all(loc == want), ("FeatureSettings", "feat_loc"), got=loc.tolist(), want=want.tolist())
    ctx.check(int(loc[-1]) == obj.nfeat, ("FeatureSettings", "feat_loc_end"))
    d = obj.get_feat_loc_dict()
    ctx.check([int(d[k]) for k in ("sl", "nldf", "nlof", "sadm", "hyb", "end")] == want.tolist(), ("FeatureSettings", "feat_loc_dict"),
              got={k: int(v) for k, v in d.items()})
    ctx.check(obj.normalizers.nfeat == obj.nfeat, ("FeatureSettings", "normalizer_list_length"), n=obj.normalizers.nfeat, nfeat=obj.nfeat)
    ctx.check(len(obj.normalizers.get_usps()) == obj.nfeat, ("FeatureSettings", "normalizer_usps_length"))
    ctx.check(len(obj.get_feat_usps(with_normalizers=True)) == obj.nfeat, ("FeatureSettings", "usps_with_normalizers_length"))
    ctx.check((obj.has_sl, obj.has_nldf, obj.has_nlof, obj.has_sdmx) == tuple(c > 0 for c in counts), ("FeatureSettings", "has_flags"))
    # the recommended-normaliser list follows the feature layout: the slice of every family is that family's own list
    try:
        rn = obj.get_reasonable_normalizer()
    except NotImplementedError:
        rn = None
    if rn is not None and len(rn) == obj.nfeat:
        def sig(lst):
            return [None if n is None else (type(n).__name__, round(float(n.get_usp()), 10)) for n in lst]

        for i, (fam, sub) in enumerate((("sl", obj.sl_settings), ("nldf", obj.nldf_settings), ("nlof", obj.nlof_settings),
                                        ("sdmx", obj.sdmx_settings))):
            if spec.get(fam) is None:
                continue
            try:
                own = sub.get_reasonable_normalizer()
            except NotImplementedError:
                continue
            ctx.check(sig(rn[int(loc[i]): int(loc[i + 1])]) == sig(own), ("FeatureSettings", "reasonable_normalizer_family_order", fam),
                      got=sig(rn[int(loc[i]): int(loc[i + 1])]), want=sig(own))


# ------------------------------------------------------------------------------------------------
def physical_rho_data(nspin, ng, seed, with_tau=True):
    """(nspin, 5, ng) density rows with tau >= tau_W (the sound domain of a functional)."""
    rng = rng_from(seed)
    rho = np.exp(rng.uniform(np.log(1e-4), np.log(20), (nspin, ng)))
    g = rng.normal(size=(nspin, 3, ng)) * (rho ** (4.0 / 3))[:, None, :] * rng.uniform(0, 3, (nspin, 1, ng))
    sigma = np.einsum("sxg,sxg->sg", g, g)
    tau = sigma / (8 * rho) + rng.uniform(0, 2, (nspin, ng)) * CFC_DOC * rho ** (5.0 / 3)
    data = np.zeros((nspin, 5, ng))
    data[:, 0], data[:, 1:4], data[:, 4] = rho, g, tau
    return data


@st.composite
def st_sl_rows(draw):
    return {"mode": draw(st.sampled_from(G.SL_MODES)), "nspin": draw(st.sampled_from([1, 2])), "ng": draw(st.integers(1, 9)),
            "seed": draw(st.integers(0, 2 ** 31 - 1))}


@subcheck("C18", "sl_rows", st_sl_rows, quick=300, thorough=6000,
          rule="SemilocalPlan.get_feat / get_occd / get_vxc for the 4 modes x nspin x 1-9 grid points of physical density rows "
               "(tau >= tau_W): the feature block has exactly settings.nfeat rows, nspin channels, is finite; non-trivial always",
          tolerances={})
def sl_rows(case, ctx):
    from ciderpress.dft.plans import SemilocalPlan
    from ciderpress.dft.settings import SemilocalSettings

    s = SemilocalSettings(case["mode"])
    plan = SemilocalPlan(s, case["nspin"])
    data = physical_rho_data(case["nspin"], case["ng"], case["seed"])
    feat = plan.get_feat(data.copy())
    ctx.event("mode=" + case["mode"])
    ctx.nontrivial([case["mode"], case["nspin"], case["ng"]])
    ctx.check(feat.shape == (case["nspin"], s.nfeat, case["ng"]), ("rows", "SemilocalPlan.get_feat"), shape=feat.shape, nfeat=s.nfeat)
    ctx.finite(feat, ("rows", "SemilocalPlan.get_feat"))
    f2, occd = plan.get_occd(data.copy(), physical_rho_data(case["nspin"], case["ng"], case["seed"] + 1))
    ctx.check(f2.shape == feat.shape and occd.shape == feat.shape, ("rows", "SemilocalPlan.get_occd"), shape=occd.shape)
    vxc = plan.get_vxc(data.copy(), np.ones_like(feat))
    ctx.check(vxc.shape == data.shape, ("rows", "SemilocalPlan.get_vxc"), shape=vxc.shape)


# ------------------------------------------------------------------------------------------------
@st.composite
def st_fl_rows(draw):
    return {"fl": draw(G.st_fraclapl()), "nspin": draw(st.sampled_from([1, 2])), "ng": draw(st.integers(1, 5)),
            "seed": draw(st.integers(0, 2 ** 31 - 1))}


@subcheck("C18", "fraclapl_rows", st_fl_rows, quick=600, thorough=12000,
          rule="FracLaplPlan.get_feat on a drawn ingredient block (nspin, 5 + nrho, ng) for every FracLaplSettings count / dot "
               "combination (l1_dots over [-1,nk1), ld_dots over [-1,nd1)); oracle: exactly nfeat rows, and each row equals the "
               "formula documented in the FracLaplSettings docstring (scalar copies, dot products of the l=1 / d vectors "
               "with -1 = density gradient, trailing ndd copies), bitwise for copies and 1e-13 for dot products; "
               "non-trivial = at least one dot feature",
          tolerances={"dot_rtol": 1e-13})
def fraclapl_rows(case, ctx):
    from ciderpress.dft.plans import FracLaplPlan

    spec = case["fl"]
    s = G.build_settings(spec)
    nspin, ng = case["nspin"], case["ng"]
    nk0, nk1, nd1, ndd = spec["nk0"], spec["nk1"], spec["nd1"], spec["ndd"]
    nrho = nk0 + 3 * nk1 + 3 * nd1 + ndd
    ctx.check(s.nrho == nrho, ("nrho_vs_doc",), got=s.nrho, want=nrho)
    rng = rng_from(case["seed"])
    data = rng.normal(size=(nspin, 5 + nrho, ng))
    plan = FracLaplPlan(s, nspin)
    ctx.event("nk1=%d nd1=%d ld_dots=%d" % (nk1, nd1, len(spec["ld_dots"])))
    if spec["l1_dots"] or spec["ld_dots"]:
        ctx.nontrivial([nk0, nk1, nd1, ndd, spec["l1_dots"], spec["ld_dots"], nspin])
    cls = "nd1>nk1" if nd1 > nk1 else ("nd1<nk1" if nd1 < nk1 else "nd1==nk1")
    if cls == "nd1>nk1" and spec["ld_dots"] and "fraclapl_ld" in EXCLUDE_KNOWN:
        ctx.event("excluded_known:fraclapl_ld")
        return
    try:
        feat = plan.get_feat(data.copy())
    except IndexError as e:
        ctx.check(False, ("get_feat_raises", "ld_dots", cls), message=str(e), spec=spec)
    ctx.check(feat.shape == (nspin, s.nfeat, ng), ("rows", "FracLaplPlan.get_feat"), shape=feat.shape, nfeat=s.nfeat)
    fl = data[:, 5:]
    drho = data[:, 1:4]
    row = 0
    for i in range(nk0):
        ctx.equal_bits(feat[:, row], fl[:, i], ("value", "nk0"))
        row += 1

    def vec(j, start):
        return drho if j == -1 else fl[:, start + 3 * j: start + 3 * j + 3]

    for j, k in spec["l1_dots"]:
        want = np.einsum("sxg,sxg->sg", vec(j, nk0), vec(k, nk0))
        ctx.close(feat[:, row], want, ("value", "l1_dots"), rtol=1e-13, scale=float(np.max(np.abs(want))) + 1e-300, pair=[j, k])
        row += 1
    for j, k in spec["ld_dots"]:
        want = np.einsum("sxg,sxg->sg", vec(j, nk0 + 3 * nk1), vec(k, nk0 + 3 * nk1))
        ctx.close(feat[:, row], want, ("value", "ld_dots", cls), rtol=1e-13, scale=float(np.max(np.abs(want))) + 1e-300, pair=[j, k],
                  nk1=nk1, nd1=nd1)
        row += 1
    for i in range(ndd):
        ctx.equal_bits(feat[:, row], fl[:, nk0 + 3 * nk1 + 3 * nd1 + i], ("value", "ndd"))
        row += 1


# ------------------------------------------------------------------------------------------------
_MOL = {}


def _h2():
    if "mol" not in _MOL:
        from pyscf import dft, gto

        mol = gto.M(atom="H 0.03 -0.02 0.0; H 0.11 0.23 0.74", basis="sto-3g", verbose=0)
        ks = dft.RKS(mol)
        dm = ks.get_init_guess()
        grids = dft.gen_grid.Grids(mol)
        grids.level = 0
        grids.build()
        _MOL.update(mol=mol, dm=dm, coords=grids.coords, weights=grids.weights)
    return _MOL


@st.composite
def st_gen_rows(draw):
    fam = draw(st.sampled_from(["nldf", "nldf", "sdmx"]))
    if fam == "nldf":
        spec = draw(G.st_nldf(max_feat=3))
    else:
        spec = draw(G.st_sdmx())
    return {"spec": spec, "npts": draw(st.integers(3, 12)), "seed": draw(st.integers(0, 2 ** 31 - 1))}


@subcheck("C18", "generator_rows", st_gen_rows, quick=160, thorough=3000, budget_s=(80, 1500),
          rule="H2/sto-3g (off-axis geometry), init-guess density matrix, 3-12 points drawn from a level-0 Becke grid; the public "
               "ciderpress.pyscf.descriptors.get_descriptors on a minimal analyzer stand-in drives PyscfNLDFGenerator "
               "(train_gen interpolator, CIDER grid level 3 default) for every NLDF version/level/rho_mult/spec list, "
               "EXXSphGenerator for every SDMX class (the experimental FLNumInt path is left to fraclapl_rows at plan level); "
               "oracle: exactly settings.nfeat rows "
               "(== doc-derived count), finite; an exponent outside the default ladder (RuntimeError, the documented guard) "
               "is counted, not judged; non-trivial always (distinct by settings structure)",
          tolerances={})
def generator_rows(case, ctx):
    from ciderpress.pyscf.descriptors import get_descriptors

    spec = case["spec"]
    s = G.build_settings(spec)
    h2 = _h2()
    rng = rng_from(case["seed"])
    sel = np.sort(rng.choice(h2["coords"].shape[0], size=case["npts"], replace=False))
    from pyscf import dft

    grids = dft.gen_grid.Grids(h2["mol"])
    grids.coords = np.ascontiguousarray(h2["coords"][sel])
    grids.weights = np.ascontiguousarray(h2["weights"][sel])
    grids.non0tab = None
    grids.screen_index = None
    ana = types.SimpleNamespace(mol=h2["mol"], grids=grids, rdm1=h2["dm"], mo_occ=None, mo_energy=None, mo_coeff=None)
    label = G.class_label(spec)
    ctx.event("class=" + label)
    ctx.nontrivial([spec["cls"], spec.get("sl_level"), spec.get("rho_mult"), spec.get("l0_feat_specs"), spec.get("l1_feat_dots"),
                    spec.get("feat_specs"), spec.get("pows"), spec.get("settings"), spec.get("nk0"), spec.get("l1_dots")])
    no_integrals = spec["cls"] == "NLDFSettingsVI" and not spec["l0_feat_specs"] and not spec["l1_feat_specs"]
    try:
        desc = get_descriptors(ana, s)
    except Exception as e:
        if "exponent" in str(e).lower() and "large" in str(e).lower():
            ctx.event("exponent_guard_raised")     # the documented guard, whatever exception type carries it
            return
        if not isinstance(e, ValueError):
            raise
        if no_integrals and "empty collection" in str(e):
            ctx.event("degenerate_settings_rejected:no_convolved_integral")   # only grad(n).grad(n) dots: nothing to convolve
            return
        raise
    ctx.check(desc.shape == (1, s.nfeat, case["npts"]) and s.nfeat == G.spec_nfeat(spec), ("rows", spec["cls"]),
              shape=desc.shape, nfeat=s.nfeat, doc=G.spec_nfeat(spec), label=label)
    ctx.finite(desc, ("rows", spec["cls"]))


# ------------------------------------------------------------------------------------------------
# (b) rejection: typed single mutations of valid constructor arguments

MUST_RAISE = {"bad_string", "unknown_spec", "param_drop", "param_extra", "fparam_drop", "fparam_extra", "param_a0_nonpositive",
              "fparam_a0_nonpositive", "dot_index_high", "dot_index_low"}


def _mut_targets(cls, args):
    """All (kind, path) mutations applicable to this argument list."""
    names = [n for n, _ in args]
    out = []
    for i, (n, v) in enumerate(args):
        if isinstance(v, str):
            out += [("bad_string", i), ("wrong_case", i), ("none_arg", i)]
        if n in ("l0_feat_specs", "l1_feat_specs", "feat_specs", "l0_feat_specs_i", "l1_feat_specs_i", "feat_specs_j"):
            out += [("unknown_spec", i), ("foreign_spec", i), ("spec_not_str", i)]
            if n.startswith("feat_specs"):
                out += [("specs_params_length", i)]
        if n == "theta_params":
            out += [("param_drop", i), ("param_extra", i), ("param_a0_nonpositive", i), ("param_negative_mul", i),
                    ("param_not_list", i), ("param_str_elem", i), ("param_nan", i)]
        if n in ("feat_params", "feat_params_j") and v:
            out += [("fparam_drop", i), ("fparam_extra", i), ("fparam_a0_nonpositive", i), ("fparam_negative_mul", i),
                    ("fparam_not_list", i), ("fparam_str_elem", i), ("fparams_remove_one", i)]
        if n in ("l1_feat_dots", "l1_feat_dots_i", "l1_dots", "ld_dots"):
            out += [("dot_index_high", i), ("dot_index_low", i), ("dot_triple", i), ("dot_scalar", i)]
        if n in ("ndt", "n1", "nd", "nk0", "nk1", "nd1", "ndd"):
            out += [("count_too_large", i), ("count_negative", i)]
        if n == "settings_dict":
            out += [("ratio_below_one", i), ("nums_too_large", i), ("nums_wrong_length", i), ("nums_negative", i)]
        if n == "slist":
            out += [("slist_shorter_than_counts", i)]
    assert names
    return out


def _apply_mutation(cls, args, kind, i, pick):
    """Return mutated copy of args ([[name, value], ...]).  `pick` is a drawn non-negative int used to choose elements."""
    import copy

    a = copy.deepcopy(args)
    n, v = a[i]
    level = dict((k, x) for k, x in a).get("sl_level")

    def setv(x):
        a[i][1] = x

    if kind == "bad_string":
        setv(["se_foo", "MGGAA", "two", "exp", "nsta", "smoothh", ""][pick % 7])
    elif kind == "wrong_case":
        setv(v.upper() if v != v.upper() else v.lower())
    elif kind == "none_arg":
        setv(None)
    elif kind == "unknown_spec":
        setv(list(v) + [["se_foo", "SE", "se_", "se_r4", ""][pick % 5]])
    elif kind == "foreign_spec":
        if n.startswith("l0"):
            foreign = ["se_ar2", "se_a2r4", "se_erf_rinv", "se_grad", "se_rvec"]
        elif n.startswith("l1"):
            foreign = ["se", "se_ap", "se_ar2", "se_lapl"]
        else:
            foreign = ["se_r2", "se_ap", "se_grad", "se_lapl", "se_apr2"]
        setv(list(v) + [foreign[pick % len(foreign)]])
        if n.startswith("feat_specs"):      # keep the lists the same length so that only the spec is wrong
            for j, (nn, vv) in enumerate(a):
                if nn.startswith("feat_params"):
                    a[j][1] = list(vv) + [[1.0, 0.0] + ([0.0] if level == "MGGA" else [])]
    elif kind == "spec_not_str":
        setv(list(v) + [[5, None, 1.5][pick % 3]])
        if n.startswith("feat_specs"):
            for j, (nn, vv) in enumerate(a):
                if nn.startswith("feat_params"):
                    a[j][1] = list(vv) + [[1.0, 0.0] + ([0.0] if level == "MGGA" else [])]
    elif kind == "specs_params_length":
        setv(list(v) + ["se"])
    elif kind in ("param_drop", "fparam_drop", "param_extra", "fparam_extra", "param_a0_nonpositive", "fparam_a0_nonpositive",
                  "param_negative_mul", "fparam_negative_mul", "param_not_list", "fparam_not_list", "param_str_elem",
                  "fparam_str_elem", "param_nan"):
        if kind.startswith("f"):
            j = pick % len(v)
            # the parameter count differs by spec (se_erf_rinv carries one more number): when that spec is present, half of
            # the count mutations go to its parameter set
            specs = dict((k, x) for k, x in a).get("feat_specs_j" if n.endswith("_j") else "feat_specs")
            if kind in ("fparam_drop", "fparam_extra") and specs and "se_erf_rinv" in specs and (pick // 7) % 2 == 0:
                j = list(specs).index("se_erf_rinv")
            p = list(v[j])
        else:
            p = list(v)
        base = kind[1:] if kind.startswith("f") else kind
        if base == "param_drop":
            p = p[:-1]
        elif base == "param_extra":
            p = p + [0.5]
        elif base == "param_a0_nonpositive":
            p[0] = [0.0, -1.0, 0][pick % 3]
        elif base == "param_negative_mul":
            p[1 + (pick % (len(p) - 1))] = -0.01
        elif base == "param_not_list":
            p = [tuple(p), np.array(p), 1.0, None][pick % 4]
        elif base == "param_str_elem":
            p[pick % len(p)] = "1.0"
        elif base == "param_nan":
            p[0] = float("nan")
        if kind.startswith("f"):
            v[j] = p
            setv(v)
        else:
            setv(p)
    elif kind == "fparams_remove_one":
        setv(list(v)[:-1])
    elif kind.startswith("dot_"):
        d = dict((k, x) for k, x in a)
        if n in ("l1_feat_dots", "l1_feat_dots_i"):
            nvec = len(d.get("l1_feat_specs", d.get("l1_feat_specs_i", [])))
        elif n == "l1_dots":
            nvec = d["nk1"]
        else:
            nvec = d["nd1"]
        new = {"dot_index_high": (nvec + (pick % 2), -1), "dot_index_low": (-2, -1), "dot_triple": (-1, -1, -1), "dot_scalar": -1}[kind]
        setv(list(v) + [new])
    elif kind == "count_too_large":
        d = dict((k, x) for k, x in a)
        lim = len(d["pows"]) if "pows" in d else (d["nd1"] if n == "ndd" else len(d["slist"]))
        setv(lim + 1 + pick % 2)
    elif kind == "count_negative":
        setv(-1 - pick % 2)
    elif kind == "count_float":
        setv(float(v) + 0.5)
    elif kind == "pows_str":
        setv(list(v) + ["1"])
    elif kind == "pows_none":
        setv(None)
    elif kind == "slist_shorter_than_counts":
        setv([])
    elif kind == "slist_str":
        setv(list(v) + ["0.5"])
    elif kind in ("ratio_below_one", "nums_too_large", "nums_wrong_length", "ratio_str", "nums_negative"):
        items = [list(it) for it in v]
        j = pick % len(items)
        r, pows, nums = items[j]
        if kind == "ratio_below_one":
            r = [0.5, 0.0, -1.0, 0.999][pick % 4]
        elif kind == "ratio_str":
            r = "1.5"
        elif kind == "nums_too_large":
            nums = list(nums)
            nums[pick % 4] = len(pows) + 1
        elif kind == "nums_negative":
            nums = list(nums)
            nums[pick % 4] = -1
        else:
            nums = list(nums)[:3] if pick % 2 else list(nums) + [0]
        items[j] = [r, pows, nums]
        setv(items)
    else:
        raise AssertionError(kind)
    return a


@st.composite
def st_rejection_case(draw):
    spec = draw(st.one_of(G.st_nldf(), G.st_settings()))     # half of the cases on the NLDF classes (most validation logic)
    cls, args = G.ctor_args(spec)
    targets = _mut_targets(cls, args)
    if not targets:      # SDMXSettings(pows) has no argument with a typed invalid variant
        spec = draw(G.st_sdmx(kinds=["SDMXGSettings", "SDMX1Settings", "SDMXG1Settings", "SDMXFullSettings"]))
        cls, args = G.ctor_args(spec)
        targets = _mut_targets(cls, args)
    counts = [t for t in targets if t[0] in ("param_drop", "param_extra", "fparam_drop", "fparam_extra")]
    if counts and draw(st.sampled_from(range(5))) == 0:
        # parameter-count mutations (the count rule differs per level and per spec) get a fifth of the budget
        kind, i = counts[draw(st.integers(0, len(counts) - 1))]
    else:
        kind, i = targets[draw(st.integers(0, len(targets) - 1))]
    return {"spec": spec, "kind": kind, "arg": i, "pick": draw(st.integers(0, 11))}


@subcheck("C18", "rejection", st_rejection_case, quick=2400, thorough=48000,
          rule="a valid constructor argument list of any settings class (G-settings) with exactly one typed mutation: unknown / "
               "wrong-case / None strings (mode, sl_level, rho_mult, rho_damp), unknown / other-version / non-string spec, "
               "specs-params length mismatch, parameter tuple with an element dropped or added (GGA given 3, MGGA given 2, "
               "se_erf_rinv without its 4th), a0 <= 0 or NaN, negative multiplier, tuple/ndarray/None instead of a list, string "
               "element, index pair out of range / triple / scalar, counts beyond their limit / negative / non-integer, "
               "ratio < 1, per-ratio counts beyond the powers / negative / wrong length (element types of numeric lists are "
               "left alone: duck typing is not part of the claim); oracle: the "
               "constructor raises, or the object passes the consistency suite (a) (counts of nfeat, usps, UEG vector, "
               "recommended normalisers agree; any exception there except NotImplementedError is a failure); "
               "non-trivial = the mutated argument reached the constructor (always); distinct by (class, mutation kind, pick)",
          tolerances={})
def rejection(case, ctx):
    spec, kind = case["spec"], case["kind"]
    cls, args = G.ctor_args(spec)
    targets = _mut_targets(cls, args)
    if (kind, case["arg"]) not in targets:      # shrinking can produce stale pairs
        kind, case_arg = targets[case["arg"] % len(targets)]
    else:
        case_arg = case["arg"]
    margs = _apply_mutation(cls, args, kind, case_arg, case["pick"])
    argname = args[case_arg][0]
    ctx.event("mutation=" + kind)
    ctx.event("class=" + cls)
    ctx.nontrivial([cls, kind, argname, case["pick"] % 4])
    try:
        obj = G.build_from_ctor(cls, margs)
    except Exception as e:
        ctx.event("rejected_with=" + type(e).__name__)
        return
    ctx.event("accepted:" + kind)
    # the mutations the property names one by one (unknown spec / mode strings, wrong parameter counts, non-positive
    # exponents, bad index pairs) must be rejected; for the remaining kinds acceptance is allowed if the object is consistent
    if kind in MUST_RAISE:
        ctx.check(False, ("accepted_invalid", "must_raise", kind, cls), mutated=repr(margs[case_arg])[:200], argument=argname)
    if "lenient_counts" in EXCLUDE_KNOWN and (kind in ("count_negative", "count_too_large", "nums_negative") or argname == "ld_dots"):
        ctx.event("excluded_known:lenient_counts")
        return
    sig = ("accepted_invalid", cls, argname)
    try:
        suite_a(ctx, obj, sig, relation_in_sig=False, mutated=repr(margs[case_arg])[:200], mutation=kind)
    except (NotImplementedError,):
        return
    except Exception as e:
        from cpverif.runner import Violation

        if isinstance(e, Violation):
            raise
        ctx.check(False, sig, relation="crashes_later", error=type(e).__name__, message=str(e)[:200],
                  mutated=repr(margs[case_arg])[:200], mutation=kind)


# ------------------------------------------------------------------------------------------------
PLAN_MUTATIONS = ["lambd_le_1", "alpha0_nonpositive", "nalpha_not_int", "nalpha_nonpositive", "nspin_bad", "rhocut_negative",
                  "expcut_negative", "coef_order_bad", "alpha_formula_bad", "settings_not_nldf", "none", "none", "none", "none"]


@st.composite
def st_plan_args(draw, small=False):
    return {"plan": draw(st.sampled_from(["gaussian", "spline"])), "nspin": draw(st.sampled_from([1, 2])),
            "alpha0": draw(st.floats(math.log(1e-3), math.log(0.5)).map(lambda t: float(math.exp(t)))),
            "lambd": draw(st.sampled_from([1.5, 1.6, 1.8, 2.0, 3.0])),   # denser ladders make the overlap Cholesky fail (LinAlgError)
            "nalpha": draw(st.integers(1, 6) if small else st.integers(2, 24)),
            "coef_order": draw(st.sampled_from(["gq", "qg"])), "alpha_formula": draw(st.sampled_from(["etb", "zexp"])),
            "spline_size": draw(st.sampled_from([None, None, "2x", "plus3", "half"]))}


def build_plan(nldf, pa, **over):
    from ciderpress.dft import plans

    kw = dict(coef_order=pa["coef_order"], alpha_formula=pa["alpha_formula"])
    kw.update(over)
    a = [nldf, pa["nspin"], pa["alpha0"], pa["lambd"], pa["nalpha"]]
    if pa["plan"] == "spline":
        ss = {None: None, "2x": 2 * pa["nalpha"], "plus3": pa["nalpha"] + 3, "half": max(2, pa["nalpha"] // 2)}[pa["spline_size"]]
        if "spline_size" not in kw:
            kw["spline_size"] = ss
        return plans.NLDFSplinePlan(*a, **kw)
    return plans.NLDFGaussianPlan(*a, **kw)


@st.composite
def st_plan_rejection(draw):
    return {"nldf": draw(G.st_nldf(max_feat=2)), "pa": draw(st_plan_args()), "mutation": draw(st.sampled_from(PLAN_MUTATIONS)),
            "pick": draw(st.integers(0, 5))}


@subcheck("C18", "plan_rejection", st_plan_rejection, quick=800, thorough=10000,
          rule="NLDFGaussianPlan / NLDFSplinePlan constructor arguments (nspin, alpha0, lambd, nalpha, coef_order, alpha_formula, "
               "spline_size) with one typed mutation from the property's list: lambd <= 1, alpha0 <= 0, non-integer or "
               "non-positive nalpha, nspin not in {1,2}, negative rhocut/expcut, unknown coef_order / alpha_formula, a non-NLDF "
               "settings object; oracle: the mutated call raises; the unmutated call ('none') succeeds with len(alphas) == "
               "nalpha, increasing alphas and the documented formulas for alphas (etb, zexp), and plan.new() without overrides "
               "reproduces the plan (cutoffs, alphas, spline size); "
               "also FeatNormalizerList array-shape mismatches and ModelWithNormalizer size mismatch raise ValueError",
          tolerances={"alphas_rtol": 1e-13})
def plan_rejection(case, ctx):
    from ciderpress.dft.feat_normalizer import FeatNormalizerList
    from ciderpress.dft.settings import SemilocalSettings
    from ciderpress.dft.xc_evaluator import ModelWithNormalizer

    nldf = G.build_settings(case["nldf"])
    pa = dict(case["pa"])
    mut, pick = case["mutation"], case["pick"]
    ctx.event("mutation=" + mut)
    ctx.nontrivial([mut, pa["plan"], pick % 3, pa["coef_order"], pa["alpha_formula"]])
    over = {}
    settings_obj = nldf
    if mut == "lambd_le_1":
        pa["lambd"] = [1.0, 0.5, 0.0, -2.0, 1][pick % 5]
    elif mut == "alpha0_nonpositive":
        pa["alpha0"] = [0.0, -0.1, 0][pick % 3]
    elif mut == "nalpha_not_int":
        pa["nalpha"] = [4.0, 4.5, "4", None][pick % 4]
        pa["spline_size"] = None
    elif mut == "nalpha_nonpositive":
        pa["nalpha"] = [0, -3][pick % 2]
        pa["spline_size"] = None
    elif mut == "nspin_bad":
        pa["nspin"] = [0, 3, -1, 4][pick % 4]
    elif mut == "rhocut_negative":
        over["rhocut"] = -1e-10
    elif mut == "expcut_negative":
        over["expcut"] = -1e-10
    elif mut == "coef_order_bad":
        over["coef_order"] = ["qq", "GQ", "", None][pick % 4]
    elif mut == "alpha_formula_bad":
        over["alpha_formula"] = ["ETB", "even", "", None][pick % 4]
    elif mut == "settings_not_nldf":
        settings_obj = [SemilocalSettings("npa"), None, "j", case["nldf"]][pick % 4]
    if mut == "none":
        plan = build_plan(nldf, pa)
        ctx.check(len(plan.alphas) == pa["nalpha"] and np.all(np.diff(plan.alphas) > 0), ("valid_plan", "alphas"), alphas=plan.alphas)
        if pa["alpha_formula"] == "etb":
            ctx.close(plan.alphas, pa["alpha0"] * pa["lambd"] ** np.arange(pa["nalpha"]), ("valid_plan", "etb_formula"), rtol=1e-13)
        else:   # documented: alphas[j] = alpha0 * (lambd**j - 1) / (lambd - 1), first entry replaced by expcut
            want = pa["alpha0"] * (pa["lambd"] ** np.arange(pa["nalpha"]) - 1) / (pa["lambd"] - 1)
            ctx.close(plan.alphas[1:], want[1:], ("valid_plan", "zexp_formula"), rtol=1e-13)
        # new() without overrides must describe the same plan (used to derive per-atom plans in the GPAW interface);
        # the relations are judged in an order rotated by the drawn `pick` so that one failing relation cannot hide the others
        if "plan_new" in EXCLUDE_KNOWN:
            ctx.event("excluded_known:plan_new")
        else:
            p2 = plan.new()
            rel = [
                lambda: ctx.check(type(p2) is type(plan) and p2.nspin == plan.nspin and p2.nalpha == plan.nalpha, ("plan_new", "type_or_counts")),
                lambda: ctx.check(p2.rhocut == plan.rhocut and p2.expcut == plan.expcut, ("plan_new", "cutoffs", "nspin%d" % pa["nspin"]),
                                  rhocut=plan.rhocut, new_rhocut=p2.rhocut),
                lambda: ctx.close(p2.alphas, plan.alphas, ("plan_new", "alphas", pa["alpha_formula"]), rtol=1e-14),
                lambda: ctx.check(pa["plan"] != "spline" or p2._spline_size == plan._spline_size, ("plan_new", "spline_size"),
                                  old=getattr(plan, "_spline_size", None), new=getattr(p2, "_spline_size", None)),
            ]
            for k in range(len(rel)):
                rel[(k + pick) % len(rel)]()
    else:
        try:
            plan = build_plan(settings_obj, pa, **over)
        except Exception as e:
            ctx.event("rejected_with=" + type(e).__name__)
        else:
            ctx.check(False, ("plan_accepted", mut), value=repr({"lambd": pa["lambd"], "alpha0": pa["alpha0"], "nalpha": pa["nalpha"],
                                                                  "nspin": pa["nspin"], **{k: repr(v) for k, v in over.items()}}))
    # shape checks in front of the normaliser loops
    nl = FeatNormalizerList([None, None, None, build_normalizer({"kind": "density", "c1": 1.0, "p1": -1.0, "c2": 0, "p2": 0, "a0": 1, "tau_mul": 0, "gga": False})], "npa")
    good = np.ones((1, 4, 3))
    nl.get_normalized_feature_vector(good)
    for bad in (np.ones((1, 5, 3)), np.ones((4, 3)), np.ones((1, 3, 3)), np.ones((1, 1, 4, 3)), np.ones((1, 5, 4)), np.ones((1, 3, 4))):
        try:
            nl.get_normalized_feature_vector(bad)
        except Exception:     # "raise an error": the property does not fix the exception type
            continue
        ctx.check(False, ("normalizer_list_accepts_shape",), shape=bad.shape)
    for bad in (np.ones((1, 5, 3)), np.ones((4, 3)), np.ones((1, 5, 4))):
        try:
            nl.get_derivative_wrt_unnormed_features(bad, bad)
        except Exception:
            continue
        ctx.check(False, ("normalizer_list_accepts_shape", "bwd"), shape=bad.shape)
    model = types.SimpleNamespace(nfeat=4 + 1 + pick % 2)
    try:
        ModelWithNormalizer(model, nl)
    except Exception:
        pass
    else:
        ctx.check(False, ("model_with_normalizer_accepts_size_mismatch",))


# ------------------------------------------------------------------------------------------------
def doc_exponent(A, n_total):
    """docs/features/nldf.rst at sigma = 0, tau = tau_0:  a = pi (n/2)^(2/3) A."""
    return math.pi * (n_total / 2.0) ** (2.0 / 3) * A


@st.composite
def st_guard_case(draw):
    return {"nldf": draw(G.st_nldf(max_feat=3)), "pa": draw(st_plan_args()),
            "factors": draw(st.lists(st.sampled_from([0.01, 0.3, 0.9, 0.999, 1.001, 1.1, 3.0, 100.0]), min_size=1, max_size=4)),
            "i": draw(st.integers(-1, 2)), "flag": draw(st.sampled_from(["default", "default", "off", "smooth"]))}


@subcheck("C18", "expnt_guard", st_guard_case, quick=600, thorough=12000,
          rule="plan (Gaussian/spline, drawn ladder alpha0 * lambd^j, nalpha 2-24, nspin 1/2) x NLDF settings x exponent index "
               "i in {-1 (theta), 0..} x 1-4 uniform-gas points (sigma = 0, tau = tau_0) whose documented exponent "
               "pi (n/2)^(2/3) A is f * max(alphas), f in {0.01 .. 100}; oracle: with the default raise_large_expnt_error "
               "eval_feat_exp raises RuntimeError iff some f > 1 and otherwise returns the documented exponent (1e-12); "
               "with raise_large_expnt_error=False it returns; with use_smooth_expnt_cutoff=True it returns values <= "
               "max(alphas); non-trivial = some f > 1",
          tolerances={"exponent_rtol": 1e-12})
def expnt_guard(case, ctx):
    spec, pa, flag = case["nldf"], case["pa"], case["flag"]
    nldf = G.build_settings(spec)
    nfp = len(spec.get("feat_params", []))
    i = case["i"]
    if i >= nfp:
        i = -1
    A = spec["theta_params"][0] if i == -1 else spec["feat_params"][i][0]
    over = {}
    if flag == "off":
        over["raise_large_expnt_error"] = False
    elif flag == "smooth":
        over["use_smooth_expnt_cutoff"] = True
    plan = build_plan(nldf, pa, **over)
    amax = float(np.max(plan.alphas))
    f = np.array(case["factors"])
    n_tot = 2.0 * (f * amax / (math.pi * A)) ** 1.5
    keep = n_tot / pa["nspin"] > 1e-8      # stay clear of the plan's density cutoff (1e-10): that is C08's domain
    if not np.any(keep):
        ctx.event("all_points_below_density_floor")
        return
    f, n_tot = f[keep], n_tot[keep]
    rho = n_tot / pa["nspin"]       # the plan receives the density of one spin channel
    tau = CFC_DOC * n_tot ** (5.0 / 3) / pa["nspin"]
    sigma = np.zeros_like(rho)
    rho_tuple = (rho.copy(), sigma.copy(), tau.copy()) if spec["sl_level"] == "MGGA" else (rho.copy(), sigma.copy())
    beyond = bool(np.any(f > 1))
    ctx.event("flag=%s beyond=%s %s" % (flag, beyond, spec["sl_level"]))
    if beyond:
        ctx.nontrivial([flag, pa["plan"], pa["nspin"], spec["sl_level"], i == -1, sorted(set(case["factors"]))])
    try:
        a, da = plan.eval_feat_exp(rho_tuple, i=i)
    except Exception as e:     # "raises an error": the property does not fix the exception type
        ctx.check(flag == "default" and beyond, ("guard_raised_wrongly", flag, "beyond" if beyond else "inside"), message=str(e),
                  factors=f)
        return
    ctx.check(not (flag == "default" and beyond), ("guard_silent_beyond_ladder", spec["sl_level"], pa["plan"]), factors=f,
              amax=amax, a=np.asarray(a))
    a = np.asarray(a)
    if flag == "smooth":
        ctx.check(np.all(a <= amax * (1 + 1e-12)), ("smooth_cutoff_exceeds_amax",), a=a, amax=amax)
    else:
        ctx.close(a, f * amax, ("exponent_vs_doc", spec["sl_level"], "nspin%d" % pa["nspin"]), rtol=1e-12)


# ------------------------------------------------------------------------------------------------
@st.composite
def st_asan_case(draw):
    pa = draw(st_plan_args(small=draw(st.booleans())))
    nldf = draw(G.st_nldf(max_feat=3))
    use_proc = draw(st.integers(0, 3)) == 0
    return {"nldf": nldf, "pa": pa, "ng": draw(st.sampled_from([1, 2, 3, 7, 16])), "seed": draw(st.integers(0, 2 ** 31 - 1)),
            "proc": draw(st.lists(st.integers(0, 23), min_size=1, max_size=6, unique=True)) if use_proc else None,
            "extremes": draw(st.booleans())}


def _asan_body(case, ctx, skip_vk1_subset=False):
    from ciderpress.dft.plans import SemilocalPlan
    from ciderpress.dft.settings import SemilocalSettings

    spec, pa, ng = case["nldf"], dict(case["pa"]), case["ng"]
    nldf = G.build_settings(spec)
    nspin = pa["nspin"]
    kw = {"raise_large_expnt_error": False}
    proc = None
    if case["proc"] is not None:
        proc = sorted(set(p % pa["nalpha"] for p in case["proc"]))
        kw["proc_inds"] = proc
    if pa["plan"] == "spline" and pa["nalpha"] == 1:
        pa["nalpha"] = 2     # a one-knot spline has no interval (0/0 in the ladder); constructor-level concern, not memory
    plan = build_plan(nldf, pa, **kw)
    ctx.event("plan=%s order=%s formula=%s nalpha=%d proc=%s ver=%s" % (pa["plan"], pa["coef_order"], pa["alpha_formula"], pa["nalpha"],
                                                                      "subset" if proc is not None and len(proc) < pa["nalpha"] else "all",
                                                                      nldf.version))
    data = physical_rho_data(nspin, ng, case["seed"])
    if case["extremes"]:
        data[:, 0, 0] = 1e-14            # below rhocut
        if ng > 1:
            data[:, 0, 1] = 1e6          # exponent far beyond the ladder (clipped when the guard is off)
            data[:, 4, 1] = 1e12
    sl = SemilocalPlan(SemilocalSettings("npa"), nspin)
    ctx.finite(sl.get_feat(data.copy())[:, 0], ("sl", "rho_row"))
    nfp = nldf.num_feat_param_sets
    pad = plan.nalpha * ng + 8          # canary tail behind every output buffer
    for s in range(nspin):
        rho_tuple = plan.get_rho_tuple(data[s])
        for i in range(-1, nfp):
            arg, darg = plan.get_interpolation_arguments(tuple(np.ascontiguousarray(r) for r in rho_tuple), i=i)
            ctx.check(arg.shape == (ng,), ("interp_args", "shape"), shape=arg.shape)
            vk1 = i == -1 and nldf.version == "k"
            for local in (True, False):
                if vk1 and not local:
                    continue
                if vk1 and plan.local_nalpha != plan.nalpha and "vk1_proc_inds" in EXCLUDE_KNOWN:
                    ctx.event("excluded_known:vk1_proc_inds")
                    continue
                if vk1 and skip_vk1_subset and plan.local_nalpha != plan.nalpha:
                    ctx.event("skipped_here:vk1_with_proc_subset(see plans_plain, asan_vk1_proc)")
                    continue
                nal = plan.local_nalpha if local else plan.nalpha
                shape = (ng, nal) if pa["coef_order"] == "gq" else (nal, ng)
                size = ng * nal
                vbuf = np.full(size + pad, np.nan)
                dbuf = np.full(size + pad, np.nan)
                if vk1:
                    p, dp = plan.get_interpolation_coefficients(np.ascontiguousarray(arg), i=i, vbuf=vbuf, dbuf=dbuf)
                else:
                    p, dp = plan._get_interpolation_coefficients(np.ascontiguousarray(arg), i=i, local=local, vbuf=vbuf, dbuf=dbuf)
                which = "vk1" if vk1 else pa["plan"]
                ctx.check(p.shape == shape and dp.shape == shape, ("coefs", "shape", which), got=p.shape, want=shape)
                ctx.check(np.all(np.isnan(vbuf[size:])) and np.all(np.isnan(dbuf[size:])), ("coefs", "writes_beyond_buffer", which),
                          i=i, local=local, order=pa["coef_order"], nalpha=pa["nalpha"], local_nalpha=int(plan.local_nalpha), ng=ng,
                          overwritten=int(np.sum(~np.isnan(vbuf[size:]))))
                ctx.check(not np.any(np.isnan(vbuf[:size])) and not np.any(np.isnan(dbuf[:size])), ("coefs", "buffer_not_fully_written", which),
                          i=i, local=local, order=pa["coef_order"], nalpha=pa["nalpha"], proc=proc)
        if proc is None:
            nrow = plan.nalpha if nldf.version != "i" else 0
            f = rng_from(case["seed"] + s).normal(size=(nrow + plan.num_vi_ints, ng))
            if pa["coef_order"] == "gq":
                f = np.ascontiguousarray(f.T)
            feat, dfeat = plan.eval_rho_full(f, data[s], spin=s)
            ctx.check(feat.shape == (nldf.nfeat, ng) and dfeat.shape == (nfp, ng), ("eval_rho_full", "rows"), shape=feat.shape, nfeat=nldf.nfeat)
    if pa["plan"] == "spline":
        e = np.array([1e-300, plan.alphas[0] * 0.5, plan.alphas[0], plan.alphas[-1], plan.alphas[-1] * 2, 1e300, 0.0])
        di, dd = plan.get_a2q_fast(e)
        top = plan._spline_size - 1
        ctx.check(np.all(di >= 0) and np.all(di < top), ("a2q", "index_outside_table"), di=di, size=plan._spline_size)
        # where the index is clipped (exponent below the first or above the last node) it no longer depends on the
        # exponent: the returned derivative is exactly zero there, on both sides
        lowc = e < plan.alphas[0] * (1 - 1e-12)
        highc = e > plan.alphas[-1] * (1 + 1e-12)
        ctx.check(np.all(np.isfinite(dd)), ("a2q", "derivative_nonfinite"), dd=dd)
        ctx.check(bool(np.all(dd[highc] == 0)), ("a2q", "derivative_nonzero_where_clipped", "above"), dd=dd[highc], e=e[highc])
        if pa["alpha_formula"] == "etb":
            ctx.check(bool(np.all(dd[lowc] == 0)), ("a2q", "derivative_nonzero_where_clipped", "below"), dd=dd[lowc], e=e[lowc])
        # exponents inside the ladder are not clipped: the dense spline index, mapped back through the plan's own
        # index -> exponent function (the one the table rows were built with, _run_setup), returns the exponent
        t = np.array([0.03, 0.2, 0.45, 0.7, 0.9, 0.97])
        # (linear placement: the first exponent of a 'zexp' ladder is ~0, a geometric placement would sit on its floor)
        ein = np.ascontiguousarray(plan.alphas[0] + (plan.alphas[-1] - plan.alphas[0]) * t)
        di, dd = plan.get_a2q_fast(ein.copy())
        # (get_q2a replaces element 0 by the exponent floor for 'zexp' ladders -- it is written for q = 0, 1, 2, ...:
        # hand it a leading q = 0)
        back = plan.get_q2a(np.concatenate([[0.0], di * (plan.nalpha - 1) / (plan._spline_size - 1)]))[1:]
        ctx.close(back, ein, ("a2q", "inside_ladder_roundtrip", "size_eq" if plan._spline_size == plan.nalpha else
                              ("size_gt" if plan._spline_size > plan.nalpha else "size_lt")), rtol=1e-9,
                  spline_size=plan._spline_size, nalpha=plan.nalpha)


@subcheck("C18", "plans_plain", st_asan_case, quick=800, thorough=10000,
          rule="the C-touching plan routines on the ordinary build: NLDFGaussianPlan / NLDFSplinePlan (nalpha 1-24, both coefficient "
               "orders, etb/zexp, spline_size = nalpha / 2*nalpha / nalpha+3 / nalpha//2, optional proc_inds subset) x NLDF settings x "
               "1-16 grid points incl. a density below rhocut and an exponent beyond the ladder (guard off, so it is "
               "clipped); cider_coefs_gto_*/cider_coefs_vk1_*/cider_coefs_spline_*/cider_ind_etb/zexp/clip through "
               "get_interpolation_arguments / _get_interpolation_coefficients (local and global) / eval_rho_full / "
               "get_a2q_fast; oracle: buffers pre-filled with NaN are completely overwritten and have the advertised shape, "
               "spline indices stay inside the table, their derivative is exactly zero where the index is clipped (below the first / above the last node) and, for exponents inside the ladder, map back to the exponent through get_q2a (1e-9), feature rows == nfeat; non-trivial = nalpha <= 2 or proc_inds subset "
               "or spline_size != nalpha",
          tolerances={})
def plans_plain(case, ctx):
    pa = case["pa"]
    if pa["nalpha"] <= 2 or case["proc"] is not None or (pa["plan"] == "spline" and pa["spline_size"] is not None):
        ctx.nontrivial([pa["plan"], pa["coef_order"], pa["alpha_formula"], pa["nalpha"], case["proc"] is not None, pa["spline_size"],
                        case["nldf"]["cls"], case["ng"]])
    _asan_body(case, ctx)


@subcheck("C18", "asan_plans", st_asan_case, quick=400, thorough=5000, variant="asan",
          rule="the cases of plans_plain re-run in a process with the ASan+UBSan build of the C libraries preloaded "
               "(halt_on_error): any sanitizer report on a call the Python wrappers accepted is a violation of the case in "
               "flight; the version-k theta coefficients with a proc_inds subset are exercised by plans_plain (canary) and "
               "asan_vk1_proc (isolated) so that a report there cannot end this sub-check's shards; "
               "non-trivial = the call sequence returned normally",
          tolerances={})
def asan_plans(case, ctx):
    _asan_body(case, ctx, skip_vk1_subset=True)
    ctx.nontrivial([case["pa"]["plan"], case["pa"]["coef_order"], case["pa"]["alpha_formula"], case["pa"]["nalpha"],
                    case["proc"] is not None, case["nldf"]["cls"], case["ng"]])


@st.composite
def st_vk1_case(draw):
    pa = draw(st_plan_args())
    pa["nalpha"] = max(pa["nalpha"], 4)
    return {"nldf": draw(G.st_nldf(version="k", max_feat=2)), "pa": pa, "ng": draw(st.sampled_from([1, 5])), "seed": draw(st.integers(0, 2 ** 31 - 1)),
            "proc": draw(st.lists(st.integers(0, 2), min_size=1, max_size=2, unique=True)), "extremes": False}


@subcheck("C18", "asan_vk1_proc", st_vk1_case, quick=4, thorough=16, variant="asan", isolate=True, max_shards=2, shrink=False,
          rule="version-k plans built with a strict proc_inds subset (the documented way to split the exponent ladder over "
               "processes): get_interpolation_coefficients(i=-1) under ASan; oracle: no sanitizer report and no write behind "
               "the local buffer; every case is non-trivial",
          tolerances={})
def asan_vk1_proc(case, ctx):
    ctx.nontrivial([case["pa"]["coef_order"], case["pa"]["nalpha"], case["proc"], case["ng"]])
    _asan_body(case, ctx)


# ------------------------------------------------------------------------------------------------
_ATCO = {}


def _atco(elem, lmax):
    key = (elem, lmax)
    if key not in _ATCO:
        from pyscf import gto

        from ciderpress.dft.lcao_convolutions import ANG_OF, ATCBasis
        from ciderpress.pyscf.nldf_convolutions import aug_etb_for_cider, get_gamma_lists_from_mol

        mol = gto.M(atom=elem, basis="sto-3g", verbose=0, spin=None)
        mol = gto.M(atom=elem, basis=aug_etb_for_cider(mol, lmax=lmax, beta=2.8), verbose=0, spin=None)
        _ATCO[key] = (ATCBasis(*get_gamma_lists_from_mol(mol)), int(np.max(mol._bas[:, ANG_OF])))
    return _ATCO[key]


@st.composite
def st_rad2orb_case(draw):
    nalpha = draw(st.integers(1, 5))
    offset = draw(st.integers(0, 4))
    room = draw(st.sampled_from([-2, -1, 0, 0, 1, 3]))     # stride - (offset + nalpha); negative = invalid
    return {"elem": draw(st.sampled_from(["H", "He", "Li"])), "lmax": draw(st.integers(0, 3)), "nalpha": nalpha, "offset": offset,
            "stride": max(1, offset + nalpha + room), "nrad": draw(st.integers(1, 7)), "rad2orb": draw(st.booleans()),
            "offset_none": draw(st.integers(0, 5)) == 0, "seed": draw(st.integers(0, 2 ** 31 - 1))}


def _rad2orb_body(case, ctx):
    atco, lmax = _atco(case["elem"], case["lmax"])
    nlm = (lmax + 1) ** 2
    nq, stride, nrad = case["nalpha"], case["stride"], case["nrad"]
    offset = None if case["offset_none"] else case["offset"]
    off = 0 if offset is None else offset
    valid = off + nq <= stride
    rng = rng_from(case["seed"])
    rad = 0.05 * (np.exp(0.6 * np.arange(nrad)) - 1) + 0.01
    buf = np.full(atco.nao * stride + 64, np.nan)
    p = buf[: atco.nao * stride].reshape(atco.nao, stride)
    p[:] = rng.normal(size=p.shape)
    p0 = p.copy()
    tbuf = np.full(nrad * nlm * nq + 64, np.nan)
    th = tbuf[: nrad * nlm * nq].reshape(nrad, nlm, nq)
    th[:] = rng.normal(size=th.shape)
    loc = np.asarray([0, nrad], dtype=np.int32) if case["rad2orb"] else np.zeros(nrad, dtype=np.int32)
    ctx.event("%s valid=%s lmax=%d" % ("rad2orb" if case["rad2orb"] else "orb2rad", valid, lmax))
    try:
        atco.convert_rad2orb_(th, p, loc, rad, case["rad2orb"], offset=offset)
    except Exception as e:
        ctx.check(not valid, ("rad2orb", "valid_call_rejected"), error=type(e).__name__, message=str(e)[:100])
        ctx.event("rejected_with=" + type(e).__name__)
        return
    ctx.check(valid, ("rad2orb", "accepts_offset_plus_nalpha_beyond_stride"), offset=off, nalpha=nq, stride=stride)
    ctx.check(np.all(np.isnan(buf[atco.nao * stride:])) and np.all(np.isnan(tbuf[nrad * nlm * nq:])), ("rad2orb", "writes_beyond_buffer"))
    if case["rad2orb"]:
        ctx.equal_bits(p[:, :off], p0[:, :off], ("rad2orb", "columns_outside_window_touched"))
        ctx.equal_bits(p[:, off + nq:], p0[:, off + nq:], ("rad2orb", "columns_outside_window_touched"))
        ctx.finite(p, ("rad2orb", "output"))
    else:
        ctx.equal_bits(p, p0, ("orb2rad", "input_modified"))
        ctx.finite(th, ("orb2rad", "output"))


_RAD2ORB_RULE = ("ATCBasis.convert_rad2orb_ (contract_rad_to_orb / contract_orb_to_rad) on the ETB basis of H/He/Li with lmax 0-3, "
                 "1-7 radial points, nalpha 1-5, column offset 0-4 (or None), stride = offset + nalpha + {-2..3}; oracle: "
                 "offset + nalpha > stride raises; otherwise only the columns [offset, offset+nalpha) change, NaN canaries behind "
                 "both arrays stay intact, output finite; non-trivial = stride != nalpha or offset > 0")


@subcheck("C18", "rad2orb_offsets", st_rad2orb_case, quick=500, thorough=10000, rule=_RAD2ORB_RULE, tolerances={})
def rad2orb_offsets(case, ctx):
    if case["stride"] != case["nalpha"] or case["offset"] > 0:
        ctx.nontrivial([case["elem"], case["lmax"], case["nalpha"], case["offset"], case["stride"], case["rad2orb"], case["offset_none"]])
    _rad2orb_body(case, ctx)


@subcheck("C18", "asan_rad2orb", st_rad2orb_case, quick=250, thorough=5000, variant="asan",
          rule="the cases of rad2orb_offsets under the ASan+UBSan build; non-trivial = the call returned or was rejected normally",
          tolerances={})
def asan_rad2orb(case, ctx):
    ctx.nontrivial([case["elem"], case["lmax"], case["nalpha"], case["offset"], case["stride"], case["rad2orb"]])
    _rad2orb_body(case, ctx)


# ------------------------------------------------------------------------------------------------
# C evaluators under the sanitizer build (the cases and oracles of C11's evaluator sub-checks, re-run where a write
# behind a scratch or output buffer is a report rather than silent corruption)
from props import c11 as _c11  # noqa: E402


@subcheck("C18", "asan_evaluators", lambda: st.one_of(_c11.st_c_spin().map(lambda c: {"which": "spin", "case": c}),
                                                      _c11.st_c_rbf().map(lambda c: {"which": "rbf", "case": c}),
                                                      _c11.st_c_antisym().map(lambda c: {"which": "antisym", "case": c})),
          quick=300, thorough=4000, variant="asan",
          rule="RBFEvaluator / SpinRBFEvaluator / AntisymRBFEvaluator calls as generated for C11 (all index subsets and "
               "slices, 2-D and 3-D inputs, passed and default output arrays) in a process with the ASan+UBSan build "
               "preloaded: any sanitizer report on an accepted call is a violation; the value/gradient oracles of C11 run too; "
               "non-trivial = the call sequence returned normally",
          tolerances={})
def asan_evaluators(case, ctx):
    fn = {"spin": _c11.c_spin, "rbf": _c11.c_rbf, "antisym": _c11.c_antisym}[case["which"]]
    ctx.event("evaluator=" + case["which"])
    fn(case["case"], ctx)
    ctx.nontrivial([case["which"], case["case"].get("n1"), case["case"].get("form", case["case"].get("via")), case["case"].get("nctrl")])
