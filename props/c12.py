"""C12 -- feature transforms and normalisers have derivatives matching their values."""
import numpy as np
from hypothesis import strategies as st

from cpverif.oracles import fd_check_vec, rng_from
from cpverif.runner import subcheck

# role of each index argument: "pos" the value must be > 0 (density-like, denominators),
# "any" the value may have either sign (vector dot products)
MAP_SPECS = {
    "L": dict(idx=[("i", "any")], par=[]),
    "U": dict(idx=[("i", "pos")], par=["gamma"]),
    "T": dict(idx=[("i", "pos"), ("j", "pos")], par=[]),
    "V": dict(idx=[("i", "pos")], par=["gamma", "scale", "center"]),
    "VZ": dict(idx=[("i", "pos")], par=["gamma", "scale", "center"]),
    "V2": dict(idx=[("i", "pos"), ("j", "pos")], par=[]),
    "V3": dict(idx=[("i", "pos"), ("j", "pos")], par=["gamma"]),
    "V4": dict(idx=[("i", "any"), ("j", "any")], par=["gamma"]),
    "W": dict(idx=[("i", "pos"), ("j", "pos"), ("k", "any")], par=["gammai", "gammaj"]),
    "X": dict(idx=[("i", "pos"), ("j", "pos"), ("k", "any")], par=["gammai", "gammaj"]),
    "Y": dict(idx=[("i", "pos"), ("j", "pos"), ("k", "pos"), ("l", "any")], par=["gammai", "gammaj", "gammak"]),
    "Z": dict(idx=[("i", "any")], par=["gamma", "scale", "center"]),
    "E": dict(idx=[("i", "any")], par=["scale", "center"]),
    "SU": dict(idx=[("i", "any")], par=["gamma"]),
    "SLN": dict(idx=[("i", "pos")], par=["gamma"]),
    "SLX": dict(idx=[("i", "rho"), ("j", "pos")], par=["gamma"]),
    "SLB": dict(idx=[("i", "rho"), ("j", "pos"), ("k", "pos")], par=[]),
    "SLT": dict(idx=[("i", "rho"), ("j", "pos")], par=[]),
    "SLTW": dict(idx=[("i", "rho"), ("j", "pos")], par=[]),
    "SLD": dict(idx=[("i", "rho"), ("j", "pos"), ("k", "pos")], par=[]),
    "Omega": dict(idx=[("i_n", "rho"), ("i_s", "pos"), ("i_alpha", "pos")], par=["c", "B", "C"]),
}
CODES = sorted(MAP_SPECS)


CLASS_NAMES = {'L': 'LMap', 'U': 'UMap', 'T': 'TMap', 'V': 'VMap', 'VZ': 'VZMap', 'V2': 'V2Map', 'V3': 'V3Map', 'V4': 'V4Map',
               'W': 'WMap', 'X': 'XMap', 'Y': 'YMap', 'Z': 'ZMap', 'E': 'EMap', 'SU': 'SignedUMap', 'SLN': 'SLNMap', 'SLX': 'SLXMap',
               'SLB': 'SLBMap', 'SLT': 'SLTMap', 'SLTW': 'SLTWMap', 'SLD': 'SLDMap', 'Omega': 'OmegaMap'}


def _registered_codes():
    """Every class registered in the tree under test must be known to the generator (by class name: a class the
    generator does not know is a harness matter -- the table above needs a line)."""
    from ciderpress.dft import transform_data as td

    known = {v: k for k, v in CLASS_NAMES.items()}
    names = set()
    for cls in td.ALL_CLASSES:
        names.add(known.get(cls.__name__, "?" + cls.__name__))
    return names


def check_registry(ctx):
    """The code table is part of the stored format: every class writes its own code and the table maps that code back to
    the class (a violation of the round trip for that class, reported once with its own signature)."""
    from ciderpress.dft import transform_data as td

    for code, name in sorted(CLASS_NAMES.items()):
        cls = getattr(td, name, None)
        ctx.check(cls is not None and cls in td.ALL_CLASSES, ("registry", "class_not_registered", code))
        ctx.check(getattr(cls, "code", None) == code, ("registry", "class_writes_another_code", code), writes=repr(getattr(cls, "code", None)))
        ctx.check(td.ALL_CLASS_DICT.get(code) is cls, ("registry", "code_maps_to_another_class", code),
                  maps_to=getattr(td.ALL_CLASS_DICT.get(code), "__name__", None))


def pfloat(lo, hi):
    # log-uniform positive parameter, never pinned to 1
    return st.floats(np.log(lo), np.log(hi)).map(lambda t: float(np.exp(t)))


def build_map(spec):
    from ciderpress.dft import transform_data as td

    code = spec["code"]
    cls = getattr(td, CLASS_NAMES[code])
    s = MAP_SPECS[code]
    args = [spec["idx"][n] for n, _ in s["idx"]] + [spec["par"][n] for n in s["par"]]
    return cls(*args)


@st.composite
def st_map(draw, n0, code=None, coincident_ok=True):
    code = code or draw(st.sampled_from(CODES))
    s = MAP_SPECS[code]
    k = len(s["idx"])
    if coincident_ok and draw(st.integers(0, 9)) == 0:
        idx = [draw(st.integers(0, n0 - 1)) for _ in range(k)]
    else:
        idx = draw(st.permutations(list(range(n0))))[:k]
    par = {}
    for p in s["par"]:
        if p == "center":
            par[p] = draw(st.floats(-1.0, 1.0))
        elif p == "scale":
            par[p] = draw(pfloat(0.2, 5.0))
        elif p in ("c", "B", "C"):
            par[p] = draw(pfloat(0.1, 4.0))
        else:
            par[p] = draw(pfloat(0.05, 20.0))
    return {"code": code, "idx": {n: int(i) for (n, _), i in zip(s["idx"], idx)}, "par": par}


def raw_features(maps, n0, nsamp, seed):
    """Raw feature array (n0, nsamp) in the admissible domain of all the maps that read it."""
    rng = rng_from(seed)
    role = ["free"] * n0
    rank = {"free": 0, "any": 1, "pos": 2, "rho": 3}
    for m in maps:
        for n, r in MAP_SPECS[m["code"]]["idx"]:
            i = m["idx"][n]
            if rank[r] > rank[role[i]]:
                role[i] = r
    x = np.empty((n0, nsamp))
    for i in range(n0):
        mag = np.exp(rng.uniform(np.log(0.02), np.log(3.0), nsamp))
        if role[i] in ("free", "any"):
            x[i] = mag * rng.choice([-1.0, 1.0], nsamp)
        elif role[i] == "pos":
            x[i] = mag
        else:  # density: log-uniform, well above the 1e-10 clamp (below it is C08's domain)
            x[i] = np.exp(rng.uniform(np.log(1e-6), np.log(50.0), nsamp))
    # density-coupled rows get physically consistent magnitudes (sigma ~ rho^(8/3), tau ~ rho^(5/3));
    # rows that an exponential-type map (V4, E) also reads keep O(1) magnitudes (their domain)
    noscale = set(i for m in maps if m["code"] in ("V4", "E") for i in m["idx"].values())
    for i in noscale:
        # ... also when another map uses the same row as its density (log-uniform up to 50): exp(gamma * 50) overflows
        # (thorough tier, seed 2: V4 with gamma = 20 on a row that SLX reads as the density)
        x[i] = np.sign(x[i]) * np.minimum(np.abs(x[i]), 3.0)
    scaled = set()      # a row shared by several density-coupled maps is rescaled once, not once per map

    def _scale(j, fac):
        if j not in scaled:
            x[j] = np.abs(x[j]) * fac
            scaled.add(j)

    for m in maps:
        if m["code"] in ("SLX", "SLB", "SLT", "SLTW", "SLD"):
            names = [n for n, _ in MAP_SPECS[m["code"]]["idx"]]
            irho = m["idx"][names[0]]
            if role[irho] != "rho":
                continue
            rho = x[irho]
            if m["code"] in ("SLX", "SLB", "SLTW", "SLD"):
                j = m["idx"]["j"]
                if j != irho and role[j] == "pos" and j not in noscale:
                    _scale(j, rho ** (8.0 / 3) * 10)
            if m["code"] in ("SLB", "SLD"):
                k = m["idx"]["k"]
                if k != irho and role[k] == "pos" and k not in noscale:
                    _scale(k, rho ** (5.0 / 3) * 3)
            if m["code"] == "SLT":
                j = m["idx"]["j"]
                if j != irho and role[j] == "pos" and j not in noscale:
                    _scale(j, rho ** (5.0 / 3) * 3)
    return x


# ------------------------------------------------------------------------------------------------
@st.composite
def st_map_fd(draw):
    n0 = draw(st.integers(4, 6))
    return {"n0": n0, "nsamp": draw(st.integers(1, 5)), "map": draw(st_map(n0)),
            "seed": draw(st.integers(0, 2**31 - 1))}


@subcheck("C12", "map_fd", st_map_fd, quick=4000, thorough=80000,
          rule="one feature-map class drawn from all 21 registered classes (enumerated from ALL_CLASSES) with drawn "
               "indices (10% coincident) and log-uniform parameters never pinned to 1; raw features in the class's "
               "admissible domain, density 1e-6..50 (above the 1e-10 clamp); in half of the cases the map's value routine is first called on "
               "another batch of the same size (call order of a spin-polarised evaluation); oracle: 4th-order finite difference of "
               "sum_s w_s*y_s in every raw feature vs fill_deriv_; non-trivial = some |derivative| > 1e-8; "
               "distinct by (class, indices, parameter bucket)",
          tolerances={"fd_rtol": 1e-6})
def map_fd(case, ctx):
    assert _registered_codes() <= set(CODES), "generator out of date with ALL_CLASSES: %s" % sorted(_registered_codes() - set(CODES))
    spec = case["map"]
    m = build_map(spec)
    n0, ns = case["n0"], case["nsamp"]
    x = raw_features([spec], n0, ns, case["seed"])
    w = rng_from(case["seed"] + 1).uniform(0.5, 1.5, ns)
    if case["seed"] % 2:
        # call order as in a spin-polarised evaluation: values for another batch of the same size first (all channels),
        # derivatives afterwards; a map object may not remember anything from a value call
        ctx.event("value_call_on_other_data_first")
        other = raw_features([spec], n0, ns, case["seed"] + 977)
        m.fill_feat_(np.zeros(ns), other.copy())
    dfdx = np.zeros((n0, ns))
    m.fill_deriv_(dfdx, w.copy(), x.copy())
    ctx.event("class=" + spec["code"])
    coincident = len(set(spec["idx"].values())) < len(spec["idx"])
    if coincident:
        ctx.event("coincident_indices")
    if np.max(np.abs(dfdx)) > 1e-8:
        ctx.nontrivial([spec["code"], sorted(spec["idx"].items()),
                        {k: round(float(np.log2(v)) if v > 0 else v, 0) for k, v in spec["par"].items() if k != "center"}])

    def val(xx):
        y = np.zeros(ns)
        m.fill_feat_(y, xx.copy())
        return w * y

    for i in range(n0):
        h = 1e-3 * np.abs(x[i])

        def f(step, i=i):
            xx = x.copy()
            xx[i] = x[i] + step
            return val(xx)

        used = i in spec["idx"].values()
        if not used:
            ctx.check(np.all(dfdx[i] == 0), ("unused_row_touched", spec["code"]), row=i)
            continue
        fd_check_vec(ctx, f, dfdx[i], ("deriv", spec["code"]), h, rtol=1e-6,
                     atol=1e-12 * float(np.max(np.abs(w))), row=i, spec=spec)


# ------------------------------------------------------------------------------------------------
@st.composite
def st_list(draw):
    n0 = draw(st.integers(4, 7))
    nm = draw(st.integers(1, 8))
    maps = [draw(st_map(n0)) for _ in range(nm)]
    return {"n0": n0, "nsamp": draw(st.integers(1, 4)), "maps": maps, "seed": draw(st.integers(0, 2**31 - 1))}


@subcheck("C12", "list_additive", st_list, quick=1500, thorough=30000,
          rule="FeatureList of 1-8 drawn maps over 4-7 raw features (indices shared between maps); oracles: "
               "fill_derivs_ into a pre-filled buffer == prefill + sum of single-map derivatives (1e-12), "
               "__call__ == fill_vals_, directional finite difference of the whole list; non-trivial = at least two "
               "maps read the same raw feature",
          tolerances={"additivity": "list == sequential in-place accumulation bitwise (forward or reverse order; any other order 1e-5); vs separately computed contributions 1e-5 of the summed magnitudes", "fd_rtol": 1e-6})
def list_additive(case, ctx):
    from ciderpress.dft.transform_data import FeatureList

    maps = [build_map(s) for s in case["maps"]]
    fl = FeatureList(maps)
    n0, ns = case["n0"], case["nsamp"]
    x = raw_features(case["maps"], n0, ns, case["seed"])
    rng = rng_from(case["seed"] + 7)
    dfdy = rng.uniform(-1, 1, (len(maps), ns))
    pre = rng.uniform(-1, 1, (n0, ns))
    got = pre.copy()
    fl.fill_derivs_(got, dfdy.copy(), x.copy())
    want = pre.copy()
    mag = np.abs(pre)
    for k, m in enumerate(maps):
        one = np.zeros((n0, ns))
        m.fill_deriv_(one, dfdy[k].copy(), x.copy())
        want += one
        mag += np.abs(one)
    used = [i for s in case["maps"] for i in set(s["idx"].values())]
    shared = len(used) != len(set(used))
    ctx.event("shared_raw_feature" if shared else "no_shared")
    ctx.event("nmaps=%d" % len(maps))
    if shared:
        ctx.nontrivial([[s["code"], sorted(s["idx"].items())] for s in case["maps"]])
    # (a) the list is the sequential in-place accumulation of its maps into the caller's array: the same floating-point
    #     operations in the same order, so bit-identical (a map with coincident indices, e.g. SLB(i=j), adds nearly
    #     cancelling pieces to one row inside its own call; comparing against separately computed contributions then shows
    #     rounding of the size of those hidden pieces -- thorough tier 2.4e-12, a later quick seed 1.15e-10 of the net
    #     magnitude -- which no tolerance based on visible magnitudes bounds)
    seq = pre.copy()
    for k, m in enumerate(maps):
        m.fill_deriv_(seq, dfdy[k].copy(), x.copy())
    if got.tobytes() != seq.tobytes():
        # the order in which a list visits its maps is the implementation's business: the reverse order is tried, and any
        # other order is judged like (b)
        rev = pre.copy()
        for k in reversed(range(len(maps))):
            maps[k].fill_deriv_(rev, dfdy[k].copy(), x.copy())
        if got.tobytes() != rev.tobytes():
            ctx.event("accumulation_order_neither_forward_nor_reverse")
            ctx.close((got - seq) / (mag + 1e-300), np.zeros_like(got), ("additivity", "list_vs_sequential_accumulation"), rtol=0, atol=1e-5)
    # (b) against the separately computed contributions, at a tolerance that only an overwritten or dropped contribution
    #     (an O(1) relative error) exceeds
    ctx.close((got - want) / (mag + 1e-300), np.zeros_like(got), ("additivity",), rtol=0, atol=1e-5)     # hidden pieces: 5.9e-7 seen
    y1 = fl(x.T.copy())
    y2 = np.zeros((len(maps), ns))
    fl.fill_vals_(y2, x.copy())
    ctx.close(y1, y2.T, ("call_vs_fill",), rtol=1e-14, atol=0)
    # directional FD, one output map at a time (no cross-map cancellation in the oracle)
    u = rng.uniform(-1, 1, (n0, ns)) * np.abs(x)
    for k, m in enumerate(maps):
        one = np.zeros((n0, ns))
        m.fill_deriv_(one, np.ones(ns), x.copy())
        an = np.sum(one * u, axis=0)

        def f(step, m=m):
            yy = np.zeros(ns)
            m.fill_feat_(yy, x + step * u)
            return yy

        fd_check_vec(ctx, f, an, ("list_directional", case["maps"][k]["code"]), 1e-3, rtol=1e-6, atol=1e-12)


# ------------------------------------------------------------------------------------------------
def build_normalizer(spec):
    from ciderpress.dft import feat_normalizer as fn

    k = spec["kind"]
    if k == "const":
        return fn.ConstantNormalizer(spec["c1"])
    if k == "density":
        return fn.DensityNormalizer(spec["c1"], spec["p1"])
    if k == "inhom":
        return fn.InhomogeneityNormalizer(spec["c1"], spec["c2"], spec["p2"])
    if k == "general":
        return fn.GeneralNormalizer(spec["c1"], spec["c2"], spec["p1"], spec["p2"])
    if k == "from_params":
        return fn.get_normalizer_from_exponent_params(spec["p1"], spec["p2"], spec["a0"], spec["tau_mul"], gga=spec["gga"])
    if k == "invariant":
        return fn.get_invariant_normalizer_from_exponent_params(spec["p2"], spec["a0"], spec["tau_mul"])
    raise ValueError(k)


@st.composite
def st_normalizer(draw):
    kind = draw(st.sampled_from(["const", "density", "inhom", "general", "from_params", "invariant"]))
    return {"kind": kind, "c1": draw(pfloat(0.1, 10)), "c2": draw(pfloat(0.05, 5)),
            "p1": draw(st.floats(-2.0, 2.0)), "p2": draw(st.floats(-2.0, 2.0)),
            "a0": draw(pfloat(0.5, 8)), "tau_mul": draw(st.floats(0.0, 0.04)), "gga": draw(st.booleans())}


@st.composite
def st_norm_fd(draw):
    return {"norm": draw(st_normalizer()), "nsamp": draw(st.integers(1, 5)), "seed": draw(st.integers(0, 2**31 - 1))}


@subcheck("C12", "normalizer_fd", st_norm_fd, quick=2500, thorough=50000,
          rule="each of the four normaliser classes and the two factory functions (gga on/off) with drawn constants "
               "and powers in [-2,2]; x either sign, rho log-uniform 1e-6..50, inh >= 0; oracles: fill_bwd vs finite "
               "difference of fill_fwd in x, rho and inh; get_normed_feature_deriv vs finite difference along a drawn "
               "tangent; <v,J u> (forward mode) == <J^T v,u> (reverse mode) at 1e-12; non-trivial = power != 0",
          tolerances={"fd_rtol": 1e-6, "transpose_rtol": 1e-12})
def normalizer_fd(case, ctx):
    n = build_normalizer(case["norm"])
    ns = case["nsamp"]
    rng = rng_from(case["seed"])
    x = rng.uniform(0.05, 3, ns) * rng.choice([-1.0, 1.0], ns)
    rho = np.exp(rng.uniform(np.log(1e-6), np.log(50), ns))
    inh = np.exp(rng.uniform(np.log(1e-3), np.log(20), ns))
    v = rng.uniform(0.5, 1.5, ns)
    kind = case["norm"]["kind"]
    ctx.event("kind=" + kind)
    if kind != "const":
        ctx.nontrivial([kind, round(case["norm"]["p1"], 1), round(case["norm"]["p2"], 1), case["norm"]["gga"]])
    dfdx, drho_c, dinh_c = n.fill_bwd(v.copy(), x.copy(), rho.copy(), inh.copy())
    # documented: dfdx is overwritten, dfdrho / dfdinh are added to
    dfdrho0 = rng.uniform(-1, 1, ns) * (np.abs(drho_c) + 1e-300)
    dfdinh0 = rng.uniform(-1, 1, ns) * (np.abs(dinh_c) + 1e-300)
    b1, b2, b3 = n.fill_bwd(v.copy(), x.copy(), rho.copy(), inh.copy(), dfdx=np.full(ns, np.nan),
                            dfdrho=dfdrho0.copy(), dfdinh=dfdinh0.copy())
    ctx.close(b1, dfdx, ("bwd_overwrite", kind), rtol=0, atol=0)
    ctx.close(b2, dfdrho0 + drho_c, ("bwd_accumulate_rho", kind), rtol=1e-14, scale=float(np.max(np.abs(dfdrho0) + np.abs(drho_c))))
    ctx.close(b3, dfdinh0 + dinh_c, ("bwd_accumulate_inh", kind), rtol=1e-14, scale=float(np.max(np.abs(dfdinh0) + np.abs(dinh_c))))
    xn = n.fill_fwd(x.copy(), rho.copy(), inh.copy())
    xn2 = np.full(ns, np.nan)
    n.fill_fwd(x.copy(), rho.copy(), inh.copy(), xn=xn2)
    ctx.close(xn2, xn, ("fwd_buffer",), rtol=0, atol=0)
    fd_check_vec(ctx, lambda s: v * n.fill_fwd(x + s, rho, inh), dfdx, ("bwd_x", kind), 1e-3 * np.abs(x), rtol=1e-6)
    fd_check_vec(ctx, lambda s: v * n.fill_fwd(x, rho + s, inh), drho_c, ("bwd_rho", kind), 1e-3 * rho, rtol=1e-6)
    fd_check_vec(ctx, lambda s: v * n.fill_fwd(x, rho, inh + s), dinh_c, ("bwd_inh", kind), 1e-3 * inh, rtol=1e-6)
    # forward mode along a tangent
    dx, dr, di = rng.uniform(-1, 1, ns) * np.abs(x), rng.uniform(-1, 1, ns) * rho, rng.uniform(-1, 1, ns) * inh
    fwd = n.get_normed_feature_deriv(x.copy(), rho.copy(), inh.copy(), dx.copy(), dr.copy(), di.copy())
    fd_check_vec(ctx, lambda s: n.fill_fwd(x + s * dx, rho + s * dr, inh + s * di), fwd, ("fwd_tangent", kind),
                 1e-3 * np.ones(ns), rtol=1e-6)
    # transpose identity (no FD), judged elementwise against the size of the terms it sums
    lhs = v * fwd
    terms = np.abs(dfdx * dx) + np.abs(drho_c * dr) + np.abs(dinh_c * di) + 1e-300
    rhs = dfdx * dx + drho_c * dr + dinh_c * di
    ctx.close(lhs / terms, rhs / terms, ("transpose", kind), rtol=1e-12, scale=1.0)


# ------------------------------------------------------------------------------------------------
@st.composite
def st_normlist(draw):
    slmode = draw(st.sampled_from(["npa", "nst", "np", "ns"]))
    nsl = 3 if slmode in ("npa", "nst") else 2
    nextra = draw(st.integers(1, 5))
    norms = [None] * nsl
    for _ in range(nextra):
        norms.append(None if draw(st.integers(0, 5)) == 0 else draw(st_normalizer()))
    return {"slmode": slmode, "norms": norms, "nspin": draw(st.sampled_from([1, 2])),
            "nsamp": draw(st.integers(1, 4)), "seed": draw(st.integers(0, 2**31 - 1))}


def sl_block(slmode, rho, rng):
    """Semilocal rows consistent with the mode (values as SemilocalPlan produces them)."""
    n = rho.shape
    if slmode == "npa":
        return [rng.uniform(0.0, 3.0, n), rng.uniform(0.0, 4.0, n)]          # s^2, alpha
    if slmode == "nst":
        return [rng.uniform(0.0, 3.0, n) * rho ** (8.0 / 3) * 20, rng.uniform(0.2, 3.0, n) * rho ** (5.0 / 3) * 3]
    if slmode == "np":
        return [rng.uniform(0.0, 3.0, n)]
    return [rng.uniform(0.0, 3.0, n) * rho ** (8.0 / 3) * 20]


@subcheck("C12", "normlist", st_normlist, quick=2500, thorough=50000,
          rule="FeatNormalizerList over all four semilocal modes with None entries for the semilocal rows (as every "
               "settings class builds them) and 1-5 drawn normalisers/None for the nonlocal rows, nspin 1/2, rho 1e-6..50 and, in "
               "a third of the cases, some samples below the 1e-10 clamp; oracles: reverse pass vs finite difference of get_normalized_feature_vector per raw "
               "row; forward pass vs finite difference along a drawn tangent; transpose identity 1e-12; "
               "non-trivial = at least one density- or inhomogeneity-dependent normaliser",
          tolerances={"fd_rtol": 1e-6, "transpose_rtol": 1e-12})
def normlist(case, ctx):
    from ciderpress.dft.feat_normalizer import FeatNormalizerList

    norms = [None if s is None else build_normalizer(s) for s in case["norms"]]
    nl = FeatNormalizerList(norms, case["slmode"])
    nf, ns, nspin = len(norms), case["nsamp"], case["nspin"]
    rng = rng_from(case["seed"])
    X = np.empty((nspin, nf, ns))
    X[:, 0] = np.exp(rng.uniform(np.log(1e-6), np.log(50), (nspin, ns)))
    if case["seed"] % 3 == 0:
        # densities below the list's clamp (cutoff = 1e-10; grid points far from the molecule): the value routine uses
        # max(rho, cutoff), so nothing depends on rho there; the steps of the FD oracle (1e-3 rho) stay below the clamp
        low = rng.integers(0, 2, (nspin, ns)).astype(bool)
        X[:, 0][low] = rng.choice([1e-14, 3e-11, 9e-11], int(low.sum()))
        if low.any():
            ctx.event("has_density_below_clamp")
    for k, row in enumerate(sl_block(case["slmode"], X[:, 0], rng)):
        X[:, 1 + k] = row
    nsl = 3 if case["slmode"] in ("npa", "nst") else 2
    X[:, nsl:] = rng.uniform(0.05, 3, (nspin, nf - nsl, ns)) * rng.choice([-1.0, 1.0], (nspin, nf - nsl, ns))
    V = rng.uniform(0.5, 1.5, X.shape)
    ctx.event("slmode=" + case["slmode"])
    kinds = sorted(set(s["kind"] for s in case["norms"] if s is not None))
    if any(k != "const" for k in kinds):
        ctx.nontrivial([case["slmode"], nspin, [None if s is None else (s["kind"], round(s["p1"], 1), round(s["p2"], 1)) for s in case["norms"]]])
    X0 = X.copy()
    back = nl.get_derivative_wrt_unnormed_features(X.copy(), V.copy())
    ctx.check(back.shape == X.shape, ("shape",))
    ctx.equal_bits(X, X0, ("input_modified",))
    # Jacobian rows from the reverse pass with one-hot cotangents; linearity ties them to `back`
    rows = []
    for j in range(nf):
        Vj = np.zeros_like(V)
        Vj[:, j] = 1.0
        rows.append(nl.get_derivative_wrt_unnormed_features(X0.copy(), Vj))
    lin = sum(V[:, j][:, None, :] * rows[j] for j in range(nf))
    sc = sum(np.abs(V[:, j][:, None, :] * rows[j]) for j in range(nf)) + 1e-300
    # The derivative with respect to a raw semilocal row is a sum over two paths (the normaliser's explicit density
    # dependence and its dependence on the inhomogeneity variable, which is itself a function of the raw rows); for a
    # `from_params` normaliser at rho = 1.3e-5 the two are -1.8143e9 and +1.8139e9 (thorough tier, seed 3), so both
    # evaluations carry rounding of 1e9 eps, not of the 4e5 that is left.  The magnitudes of the paths are taken from the
    # normalisers' own public reverse routines and added to the scale.
    from ciderpress.dft.feat_normalizer import CFC

    mode = case["slmode"]
    rho_c = np.maximum(X0[:, 0], nl.cutoff)
    chain = np.zeros_like(X0)
    if mode == "npa":
        inh = 5.0 / 3 * X0[:, 1] + X0[:, 2]
        chain[:, 1], chain[:, 2] = 5.0 / 3, 1.0
    elif mode == "np":
        inh = 5.0 / 3 * X0[:, 1]
        chain[:, 1] = 5.0 / 3
    elif mode == "nst":
        inh = X0[:, 2] / (CFC * rho_c ** (5.0 / 3))
        chain[:, 0], chain[:, 2] = 5.0 / 3 * inh / rho_c, 1.0 / (CFC * rho_c ** (5.0 / 3))
    else:
        inh = X0[:, 1] / (8 * CFC * rho_c ** (8.0 / 3))
        chain[:, 0], chain[:, 1] = 8.0 / 3 * inh / rho_c, 1.0 / (8 * CFC * rho_c ** (8.0 / 3))
    a_rho, a_inh = np.zeros_like(rho_c), np.zeros_like(rho_c)
    for k_, nrm in enumerate(norms):
        if nrm is not None:
            _, dr_, di_ = nrm.fill_bwd(V[:, k_].copy(), X0[:, k_].copy(), rho_c.copy(), inh.copy())
            a_rho += np.abs(dr_)
            a_inh += np.abs(di_)
    internal = np.abs(chain) * a_inh[:, None, :]
    internal[:, 0] += a_rho
    sc = sc + internal
    ctx.close(back / sc, lin / sc, ("reverse_linear", case["slmode"]), rtol=1e-12, scale=1.0)
    for j in range(nf):
        for i in range(nf):
            if i != j and i >= nsl:
                ctx.check(np.all(rows[j][:, i] == 0), ("reverse_crosstalk", case["slmode"]), i=i, j=j)
                continue

            def f(step, i=i, j=j):
                Xp = X0.copy()
                Xp[:, i] = X0[:, i] + step
                return nl.get_normalized_feature_vector(Xp)[:, j]

            h = 1e-3 * np.abs(X0[:, i]) + 1e-7 * (np.abs(X0[:, i]) == 0)
            fd_check_vec(ctx, f, rows[j][:, i], ("reverse", case["slmode"], "d_out%s/d_in%d" % ("SL" if j < nsl else "NL", min(i, nsl))),
                         h, rtol=1e-6, j=j, i=i)
    # forward mode per spin (2-D API)
    for s in range(nspin):
        D = rng.uniform(-1, 1, (nf, ns)) * np.abs(X0[s])
        fwd = nl.get_derivative_of_normed_features(X0[s].copy(), D.copy())

        def g(step, s=s, D=D):
            return nl.get_normalized_feature_vector((X0[s] + step * D)[None])[0]

        fd_check_vec(ctx, g, fwd, ("forward", case["slmode"]), 1e-3 * np.ones((nf, ns)), rtol=1e-6)
        # <V, J D> == <J^T V, D>, judged per sample against the size of the terms
        terms = np.sum(np.abs(V[s] * fwd), axis=0) + np.sum(np.abs(back[s] * D), axis=0) + 1e-300
        terms = terms + np.sum(internal[s] * np.abs(D), axis=0)     # the cancelling paths behind each entry (see reverse_linear)
        lhs = np.sum(V[s] * fwd, axis=0)
        rhs = np.sum(back[s] * D, axis=0)
        ctx.close(lhs / terms, rhs / terms, ("transpose", case["slmode"]), rtol=1e-12, scale=1.0)
