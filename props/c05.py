"""C05 -- every reverse-mode operator is the exact adjoint of its forward operator.

Each forward/backward pair of the nonlocal-feature pipeline is exercised *in isolation*:
<A x, y> = <x, B y> on random vectors, one-hot probes (single matrix entries A_ji vs B_ij) and,
for small layouts, dense A vs B^T entry by entry (DESIGN 5-C05).  Output buffers are pre-filled with
NaN where the wrapper documents "overwritten" and with known values where it documents "added to";
columns outside the [offset, offset+nalpha) window must come back bit-identical.

Tolerances (all relative to the size of the terms that are summed):
  dot test      |<Ax,y> - <x,By>| <= 1e-12 * max(sum_k |(Ax)_k y_k|, sum_i |x_i (By)_i|)
  entry test    |A_ji - B_ij|     <= 1e-12 * max(|A_ji|,|B_ij|) + 1e-14 * min(max|A e_i|, max|B e_j|)
                (every elementary step computes an entry as one product, or a 4-term cubic; the second
                term covers the rounding of those few terms)
  Gaussian-plan transform and the composite convolution contain Cholesky solves with the alpha overlap S:
                |lhs - rhs| <= 1e-13 * cond(S) * (|Ax||y| + |x||By|)   (norm-wise, reported separately)
"""
import numpy as np
from hypothesis import strategies as st

from cpverif import bootstrap
from cpverif import gen_layout as G
from cpverif.oracles import rng_from
from cpverif.runner import subcheck

RTOL = 1e-12
FLOOR = 1e-14
SEED = st.integers(0, 2**31 - 1)
THREADS = st.sampled_from(G.THREADS_C05)


class threads:
    def __init__(self, n):
        self.n = n

    def __enter__(self):
        bootstrap.set_threads(self.n)

    def __exit__(self, *a):
        bootstrap.set_threads(1)


# ----------------------------------------------------------------------------------------------
# the oracle

def _ovlp_cond(plan):
    """Condition number of the normalised Gaussian overlap matrix the S-solve of a Gaussian plan inverts, built from the
    plan's public ladder (alphas, alpha_norms) so that the tolerance does not depend on how the plan stores it."""
    a = np.asarray(plan.alphas, dtype=float)
    n = np.asarray(plan.alpha_norms, dtype=float)
    S = (np.pi / (a[:, None] + a[None, :])) ** 1.5 * n[:, None] * n[None, :]
    return float(np.linalg.cond(S))


def _onehot(n, i):
    e = np.zeros(n)
    e[i] = 1.0
    return e


def adjoint_suite(ctx, cls, A, B, nin, nout, seed, nrand=3, nprobe=4, dense_limit=0,
                  rtol=RTOL, floor=FLOOR, normwise=None):
    """A: flat (nin,) -> flat (nout,);  B: flat (nout,) -> flat (nin,).

    normwise: None, or a factor f: the dot test is then judged against f*(|Ax||y| + |x||By|)
    (operators containing an ill-conditioned solve) and entry tests are skipped."""
    rng = rng_from(seed)
    if nin == 0 or nout == 0:
        ctx.event("empty_operator")
        return
    worst = 0.0
    for _ in range(nrand):
        x = rng.uniform(-1, 1, nin)
        y = rng.uniform(-1, 1, nout)
        Ax = np.asarray(A(x), dtype=float).ravel()
        By = np.asarray(B(y), dtype=float).ravel()
        ctx.check(Ax.shape == (nout,), (cls, "fwd_shape"), got=Ax.shape, want=nout)
        ctx.check(By.shape == (nin,), (cls, "bwd_shape"), got=By.shape, want=nin)
        ctx.finite(Ax, (cls, "fwd_output"))
        ctx.finite(By, (cls, "bwd_output"))
        lhs, rhs = float(Ax @ y), float(x @ By)
        if normwise is None:
            scale = max(float(np.abs(Ax * y).sum()), float(np.abs(x * By).sum()))
            tol = rtol * scale
        else:
            scale = float(np.linalg.norm(Ax) * np.linalg.norm(y) + np.linalg.norm(x) * np.linalg.norm(By))
            tol = normwise * scale
        err = abs(lhs - rhs)
        if scale > 0:
            worst = max(worst, err / (tol if tol > 0 else 1e-300))
        ctx.check(err <= tol, (cls, "dot"), lhs=lhs, rhs=rhs, err=err, tol=tol, scale=scale)
        if scale == 0:
            ctx.event(cls + ":zero_operator_sample")
    ctx.measure(cls + "/dot", worst)
    if normwise is not None:
        return

    def entry_ok(aji, bij, amax, bmax, what, **kw):
        tol = rtol * max(abs(aji), abs(bij)) + floor * min(amax, bmax)
        err = abs(aji - bij)
        if tol > 0:
            ctx.measure(cls + "/entry", err / tol)
        ctx.check(err <= tol and np.isfinite(err), (cls, what), A_ji=float(aji), B_ij=float(bij), err=float(err),
                  tol=float(tol), **kw)

    if dense_limit and nin + nout <= dense_limit:
        ctx.event(cls + ":dense")
        Ad = np.empty((nout, nin))
        for i in range(nin):
            Ad[:, i] = A(_onehot(nin, i))
        Bd = np.empty((nin, nout))
        for j in range(nout):
            Bd[:, j] = B(_onehot(nout, j))
        ctx.finite(Ad, (cls, "fwd_output"))
        ctx.finite(Bd, (cls, "bwd_output"))
        cmaxA = np.abs(Ad).max(axis=0)          # per input index i
        cmaxB = np.abs(Bd).max(axis=0)          # per output index j
        tol = rtol * np.maximum(np.abs(Ad), np.abs(Bd.T)) + floor * np.minimum(cmaxA[None, :], cmaxB[:, None])
        err = np.abs(Ad - Bd.T)
        bad = err > tol
        with np.errstate(all="ignore"):
            r = np.where(tol > 0, err / np.where(tol > 0, tol, 1.0), 0.0)
        ctx.measure(cls + "/entry", float(r.max()) if r.size else 0.0)
        if bad.any():
            j, i = np.argwhere(bad)[0]
            entry_ok(Ad[j, i], Bd[i, j], cmaxA[i], cmaxB[j], "dense_entry", i=int(i), j=int(j), n_bad=int(bad.sum()),
                     nin=nin, nout=nout)
        return
    # one-hot probes from both sides: a column of A is compared with single entries of B, and a
    # column of B (a row of the transposed operator) with single entries of A
    def probe(F, Gm, nF, nG, side, count):
        idx = sorted(set([0, nF - 1] + [int(v) for v in rng.integers(0, nF, max(count - 2, 0))]))
        for i in idx:
            a = np.asarray(F(_onehot(nF, i)), dtype=float).ravel()
            ctx.finite(a, (cls, "fwd_output" if side == "A" else "bwd_output"))
            nz = np.flatnonzero(a)
            js = [int(rng.integers(0, nG))]
            if nz.size:
                js += [int(np.argmax(np.abs(a))), int(nz[-1]), int(nz[0]), int(nz[rng.integers(0, nz.size)]),
                       int(nz[np.argmin(np.abs(a[nz]))])]
            else:
                ctx.event(cls + ":zero_column_" + side)
            amax = float(np.abs(a).max())
            for j in sorted(set(js)):
                b = np.asarray(Gm(_onehot(nG, j)), dtype=float).ravel()
                ctx.finite(b, (cls, "bwd_output" if side == "A" else "fwd_output"))
                if side == "A":
                    entry_ok(a[j], b[i], amax, float(np.abs(b).max()), "entry", i=i, j=j, nin=nin, nout=nout)
                else:
                    entry_ok(b[i], a[j], float(np.abs(b).max()), amax, "entry", i=j, j=i, nin=nin, nout=nout)

    probe(A, B, nin, nout, "A", nprobe)
    probe(B, A, nout, nin, "B", nprobe)


def window_arrays(rng, nrow, nalpha, win):
    """A (nrow, stride) array with known filler outside the window and the window slice."""
    stride, off = win["stride"], win["offset"]
    filler = np.ascontiguousarray(rng.uniform(-1, 1, (nrow, stride)))
    return filler, slice(off, off + nalpha)


def check_outside(ctx, arr, filler, sl, sig):
    ctx.equal_bits(arr[:, : sl.start], filler[:, : sl.start], sig + ("left_of_window",))
    ctx.equal_bits(arr[:, sl.stop:], filler[:, sl.stop:], sig + ("right_of_window",))


def nontrivial_layout(ctx, lay, extra, key):
    if lay["kind"] == "real":
        ok = True
    else:
        nl = max(a["lmax"] for a in lay["atoms"]) + 1
        ok = nl >= 2 and (len(lay["atoms"]) >= 2 or extra)
    if ok:
        ctx.nontrivial(key)


def lay_key(lay):
    if lay["kind"] == "real":
        return ["real", lay["mol"], lay["basis"], lay["level"], lay["lmax"], lay["prune_rho"]]
    return ["synth", [(a["lmax"], a["nexp"]) for a in lay["atoms"]], [len(g["angs"]) for g in lay["grid"]],
            lay["idx_lmax"], lay["idx"]["mode"], lay["idx"]["padding"]]


# ----------------------------------------------------------------------------------------------
# 1. angular grid <-> spherical harmonics

@st.composite
def st_angc(draw):
    real = draw(st.integers(0, 5)) == 0
    lay = draw(G.st_real_layout()) if real else draw(G.st_synth_layout(max_l=4, max_nrad=8))
    nalpha = draw(st.integers(1, 12))
    return {"layout": lay, "nalpha": nalpha, "win": draw(G.st_window(nalpha)), "threads": draw(THREADS),
            "seed": draw(SEED)}


@subcheck("C05", "angc_ylm", st_angc, quick=640, thorough=10000,
          rule="AtomicGridsIndexer.reduce_angc_ylm_(a2y=True/False): synthetic indexers (1-3 atoms, 1-8 radial shells "
               "with mixed Lebedev sizes 6..50, indexer lmax 1..6) and real CiderGrids indexers (H2/HF/H2O/He, level "
               "0-1, lmax 10); nalpha 1-12, stride/offset windows accepted by the wrapper; threads 1/3/16; oracle: dot + "
               "one-hot entry tests, dense A vs B^T when inputs+outputs <= 700; output pre-filled with NaN (documented "
               "overwritten), columns outside the window must be bit-unchanged; non-trivial = >=2 distinct l and "
               "(>=2 atoms or offset>0 or stride>nalpha)",
          tolerances={"dot_rtol": RTOL, "entry_rtol": RTOL, "entry_floor": FLOOR})
def angc_ylm(case, ctx):
    L = G.layout_ns(case["layout"])
    ind = L.indexer
    nalpha, win = case["nalpha"], case["win"]
    ng, nrad, nlm = ind.all_weights.size, ind.nrad, ind.nlm
    rng = rng_from(case["seed"])
    filler, sl = window_arrays(rng, ng, nalpha, win)
    off = win["offset"] if (win["offset"] or case["seed"] % 2) else None
    ctx.event("kind=" + case["layout"]["kind"])
    ctx.event("threads=%d" % case["threads"])
    ctx.event("window=" + ("tight" if win["stride"] == nalpha else "strided"))
    nontrivial_layout(ctx, case["layout"], win["stride"] > nalpha, [lay_key(case["layout"]), nalpha, win])

    def A(x):
        gq = filler.copy()
        gq[:, sl] = x.reshape(ng, nalpha)
        gq0 = gq.copy()
        out = np.full((nrad, nlm, nalpha), np.nan)
        ind.reduce_angc_ylm_(out, gq, a2y=True, offset=off)
        ctx.equal_bits(gq, gq0, ("angc", "a2y_input_modified"))
        return out.ravel()

    def B(y):
        rlmq = np.ascontiguousarray(y.reshape(nrad, nlm, nalpha))
        r0 = rlmq.copy()
        gq = filler.copy()
        gq[:, sl] = np.nan
        ind.reduce_angc_ylm_(rlmq, gq, a2y=False, offset=off)
        ctx.equal_bits(rlmq, r0, ("angc", "y2a_input_modified"))
        check_outside(ctx, gq, filler, sl, ("angc", "y2a"))
        return gq[:, sl].ravel()

    with threads(case["threads"]):
        adjoint_suite(ctx, "angc", A, B, ng * nalpha, nrad * nlm * nalpha, case["seed"] + 1, dense_limit=700)


# ----------------------------------------------------------------------------------------------
# 2. radial grid <-> atomic orbital basis

@st.composite
def st_radorb(draw):
    real = draw(st.integers(0, 5)) == 0
    if real:
        lay = draw(G.st_real_layout(lmaxs=(1, 2, 3, 4)))
        lay["beta"] = draw(st.sampled_from([1.6, 1.8, 2.4]))
    else:
        lay = draw(G.st_synth_layout(max_l=5, max_nrad=12, lebedev=[6, 14]))
    nalpha = draw(st.integers(1, 12))
    return {"layout": lay, "nalpha": nalpha, "win": draw(G.st_window(nalpha)), "zero_output": draw(st.booleans()),
            "pass_indexer": draw(st.booleans()), "threads": draw(THREADS), "seed": draw(SEED)}


def _atco_for(lay):
    if lay["kind"] == "real":
        atco, _, _ = G.build_real_atco(lay, lay.get("beta", 1.8))
        return atco
    return G.build_atco(lay["atoms"])[0]


@subcheck("C05", "rad_orb", st_radorb, quick=640, thorough=10000,
          rule="ATCBasis.convert_rad2orb_(rad2orb=True/False): synthetic bases (per-atom lmax 0-5, 1-4 exponents per l "
               "from an ETB ladder, 1-12 radial shells per atom) and the real aug_etb_for_cider basis of H2/HF/H2O/He; "
               "loc passed as an indexer or as the raw ra_loc/ar_loc array; nalpha 1-12, stride/offset windows, "
               "zero_output True (output pre-filled with NaN) and False (known prefill must be added to); threads "
               "1/3/16; dot + one-hot entry tests, dense when inputs+outputs <= 700",
          tolerances={"dot_rtol": RTOL, "entry_rtol": RTOL, "entry_floor": FLOOR})
def rad_orb(case, ctx):
    lay = case["layout"]
    L = G.layout_ns(lay)
    ind = L.indexer
    atco = _atco_for(lay)
    nalpha, win, zero = case["nalpha"], case["win"], case["zero_output"]
    nrad, nlm, nao = ind.nrad, ind.nlm, atco.nao
    rng = rng_from(case["seed"])
    filler, sl = window_arrays(rng, nao, nalpha, win)
    pre_rlmq = np.ascontiguousarray(rng.uniform(-1, 1, (nrad, nlm, nalpha)))
    off = win["offset"] if (win["offset"] or case["seed"] % 2) else None
    ctx.event("kind=" + lay["kind"])
    ctx.event("zero_output=%s" % zero)
    ctx.event("threads=%d" % case["threads"])
    nontrivial_layout(ctx, lay, win["stride"] > nalpha, [lay_key(lay), nalpha, win, zero])

    def A(x):
        rlmq = np.ascontiguousarray(x.reshape(nrad, nlm, nalpha))
        r0 = rlmq.copy()
        puq = filler.copy()
        if zero:
            puq[:, sl] = np.nan
        loc = ind if case["pass_indexer"] else ind.ra_loc
        atco.convert_rad2orb_(rlmq, puq, loc, ind.rad_arr, rad2orb=True, offset=off, zero_output=zero)
        ctx.equal_bits(rlmq, r0, ("radorb", "r2o_input_modified"))
        check_outside(ctx, puq, filler, sl, ("radorb", "r2o"))
        res = puq[:, sl]
        return (res if zero else res - filler[:, sl]).ravel()

    def B(y):
        puq = filler.copy()
        puq[:, sl] = y.reshape(nao, nalpha)
        p0 = puq.copy()
        rlmq = np.full((nrad, nlm, nalpha), np.nan) if zero else pre_rlmq.copy()
        loc = ind if case["pass_indexer"] else ind.ar_loc
        atco.convert_rad2orb_(rlmq, puq, loc, ind.rad_arr, rad2orb=False, offset=off, zero_output=zero)
        ctx.equal_bits(puq, p0, ("radorb", "o2r_input_modified"))
        return (rlmq if zero else rlmq - pre_rlmq).ravel()

    # with zero_output=False the operator is recovered as (result - prefill): the subtraction costs
    # ~eps*|prefill| per element, which the entry floor does not cover -> entry tests only when zeroing
    with threads(case["threads"]):
        if zero:
            adjoint_suite(ctx, "radorb", A, B, nrad * nlm * nalpha, nao * nalpha, case["seed"] + 1, dense_limit=700)
        else:
            _accumulate_suite(ctx, "radorb_acc", A, B, nrad * nlm * nalpha, nao * nalpha, case["seed"] + 1)


def _accumulate_suite(ctx, cls, A, B, nin, nout, seed):
    """Operators observed as (output - known prefill): dot tests with an absolute allowance for the
    cancellation against the O(1) prefill."""
    rng = rng_from(seed)
    if nin == 0 or nout == 0:
        return
    for _ in range(3):
        x = rng.uniform(-1, 1, nin) * 8.0
        y = rng.uniform(-1, 1, nout) * 8.0
        Ax, By = A(x), B(y)
        ctx.finite(Ax, (cls, "fwd_output"))
        ctx.finite(By, (cls, "bwd_output"))
        lhs, rhs = float(Ax @ y), float(x @ By)
        scale = max(float(np.abs(Ax * y).sum()), float(np.abs(x * By).sum()))
        # each recovered element carries <= 2^-52*(|prefill| + |result|) of subtraction error
        slack = 2.3e-16 * (float(np.abs(y).sum()) + float(np.abs(x).sum())) * 2
        tol = RTOL * scale + slack
        ctx.measure(cls + "/dot", abs(lhs - rhs) / tol if tol > 0 else 0.0)
        ctx.check(abs(lhs - rhs) <= tol, (cls, "dot"), lhs=lhs, rhs=rhs, tol=tol)


# ----------------------------------------------------------------------------------------------
# 3. Gaussian convolutions in the orbital basis

@st.composite
def st_atcmul(draw):
    real = draw(st.integers(0, 7)) == 0
    if real:
        return {"real": True, "layout": draw(G.st_real_layout(levels=(0,), lmaxs=(1, 2, 3))), "nldf": draw(G.st_nldf()),
                "out_none": draw(st.booleans()), "threads": draw(THREADS), "seed": draw(SEED)}
    atoms = draw(G.st_atoms(max_natm=3, max_l=4, max_nexp=4, same_lmax=draw(st.booleans())))
    return {"real": False, "atoms": atoms, "ccl": draw(G.st_ccl()), "out_none": draw(st.booleans()),
            "threads": draw(THREADS), "seed": draw(SEED)}


@subcheck("C05", "atc_multiply", st_atcmul, quick=560, thorough=10000,
          rule="ConvolutionCollection.multiply_atc_integrals(fwd=True/False) and ConvolutionCollectionK (_vk): "
               "synthetic bases (1-3 atoms, lmax 0-4, 1-4 exponents per l; output basis derived with "
               "get_convolution_expnts_from_expnts, gbuf 2/4/inf, or identical to the input basis), nalpha 1-8, "
               "has_vj on/off, version-i contributions drawn from ids 0-7 (l=0 before l=1), before and after "
               "solve_projection_coefficients; plus the collections of real PyscfNLDFGenerators (j/i/ij/k); output "
               "passed as zeros (documented) or None; threads 1/3/16; dot + entry tests, dense when <= 700",
          tolerances={"dot_rtol": RTOL, "entry_rtol": RTOL, "entry_floor": FLOOR})
def atc_multiply(case, ctx):
    if case["real"]:
        _, _, gen = G.build_real_generator(case["layout"], case["nldf"])
        ccl = gen.ccl
        ctx.event("real:" + case["nldf"]["kind"])
        ctx.nontrivial([lay_key(case["layout"]), case["nldf"]])
    else:
        ccl = G.build_ccl(case["atoms"], case["ccl"])
        ccl.compute_integrals_()
        if case["ccl"]["solve"]:
            ccl.solve_projection_coefficients()
        ctx.event("synth:" + ("vk" if case["ccl"]["vk"] else "vj=%s,ni=%d" % (case["ccl"]["has_vj"], len(case["ccl"]["ifeat_ids"]))))
        ctx.event("solved=%s" % case["ccl"]["solve"])
        nl = max(a["lmax"] for a in case["atoms"]) + 1
        if nl >= 2 and (len(case["atoms"]) >= 2 or ccl.num_out != ccl.nalpha):
            ctx.nontrivial([[(a["lmax"], a["nexp"]) for a in case["atoms"]], case["ccl"]])
    ni, no = ccl.atco_inp.nao, ccl.atco_out.nao
    na, nb = ccl.nalpha, ccl.num_out
    ctx.event("threads=%d" % case["threads"])
    # ConvolutionCollectionK documents `output` as optional.  On trees where the default allocation
    # has the wrong size (fixed in repo commit d53b5fd) the adjoint tests still run with explicit
    # outputs and the defect is reported under its own signature at the end.
    vk_default_broken = False
    if ccl.is_vk:
        try:
            ccl.multiply_atc_integrals(np.zeros((ni, na)), fwd=True)
            ccl.multiply_atc_integrals(np.zeros((no, nb)), fwd=False)
            ctx.event("vk_default_output_ok")
        except AssertionError:
            vk_default_broken = True
    use_none = case["out_none"] and not vk_default_broken

    def A(x):
        inp = np.ascontiguousarray(x.reshape(ni, na))
        i0 = inp.copy()
        out = None if use_none else np.zeros((no, nb))
        out = ccl.multiply_atc_integrals(inp, output=out, fwd=True)
        ctx.equal_bits(inp, i0, ("atc", "fwd_input_modified"))
        ctx.check(out.shape == (no, nb), ("atc", "fwd_shape"), got=out.shape)
        return out.ravel()

    def B(y):
        inp = np.ascontiguousarray(y.reshape(no, nb))
        i0 = inp.copy()
        out = None if use_none else np.zeros((ni, na))
        out = ccl.multiply_atc_integrals(inp, output=out, fwd=False)
        ctx.equal_bits(inp, i0, ("atc", "bwd_input_modified"))
        ctx.check(out.shape == (ni, na), ("atc", "bwd_shape"), got=out.shape)
        return out.ravel()

    with threads(case["threads"]):
        adjoint_suite(ctx, "atc_vk" if ccl.is_vk else "atc", A, B, ni * na, no * nb, case["seed"], dense_limit=700)
    ctx.check(not vk_default_broken, ("vk_default_output", "AssertionError"), nao_inp=ni, nao_out=no)


# ----------------------------------------------------------------------------------------------
# 4./5. orbital basis <-> spline <-> grid

@st.composite
def st_interp(draw, small=False, force_lmax0=False):
    n1 = draw(st.sampled_from([0, 0, 1, 2]))
    n0 = draw(st.integers(0 if n1 else 1, 3 if small else 4))
    # s-only bases (interpolator nlm = 1) are legal without vector features; they used to overrun the
    # spherical-harmonic buffers (repo commit 63ed02b)
    lmax0 = force_lmax0 or (n1 == 0 and draw(st.integers(0, 7)) == 0)
    if lmax0:
        n1 = 0
        n0 = max(n0, 1)
    lay = draw(G.st_synth_layout(max_natm=3, max_l=0 if lmax0 else (3 if small else 4), max_nexp=2 if small else 3,
                                 max_nrad=4 if small else 8, lebedev=[6, 14] if small else None,
                                 min_l=1 if n1 else 0, min_l_first=0 if lmax0 else 1))
    nrad = draw(st.integers(3, 12) if small else st.integers(4, 40))
    return {"layout": lay, "n0": n0, "n1": n1, "nrad": nrad, "aparam": draw(G.pfloat(0.02, 0.08)),
            "rmax": draw(G.pfloat(0.7, 30.0)),
            "itype": draw(st.sampled_from(["plain", "direct_onsite", "direct_spline"])),
            "threads": draw(THREADS), "seed": draw(SEED)}


def interp_key(case):
    return [lay_key(case["layout"]), case["n0"], case["n1"], case["nrad"], case["itype"]]


@subcheck("C05", "orb_spline", st_interp, quick=480, thorough=8000,
          rule="LCAOInterpolator.conv2spline / spline2conv (project_conv_to_spline / project_spline_to_conv, "
               "fill_l1_coeff_fwd/bwd inside) and _fill_l1_coeff_(fwd/bwd) alone: synthetic bases with 1-3 atoms, "
               "per-atom lmax (>=1 on every atom when n1>0, the documented l-1 construction), n0 0-4 scalar and n1 0-2 "
               "vector features, spline size 4-40; spline2conv is also called with a known prefill it must add to (as "
               "LCAOInterpolatorDirect does); threads 1/3/16; dot + entry tests, dense when <= 900; non-trivial = n1>0 "
               "or >=2 atoms",
          tolerances={"dot_rtol": RTOL, "entry_rtol": RTOL, "entry_floor": FLOOR})
def orb_spline(case, ctx):
    lay = case["layout"]
    L = G.layout_ns(lay)
    atco = G.build_atco(lay["atoms"])[0]
    it = G.build_interpolator(dict(case, itype="plain"), L, atco)
    nao, nin_q, nout_q = atco.nao, it.num_in, it.num_out
    shape_s = (atco.natm, it.nrad, it.nlm, 4, nout_q)
    ctx.event("n0=%d,n1=%d" % (case["n0"], case["n1"]))
    ctx.event("threads=%d" % case["threads"])
    if it.nlm == 1:
        ctx.event("lmax=0")
    if case["n1"] > 0 or len(lay["atoms"]) >= 2:
        ctx.nontrivial(interp_key(case))
    rng = rng_from(case["seed"])
    pre = np.ascontiguousarray(rng.uniform(-1, 1, (nao, nin_q)))
    use_pre = case["seed"] % 3 == 0

    def A(x):
        f_uq = np.ascontiguousarray(x.reshape(nao, nin_q))
        f0 = f_uq.copy()
        out = it.conv2spline(f_uq)
        ctx.equal_bits(f_uq, f0, ("orb_spline", "fwd_input_modified"))
        ctx.check(out.shape == shape_s, ("orb_spline", "fwd_shape"), got=out.shape)
        return out.ravel()

    def B(y):
        f = np.ascontiguousarray(y.reshape(shape_s))
        f0 = f.copy()
        out = it.spline2conv(f)
        ctx.equal_bits(f, f0, ("orb_spline", "bwd_input_modified"))
        return out.ravel()

    with threads(case["threads"]):
        adjoint_suite(ctx, "orb_spline", A, B, nao * nin_q, int(np.prod(shape_s)), case["seed"] + 1, dense_limit=900)
        if use_pre:
            y = rng.uniform(-1, 1, shape_s)
            base = it.spline2conv(np.ascontiguousarray(y))
            acc = it.spline2conv(np.ascontiguousarray(y), f_uq=pre.copy())
            sc = float(np.max(np.abs(base)) + 1.0)
            ctx.close(acc, pre + base, ("orb_spline", "bwd_accumulate"), rtol=1e-14, scale=sc)
        if case["n1"] > 0:
            nao1 = it.l1atco.nao
            i1 = case["seed"] % case["n1"]
            o0, o1 = case["n0"] + i1, 3 * i1
            f1_fill = np.ascontiguousarray(rng.uniform(-1, 1, (nao1, 3 * case["n1"])))
            fu_fill = np.ascontiguousarray(rng.uniform(-1, 1, (nao, nin_q)))

            def A1(x):
                f_uq = fu_fill.copy()
                f_uq[:, o0] = x
                f0 = f_uq.copy()
                f1 = f1_fill.copy()
                it._fill_l1_coeff_(f_uq, f1, o0, o1, True)
                ctx.equal_bits(f_uq, f0, ("l1_coeff", "fwd_input_modified"))
                d = f1 - f1_fill
                ctx.check(np.all(np.delete(d, [o1, o1 + 1, o1 + 2], axis=1) == 0), ("l1_coeff", "fwd_outside_window"))
                return d[:, o1:o1 + 3].ravel()

            def B1(y):
                f1 = f1_fill.copy()
                f1[:, o1:o1 + 3] = y.reshape(nao1, 3)
                f10 = f1.copy()
                f_uq = np.zeros((nao, nin_q))
                it._fill_l1_coeff_(f_uq, f1, o0, o1, False)
                ctx.equal_bits(f1, f10, ("l1_coeff", "bwd_input_modified"))
                ctx.check(np.all(np.delete(f_uq, o0, axis=1) == 0), ("l1_coeff", "bwd_outside_window"))
                return f_uq[:, o0].copy()

            _accumulate_or_exact(ctx, "l1_coeff", A1, B1, nao, nao1 * 3, case["seed"] + 2)


def _accumulate_or_exact(ctx, cls, A, B, nin, nout, seed):
    """A is observed as (output - O(1) prefill): dot tests with the subtraction allowance; B exact."""
    rng = rng_from(seed)
    for _ in range(3):
        x = rng.uniform(-1, 1, nin) * 8.0
        y = rng.uniform(-1, 1, nout) * 8.0
        Ax, By = A(x), B(y)
        ctx.finite(Ax, (cls, "fwd_output"))
        ctx.finite(By, (cls, "bwd_output"))
        lhs, rhs = float(Ax @ y), float(x @ By)
        scale = max(float(np.abs(Ax * y).sum()), float(np.abs(x * By).sum()))
        tol = RTOL * scale + 4.6e-16 * float(np.abs(y).sum()) * 8.0
        ctx.measure(cls + "/dot", abs(lhs - rhs) / tol if tol > 0 else 0.0)
        ctx.check(abs(lhs - rhs) <= tol, (cls, "dot"), lhs=lhs, rhs=rhs, tol=tol)
    # one-hot entries through B (exact) against A columns recovered with the allowance
    for _ in range(4):
        i = int(rng.integers(0, nin))
        a = A(_onehot(nin, i))
        nz = np.flatnonzero(np.abs(a) > 1e-13)
        if nz.size == 0:
            continue
        j = int(nz[rng.integers(0, nz.size)])
        b = B(_onehot(nout, j))
        ctx.check(abs(a[j] - b[i]) <= RTOL * abs(b[i]) + 1e-15, (cls, "entry"), A_ji=float(a[j]), B_ij=float(b[i]))


@subcheck("C05", "spline_grid", lambda: st_interp(small=True), quick=260, thorough=5000,
          rule="interpolate_fwd / interpolate_bwd (compute_mol_convs_single_new / compute_pot_convs_single_new, "
               "add_lp1_term_fwd/bwd) and project_orb2grid / project_grid2orb (plus add_lp1_onsite_new_fwd/bwd, "
               "convert_rad2orb_, reduce_angc_ylm_ on the on-site path) for LCAOInterpolator and LCAOInterpolatorDirect "
               "with onsite_direct on and off: synthetic layouts (1-3 atoms, 1-4 radial shells of 6/14 points, index map "
               "identity/permutation/strict subset, padding 0/3/7), n0 0-3, n1 0-2, spline size 3-12 with r_max 0.7-30 "
               "bohr so that some points fall beyond the last knot; grid input copied (the backward routine overwrites "
               "its dummy l+1 columns); threads 1/3/16; dot + entry tests, dense when <= 900",
          tolerances={"dot_rtol": RTOL, "entry_rtol": RTOL, "entry_floor": FLOOR})
def spline_grid(case, ctx):
    lay = case["layout"]
    L = G.layout_ns(lay)
    atco = G.build_atco(lay["atoms"])[0]
    it = G.build_interpolator(case, L, atco)
    direct = case["itype"] != "plain"
    it.set_coords(L.coords)
    nused = it.all_coords.shape[0]
    ngout = L.coords.shape[0] if direct else nused
    nao, nin_q, nout_q = atco.nao, it.num_in, it.num_out
    shape_s = (atco.natm, it.nrad, it.nlm, 4, nout_q)
    ctx.event("itype=" + case["itype"])
    ctx.event("n0=%d,n1=%d" % (case["n0"], case["n1"]))
    ctx.event("idx=" + lay["idx"]["mode"])
    ctx.event("threads=%d" % case["threads"])
    if it.nlm == 1:
        ctx.event("lmax=0")
    far = int(np.sum(np.linalg.norm(it.all_coords[:, None, :] - L.atom_coords[None], axis=2) > case["rmax"]))
    if far:
        ctx.event("points_beyond_last_knot")
    if case["n1"] > 0 or len(lay["atoms"]) >= 2 or direct:
        ctx.nontrivial(interp_key(case) + [lay["idx"]["mode"], lay["idx"]["padding"]])

    def A(x):
        f = np.ascontiguousarray(x.reshape(shape_s))
        f0 = f.copy()
        out = it.interpolate_fwd(f)
        ctx.equal_bits(f, f0, ("spline_grid", "fwd_input_modified"))
        ctx.check(out.shape == (nused, nout_q), ("spline_grid", "fwd_shape"), got=out.shape)
        return out.ravel()

    def B(y):
        out = it.interpolate_bwd(np.ascontiguousarray(y.reshape(nused, nout_q)).copy())
        ctx.check(out.shape == shape_s, ("spline_grid", "bwd_shape"), got=out.shape)
        return out.ravel()

    def PA(x):
        f_uq = np.ascontiguousarray(x.reshape(nao, nin_q))
        f0 = f_uq.copy()
        out = it.project_orb2grid(f_uq)
        ctx.equal_bits(f_uq, f0, ("orb_grid", "fwd_input_modified"))
        ctx.check(out.shape == (ngout, nout_q), ("orb_grid", "fwd_shape"), got=out.shape)
        return out.ravel()

    def PB(y):
        out = it.project_grid2orb(np.ascontiguousarray(y.reshape(ngout, nout_q)).copy())
        ctx.check(out.shape == (nao, nin_q), ("orb_grid", "bwd_shape"), got=out.shape)
        return out.ravel()

    with threads(case["threads"]):
        adjoint_suite(ctx, "spline_grid:" + case["itype"], A, B, int(np.prod(shape_s)), nused * nout_q,
                      case["seed"] + 1, nprobe=3, dense_limit=0)
        # many tiny parallel regions per application: with a team of 16 the dense probe is kept smaller
        # composite of two sums (orbital -> spline -> grid) with sign-alternating spline weights: the intermediate terms of
        # an entry can exceed the entry by the ratio to the column maximum, so the absolute floor is 1e-13 of the column
        # maximum here (measured in the thorough tier, 59k cases: 3.4e-14 on an entry 40x below its column maximum) and the relative
        # tolerance 1e-11 (measured 1.8e-12 on a column maximum of 7e-8); a transposition error is O(1) relative
        adjoint_suite(ctx, "orb_grid:" + case["itype"], PA, PB, nao * nin_q, ngout * nout_q, case["seed"] + 2,
                      dense_limit=900 if case["threads"] < 16 else 350, floor=1e-13, rtol=1e-11)


# ----------------------------------------------------------------------------------------------
# 5b. the interpolators of real generators, step by step

@st.composite
def st_realinterp(draw):
    return {"layout": draw(G.st_real_layout(levels=(0,), lmaxs=(2, 3, 4))), "nldf": draw(G.st_nldf()),
            "threads": draw(THREADS), "seed": draw(SEED)}


@subcheck("C05", "real_interp", st_realinterp, quick=64, thorough=1200,
          rule="the interpolator of a real PyscfNLDFGenerator (H2/HF/H2O/He, sto-3g/6-31g/def2-svp, level-0 grids incl. "
               "density-pruned index maps, lmax 2-4, versions j/i/ij/k, interpolators onsite_direct / onsite_spline / "
               "train_gen, spline size 60-200): conv2spline/spline2conv, interpolate_fwd/bwd and project_orb2grid/"
               "project_grid2orb, each pair alone at the exact tolerances (dot + one-hot entry tests, no solve inside); "
               "threads 1/3/16; non-trivial always (>=2 l, real grids)",
          tolerances={"dot_rtol": RTOL, "entry_rtol": RTOL, "entry_floor": FLOOR})
def real_interp(case, ctx):
    _, grids, gen = G.build_real_generator(case["layout"], case["nldf"])
    it = gen.interpolator
    ind = grids.grids_indexer
    direct = hasattr(it, "grids_indexer")
    nused = it.all_coords.shape[0]
    ngout = nused + (ind.padding if direct else 0)
    nao, nin_q, nout_q = it.atco.nao, it.num_in, it.num_out
    shape_s = (it.atco.natm, it.nrad, it.nlm, 4, nout_q)
    ns = case["nldf"]
    ctx.event("%s/%s n0=%d n1=%d" % (ns["kind"], ns["interp"], it._n0, it._n1))
    ctx.event("threads=%d" % case["threads"])
    ctx.nontrivial([lay_key(case["layout"]), ns])

    def A(x):
        return it.conv2spline(np.ascontiguousarray(x.reshape(nao, nin_q))).ravel()

    def B(y):
        return it.spline2conv(np.ascontiguousarray(y.reshape(shape_s))).ravel()

    def IA(x):
        return it.interpolate_fwd(np.ascontiguousarray(x.reshape(shape_s))).ravel()

    def IB(y):
        return it.interpolate_bwd(np.ascontiguousarray(y.reshape(nused, nout_q)).copy()).ravel()

    def PA(x):
        return it.project_orb2grid(np.ascontiguousarray(x.reshape(nao, nin_q))).ravel()

    def PB(y):
        return it.project_grid2orb(np.ascontiguousarray(y.reshape(ngout, nout_q)).copy()).ravel()

    with threads(case["threads"]):
        adjoint_suite(ctx, "real_orb_spline", A, B, nao * nin_q, int(np.prod(shape_s)), case["seed"], nrand=2, nprobe=3)
        adjoint_suite(ctx, "real_spline_grid:" + ns["interp"], IA, IB, int(np.prod(shape_s)), nused * nout_q,
                      case["seed"] + 1, nrand=2, nprobe=3)
        adjoint_suite(ctx, "real_orb_grid:" + ns["interp"], PA, PB, nao * nin_q, ngout * nout_q, case["seed"] + 2,
                      nrand=2, nprobe=3)


# ----------------------------------------------------------------------------------------------
# 6. interpolation-coefficient transforms

@st.composite
def st_plan(draw):
    nspec = draw(G.st_nldf())
    lambd = draw(st.sampled_from([1.6, 1.8, 2.0, 2.5, 3.0]))
    nmax = {1.6: 9, 1.8: 11, 2.0: 12, 2.5: 14, 3.0: 16}[lambd]
    return {"nldf": nspec, "lambd": lambd, "nalpha": draw(st.integers(2, nmax)), "alpha0": draw(G.pfloat(0.003, 0.05)),
            "coef_order": draw(st.sampled_from(["gq", "qg"])), "formula": draw(st.sampled_from(["etb", "zexp"])),
            "i": draw(st.sampled_from([-1, 0])), "inplace": draw(st.booleans()), "view": draw(st.booleans()),
            "n": draw(st.integers(1, 9)), "seed": draw(SEED)}


@subcheck("C05", "plan_transform", st_plan, quick=480, thorough=8000,
          rule="NLDFGaussianPlan / NLDFSplinePlan.get_transformed_interpolation_terms(fwd=True) vs (fwd=False) for every "
               "NLDF version (k and spline plans: identity), coef_order gq/qg, etb/zexp ladders with lambda 1.6-3 and "
               "2-16 exponents, inplace on contiguous arrays and on the column view the generator passes; the Gaussian "
               "transform is a Cholesky solve with the alpha overlap S, so the dot test is judged norm-wise with "
               "1e-13*cond(S) (cases with cond(S)>1e9 are counted but not non-trivial); inplace=False must leave the "
               "input bit-unchanged; non-trivial = Gaussian plan, non-k, cond(S)<=1e9",
          tolerances={"normwise": "1e-13*cond(S)", "identity_plans": 0.0})
def plan_transform(case, ctx):
    from ciderpress.dft.plans import NLDFGaussianPlan, NLDFSplinePlan

    ns = case["nldf"]
    cls = NLDFGaussianPlan if ns["plan"] == "gaussian" else NLDFSplinePlan
    formula = case["formula"] if ns["plan"] == "spline" else "etb"
    plan = cls(G.nldf_settings(ns), 1, case["alpha0"], case["lambd"], case["nalpha"], coef_order=case["coef_order"],
               alpha_formula=formula)
    na, n, gq = plan.nalpha, case["n"], case["coef_order"] == "gq"
    i = case["i"] if plan.nldf_settings.num_feat_param_sets > 0 else -1
    identity = ns["plan"] == "spline" or (i == -1 and ns["kind"] == "k")
    ctx.event("plan=%s kind=%s" % (ns["plan"], ns["kind"]))
    ctx.event("order=" + case["coef_order"])
    if identity:
        normwise = 1e-15
        cond = 1.0
    else:
        cond = _ovlp_cond(plan)
        normwise = 1e-13 * cond
        ctx.event("cond<=1e9" if cond <= 1e9 else "cond>1e9")
        if cond <= 1e9:
            ctx.nontrivial([ns["kind"], case["lambd"], case["nalpha"], case["coef_order"], case["inplace"], case["view"]])
    rng = rng_from(case["seed"])
    extra = 2 if case["view"] else 0

    def apply(v, fwd):
        # the generator hands over conv_vq[:, :nalpha], a column view of a wider gq buffer
        if gq:
            big = np.ascontiguousarray(rng.uniform(-1, 1, (n, na + extra)))
            big[:, :na] = v.reshape(n, na)
            p = big[:, :na]
        else:
            big = np.ascontiguousarray(rng.uniform(-1, 1, (na + extra, n)))
            big[:na] = v.reshape(na, n)
            p = big[:na]
        b0 = big.copy()
        out = plan.get_transformed_interpolation_terms(p, i=i, fwd=fwd, inplace=case["inplace"])
        if not case["inplace"]:
            ctx.equal_bits(big, b0, ("plan", "input_modified_without_inplace"))
        elif extra:
            rest = big[:, na:] if gq else big[na:]
            rest0 = b0[:, na:] if gq else b0[na:]
            ctx.equal_bits(rest, rest0, ("plan", "inplace_touched_outside_view"))
        ctx.check(out.shape == p.shape, ("plan", "shape"), got=out.shape, want=p.shape)
        return np.array(out, dtype=float).ravel()

    adjoint_suite(ctx, "plan:" + ("identity" if identity else "gaussian"), lambda x: apply(x, True),
                  lambda y: apply(y, False), n * na, n * na, case["seed"] + 1, nrand=4, normwise=normwise)


# ----------------------------------------------------------------------------------------------
# 7. SDMX orbital contractions

SDMX_KINDS = G.SDMX_KINDS


@st.composite
def st_sdmx(draw):
    return {"mol": draw(st.sampled_from(["H2", "HF", "H2O", "LiH"])),
            # cc-pvdz: generally contracted shells (several radial functions per shell, NCTR_OF > 1)
            "basis": draw(st.sampled_from(["sto-3g", "6-31g", "def2-svp", "cc-pvdz"])),
            "kind": draw(st.sampled_from(SDMX_KINDS)), "ngrids": draw(st.sampled_from([1, 2, 3, 5, 17, 56, 57, 130])),
            "threads": draw(THREADS), "seed": draw(SEED)}


@subcheck("C05", "sdmx_contract", st_sdmx, quick=260, thorough=5000,
          rule="EXXSphGenerator._contract_ao_to_bas / _contract_ao_to_bas_bwd (SDMXcontract_ao_to_bas{,_bwd} for l=0-only "
               "settings, SDMXcontract_ao_to_bas_l1{,_bwd} for settings with vector terms), contract_shl_to_alpha_l1 / "
               "_bwd called with the arguments get_features / _eval_crho_potential pass, and their composition vs "
               "_eval_crho_potential: H2/HF/H2O/LiH with sto-3g, 6-31g, def2-svp (contracted shells, d functions), all "
               "five SDMX settings classes, 1-130 grid points (around BLKSIZE 56 and the 128 alpha-block); threads "
               "1/3/16; dot + entry tests, dense when <= 900; non-trivial = vector terms or contracted shells",
          tolerances={"dot_rtol": RTOL, "entry_rtol": RTOL, "entry_floor": FLOOR})
def sdmx_contract(case, ctx):
    import ctypes

    from ciderpress.pyscf.sdmx import libcider

    mol, gen, coords, nrf = G.sdmx_setup(case)
    ng, nao, d = coords.shape[0], mol.nao_nr(), gen.deriv
    ncomp = 1 + 6 * d
    shls, ao_loc = (0, mol.nbas), mol.ao_loc_nr()
    ctx.event("kind=%s deriv=%d" % (case["kind"], d))
    ctx.event("threads=%d" % case["threads"])
    if d == 1 or nrf != mol.nbas:
        ctx.nontrivial([case["mol"], case["basis"], case["kind"], ng])

    def A(x):
        # c0 as _dot_ao_dm returns it: (ngrids, nao), Fortran ordered
        c0 = np.asfortranarray(x.reshape(ng, nao))
        c00 = c0.copy(order="F")
        b0 = gen._contract_ao_to_bas(mol, c0, shls, ao_loc, coords)
        ctx.equal_bits(c0, c00, ("sdmx_ao", "fwd_input_modified"))
        ctx.check(b0.shape == (ncomp, nrf, ng), ("sdmx_ao", "fwd_shape"), got=b0.shape)
        return b0.ravel()

    def B(y):
        b0 = np.ascontiguousarray(y.reshape(ncomp, nrf, ng))
        b00 = b0.copy()
        c0 = gen._contract_ao_to_bas_bwd(mol, b0, shls, ao_loc, coords)
        ctx.equal_bits(b0, b00, ("sdmx_ao", "bwd_input_modified"))
        ctx.check(c0.shape == (ng, nao), ("sdmx_ao", "bwd_shape"), got=c0.shape)
        return np.ascontiguousarray(c0).ravel()

    with threads(case["threads"]):
        adjoint_suite(ctx, "sdmx_ao:l%d" % d, A, B, ng * nao, ncomp * nrf * ng, case["seed"] + 1, dense_limit=900)
        if d == 0:
            return
        cao = gen.get_cao(mol, coords, save_buf=False)
        nalpha = gen.plan.nalpha
        ctx.check(cao.shape == (2 * nalpha, ng, nrf), ("sdmx_shl", "cao_shape"), got=cao.shape)

        def SA(x):
            b0 = np.ascontiguousarray(x.reshape(7, nrf, ng))
            b00 = b0.copy()
            tmp = np.full((4, nalpha, ng), np.nan)
            libcider.contract_shl_to_alpha_l1(ctypes.c_int(ng), ctypes.c_int(nalpha), ctypes.c_int(cao.shape[-1]),
                                              tmp.ctypes.data_as(ctypes.c_void_p), b0.ctypes.data_as(ctypes.c_void_p),
                                              cao.ctypes.data_as(ctypes.c_void_p))
            ctx.equal_bits(b0, b00, ("sdmx_shl", "fwd_input_modified"))
            return tmp.ravel()

        def SB(y):
            tmp2 = np.ascontiguousarray(y.reshape(4, nalpha, ng))
            t0 = tmp2.copy()
            b0 = np.full((7, nrf, ng), np.nan).transpose(0, 2, 1)
            libcider.contract_shl_to_alpha_l1_bwd(ctypes.c_int(ng), ctypes.c_int(nalpha), ctypes.c_int(cao.shape[-1]),
                                                  tmp2.ctypes.data_as(ctypes.c_void_p), b0.ctypes.data_as(ctypes.c_void_p),
                                                  cao.ctypes.data_as(ctypes.c_void_p))
            ctx.equal_bits(tmp2, t0, ("sdmx_shl", "bwd_input_modified"))
            return np.ascontiguousarray(b0.transpose(0, 2, 1)).ravel()

        adjoint_suite(ctx, "sdmx_shl", SA, SB, 7 * nrf * ng, 4 * nalpha * ng, case["seed"] + 2, dense_limit=900)

        def CB(y):
            tmp2 = np.ascontiguousarray(y.reshape(4, nalpha, ng))
            c0 = gen._eval_crho_potential(mol, coords, cao, tmp2, shls, ao_loc)
            return np.ascontiguousarray(c0).ravel()

        adjoint_suite(ctx, "sdmx_crho", lambda x: SA(A(x)), CB, ng * nao, 4 * nalpha * ng, case["seed"] + 3, nprobe=3)


# ----------------------------------------------------------------------------------------------
# 8. the composite convolution (conditioning-limited; reported separately)

@st.composite
def st_composite(draw):
    return {"layout": draw(G.st_real_layout(levels=(0,), lmaxs=(2, 3, 4))), "nldf": draw(G.st_nldf()),
            "threads": draw(THREADS), "seed": draw(SEED)}


@subcheck("C05", "composite_conv", st_composite, quick=96, thorough=1600, max_shards=12,
          rule="LCAONLDFGenerator._perform_fwd_convolution vs _perform_bwd_convolution of real PyscfNLDFGenerators "
               "(H2/HF/H2O/He, sto-3g/6-31g/def2-svp, level 0, lmax 2-4, versions j/i/ij/k x GGA/MGGA x gaussian/spline "
               "plans x 3 interpolators); the chain contains Cholesky solves with the alpha overlap S (Gaussian plans) "
               "and with the ETB basis overlaps, so the bound is norm-wise: |<Ax,y>-<x,By>| <= 1e-13*max(cond(S),1e3)"
               "*(|Ax||y|+|x||By|); reported separately from the per-step checks; non-trivial = bound below 1e-4",
          tolerances={"normwise": "1e-13*max(cond(S),1e3)"})
def composite_conv(case, ctx):
    _, grids, gen = G.build_real_generator(case["layout"], case["nldf"])
    ind = grids.grids_indexer
    ng, na = ind.all_weights.size, gen.plan.nalpha
    it = gen.interpolator
    ngout = it.all_coords.shape[0] + (ind.padding if hasattr(it, "grids_indexer") else 0)
    nout = it.num_out
    ns = case["nldf"]
    ctx.event("%s/%s/%s" % (ns["kind"], ns["plan"], ns["interp"]))
    # Gaussian plans: every version applies the S-solve at least once (k: on the output side, i=0)
    cond = _ovlp_cond(gen.plan) if ns["plan"] == "gaussian" else 1.0
    fac = 1e-13 * max(cond, 1e3)
    ctx.event("bound<1e-4" if fac < 1e-4 else "bound_vacuous")
    if fac < 1e-4:
        ctx.nontrivial([lay_key(case["layout"]), ns])

    def A(x):
        theta = np.ascontiguousarray(x.reshape(ng, na))
        out = gen._perform_fwd_convolution(theta)
        ctx.check(out.shape == (ngout, nout), ("composite", "fwd_shape"), got=out.shape, want=(ngout, nout))
        return np.array(out).ravel()

    def B(y):
        out = gen._perform_bwd_convolution(np.ascontiguousarray(y.reshape(ngout, nout)).copy())
        return np.array(out).ravel()

    with threads(case["threads"]):
        adjoint_suite(ctx, "composite:" + ns["plan"], A, B, ng * na, ngout * nout, case["seed"], nrand=2, normwise=fac)


# ----------------------------------------------------------------------------------------------
# 9. s-only bases (nlm = 1) under the sanitizer build

@st.composite
def st_lmax0(draw):
    if draw(st.booleans()):
        inner = draw(st_interp(small=True, force_lmax0=True))
        inner["threads"] = draw(st.sampled_from([1, 3]))
        return {"mode": "synth", "inner": inner}
    ns = draw(G.st_nldf())
    ns["l1"] = []          # vector features need lmax >= 1 (documented l-1 construction)
    if ns["kind"] in ("i", "ij") and not ns.get("l0"):
        ns["l0"] = ["se_ap"]
    ns["nrad"] = 60
    lay = draw(G.st_real_layout(mols=("He", "H2", "HF"), levels=(0,), lmaxs=(0,)))
    return {"mode": "real", "inner": {"layout": lay, "nldf": ns, "threads": draw(st.sampled_from([1, 3])), "seed": draw(SEED)}}


@subcheck("C05", "lmax0_asan", st_lmax0, quick=24, thorough=300, variant="asan", max_shards=8,
          rule="s-only expansion bases (interpolator nlm = 1): the spline_grid checks on synthetic all-s layouts and the "
               "real_interp checks on PyscfNLDFGenerator.from_mol_and_settings(..., lmax=0) for He/H2/HF, run with the "
               "ASan+UBSan build of the C libraries (a sanitizer report is a violation of the case in flight); regression "
               "stratum for the lmax = 0 overrun of recursive_sph_harm (repo commit 63ed02b); non-trivial always",
          tolerances={"dot_rtol": RTOL, "entry_rtol": RTOL, "entry_floor": FLOOR})
def lmax0_asan(case, ctx):
    ctx.event("mode=" + case["mode"])
    ctx.nontrivial([case["mode"], case["inner"].get("itype"), case["inner"].get("nldf", {}).get("kind"),
                    case["inner"].get("nldf", {}).get("interp"), case["inner"]["seed"] % 7])
    if case["mode"] == "synth":
        spline_grid(case["inner"], ctx)
    else:
        real_interp(case["inner"], ctx)
