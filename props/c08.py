"""C08 -- vanishing or extreme densities never give non-finite or spurious contributions."""
import numpy as np
from hypothesis import strategies as st

from cpverif import gen_mol as G
from cpverif.oracles import rng_from
from cpverif.runner import subcheck

CFC = 0.3 * (3 * np.pi**2) ** (2.0 / 3)
TOL = {"finite": "every returned array finite", "below_cutoff": "exactly 0"}

# density values on and around every cutoff used in the code
EPS = 2.0**-52
RHO_SPECIAL = [0.0, 5e-324, 1e-300, 1e-30, 1e-16, 1e-16 * (1 + EPS), 1e-10 * (1 - EPS), 1e-10, 1e-10 * (1 + EPS),
               5e-10, 1e-9 * (1 - EPS), 1e-9, 1e-9 * (1 + EPS), 2e-9, 1e-6 * (1 - EPS), 1e-6, 1e-6 * (1 + EPS), 1e-3,
               1.0, 1e4]


@st.composite
def st_points(draw, nmin=1, nmax=10):
    """per-point (rho, |grad|, tau) classes, boundary biased; returned as class labels + a seed"""
    n = draw(st.integers(nmin, nmax))
    pts = []
    for _ in range(n):
        pts.append({"rho": draw(st.one_of(st.sampled_from(list(range(len(RHO_SPECIAL)))), st.just(-1))),
                    "grad": draw(st.sampled_from(["zero", "tiny", "consistent", "huge"])),
                    "tau": draw(st.sampled_from(["zero", "tauw", "tauw_eps", "tau0", "sum", "huge"]))})
    return {"pts": pts, "seed": draw(st.integers(0, 2**31 - 1))}


def build_rho_data(pspec, nspin, polarized_empty=False):
    """(nspin, 5, n) density data, rho >= 0, all classes admissible per the property text"""
    rng = rng_from(pspec["seed"])
    n = len(pspec["pts"])
    out = np.zeros((nspin, 5, n))
    for s in range(nspin):
        for k, p in enumerate(pspec["pts"]):
            rho = RHO_SPECIAL[p["rho"]] if p["rho"] >= 0 else float(np.exp(rng.uniform(np.log(1e-20), np.log(1e3))))
            rho = rho / nspin if p["rho"] < 0 else rho
            u = rng.normal(size=3)
            u /= np.linalg.norm(u)
            # physically admissible gradients: |grad n| scales with n.  "huge" is a large logarithmic derivative
            # (|grad n| = 200 n: steeper than any 1s core), which makes the *reduced* gradient s ~ n^(-1/3) astronomically
            # large at small n, as in real density tails; an absolute 1e10 at n = 5e-324 is not a density.
            g = {"zero": 0.0, "tiny": min(1e-200, rho), "consistent": rho ** (4.0 / 3) * rng.uniform(0.1, 5),
                 "huge": 200.0 * rho}[p["grad"]]
            sigma = g * g
            tauw = sigma / (8 * rho) if rho > 0 else 0.0
            if not np.isfinite(tauw):
                tauw = 1e300
            tau0 = CFC * rho ** (5.0 / 3)
            tau = {"zero": 0.0, "tauw": tauw, "tauw_eps": tauw * (1 + 4 * EPS), "tau0": tau0, "sum": tauw + tau0,
                   "huge": 100.0 * (tauw + tau0)}[p["tau"]]
            out[s, 0, k] = rho
            out[s, 1:4, k] = g * u
            out[s, 4, k] = min(tau, 1e300)
    if polarized_empty and nspin == 2:
        out[1] = 0.0
    return out


def pclass(pspec):
    return sorted(set((p["rho"], p["grad"], p["tau"]) for p in pspec["pts"]))


# ------------------------------------------------------------------------------------------------
@st.composite
def st_layer(draw):
    return {"points": draw(st_points()), "nspin": draw(st.sampled_from([1, 2])),
            "mode": draw(st.sampled_from(["npa", "nst", "np", "ns"])), "empty": draw(st.booleans()),
            "a0": draw(st.floats(0.7, 4.0)), "grad_mul": draw(st.sampled_from([0.0, 0.03, 0.1])),
            "tau_mul": draw(st.sampled_from([0.0, 0.03, 0.1])), "map": draw(st.integers(0, 10**6))}


@subcheck("C08", "layer_extremes", st_layer, quick=4000, thorough=80000, tolerances=TOL,
          rule="boundary-valued per-point density data (rho from the table of cutoff-adjacent values {0, 5e-324, 1e-300, "
               "1e-16, 1e-10(1+-ulp), 1e-9(1+-ulp), 1e-6(1+-ulp), 1, 1e4} or log-uniform; |grad n| in {0, tiny, consistent "
               "n^(4/3), 200 n (huge reduced gradient at small n)}; tau in {0, tau_W, tau_W(1+ulp), tau_0, tau_W+tau_0, "
               "100(tau_W+tau_0)}; nspin 1/2 incl. an empty channel) fed to "
               "the semilocal plan (features and back-propagation), the exponent functions (value and derivatives, zero "
               "derivative below the exponent cutoff), the normaliser list (forward and reverse) and every feature-map class "
               "on its semilocal inputs: every output finite; where a spin channel's semilocal features are bit-identical under a rescaling of "
               "its gradient and tau and its density is below the 1e-10 clamp, the back-propagated potential for gradient and tau is exactly zero; "
               "non-trivial = a point on each side of a cutoff")
def layer_extremes(case, ctx):
    from ciderpress.dft import transform_data as T
    from ciderpress.dft.feat_normalizer import FeatNormalizerList, get_normalizer_from_exponent_params
    from ciderpress.dft.plans import SemilocalPlan
    from ciderpress.dft.settings import SemilocalSettings, get_cider_exponent, get_cider_exponent_gga

    nspin, mode = case["nspin"], case["mode"]
    rd = build_rho_data(case["points"], nspin, case["empty"])
    rhos = rd[:, 0].sum(0)
    ctx.event("mode=" + mode)
    if np.any(rhos < 1e-10) and np.any(rhos > 1e-6):
        ctx.nontrivial([mode, nspin, pclass(case["points"])])
    for p in case["points"]["pts"]:
        ctx.event("grad=" + p["grad"])
        ctx.event("tau=" + p["tau"])
    plan = SemilocalPlan(SemilocalSettings(mode), nspin)
    with np.errstate(all="ignore"):
        feat = plan.get_feat(rd.copy())
        ctx.finite(feat, ("sl_feat", mode))
        rng = rng_from(case["points"]["seed"] + 5)
        vf = rng.normal(size=feat.shape)
        vxc = plan.get_vxc(rd.copy(), vf)
        ctx.finite(vxc, ("sl_vxc", mode))
        # "no spurious contributions": where the semilocal features do not respond to the gradient and kinetic-energy
        # density at all (a clamped channel: the value is bit-identical for scaled gradient / tau), the potential
        # handed back for those inputs is exactly zero there
        rd2 = rd.copy()
        rd2[:, 1:4] *= 1.7
        rd2[:, 4] *= 1.3
        feat2 = plan.get_feat(rd2.copy())
        if mode in ("npa", "np") and feat2.shape == feat.shape and np.all(np.isfinite(feat2)):     # the modes with clamped s^2 / alpha
            frozen = np.all(feat2 == feat, axis=1)            # (nspin, n): every feature of that channel unchanged
            frozen &= (np.abs(rd[:, 1:4]).sum(1) > 0) | (rd[:, 4] > 0)
            # only the documented clamp (channel density below ALPHA_TOL = 1e-10): a feature can also be unchanged
            # because sigma underflows or because alpha sits on its floor, where a non-zero derivative is legitimate
            frozen &= rd[:, 0] < 1e-10
            if frozen.any():
                ctx.event("has_clamped_channel_with_gradient")
                vg = np.asarray(vxc)
                ctx.check(vg.shape == rd.shape, ("sl_vxc", "shape", mode), got=list(vg.shape))
                leak = np.abs(vg[:, 1:5]).max(1)
                ctx.check(bool(np.all(leak[frozen] == 0)), ("sl_vxc", "spurious_potential_in_clamped_channel", mode),
                          worst=float(leak[frozen].max()), rho=rd[:, 0][frozen][:4])
        # exponents
        sig = (rd[:, 1:4] ** 2).sum(1)
        for s in range(nspin):
            a = get_cider_exponent(rd[s, 0].copy(), sig[s].copy(), rd[s, 4].copy(), a0=case["a0"], grad_mul=case["grad_mul"],
                                   tau_mul=min(case["tau_mul"], case["a0"] / 6.0), rhocut=1e-10 / nspin, nspin=nspin)
            g = get_cider_exponent_gga(rd[s, 0].copy(), sig[s].copy(), a0=case["a0"], grad_mul=case["grad_mul"],
                                       rhocut=1e-10 / nspin, nspin=nspin)
            for k, arr in enumerate(a):
                ctx.finite(arr, ("exponent_mgga", "out%d" % k))
            for k, arr in enumerate(g):
                ctx.finite(arr, ("exponent_gga", "out%d" % k))
            below = rd[s, 0] < 1e-10 / nspin
            for k in (1, 2, 3):
                ctx.check(np.all(a[k][below] == 0), ("exponent_mgga", "derivative_below_cutoff_nonzero"))
            for k in (1, 2):
                ctx.check(np.all(g[k][below] == 0), ("exponent_gga", "derivative_below_cutoff_nonzero"))
            ctx.check(np.all(a[0] >= 0) and np.all(g[0] >= 0), ("exponent", "negative"))
        # normaliser list on (semilocal rows + two nonlocal rows)
        nsl = feat.shape[1]
        nl = FeatNormalizerList([None] * nsl + [get_normalizer_from_exponent_params(0.0, -1.0, case["a0"], 0.0),
                                                get_normalizer_from_exponent_params(-1.0, -1.0, case["a0"], 0.0,
                                                                                    gga=mode in ("np", "ns"))], mode)
        X = np.concatenate([feat, rng.uniform(-2, 2, (nspin, 2, feat.shape[-1]))], axis=1)
        XN = nl.get_normalized_feature_vector(X.copy())
        ctx.finite(XN, ("normalizer_fwd", mode))
        back = nl.get_derivative_wrt_unnormed_features(X.copy(), rng.normal(size=X.shape))
        ctx.finite(back, ("normalizer_bwd", mode))
        # feature maps on the semilocal rows (their admissible domain includes these extremes)
        mrng = rng_from(case["map"])
        gam = float(np.exp(mrng.uniform(np.log(0.05), np.log(20))))
        if mode in ("npa", "np"):
            maps = [T.UMap(1, gam), T.VMap(1, gam, 2.0, 1.0), T.VZMap(1, gam), T.ZMap(1, gam), T.EMap(1, gam),
                    T.SignedUMap(1, gam), T.SLNMap(0, gam), T.LMap(1)]
            if mode == "npa":
                maps += [T.UMap(2, gam), T.TMap(1, 2), T.V3Map(1, 2, gam), T.OmegaMap(0, 1, 2, 1.0, 0.5, gam)]
        else:
            maps = [T.SLXMap(0, 1, gam), T.SLNMap(0, gam), T.SLTWMap(0, 1)]
            if mode == "nst":
                maps += [T.SLBMap(0, 1, 2), T.SLTMap(0, 2), T.SLDMap(0, 1, 2)]
        fl = T.FeatureList(maps)
        for s in range(nspin):
            y = np.zeros((len(maps), feat.shape[-1]))
            fl.fill_vals_(y, feat[s].copy())
            for k, m in enumerate(maps):
                ctx.finite(y[k], ("map_value", type(m).__name__), mode=mode)
            d = np.zeros_like(feat[s])
            for k, m in enumerate(maps):
                one = np.zeros_like(feat[s])
                m.fill_deriv_(one, np.ones(feat.shape[-1]), feat[s].copy())
                ctx.finite(one, ("map_deriv", type(m).__name__), mode=mode)


# ------------------------------------------------------------------------------------------------
@st.composite
def st_evalxc(draw):
    model = draw(G.st_model(families=("sl", "nldf", "sdmx", "nldf+sdmx"), max_kernels=2))
    return {"model": model, "points": draw(st_points(nmin=2, nmax=10)), "nspin": draw(st.sampled_from([1, 2])),
            "empty": draw(st.booleans()), "xmix": draw(st.sampled_from([1.0, 0.5])),
            "slxc": draw(st.sampled_from(["", "", "PBE", "LDA_X"])),
            "rhocut": draw(st.sampled_from([None, 1e-6, 1e-10])), "nl": draw(st.sampled_from(["o1", "zero", "mixed"]))}


def make_numint(model, slxc, xmix, rhocut, nspin):
    from ciderpress.dft.plans import FracLaplPlan, SemilocalPlan
    from ciderpress.pyscf.numint import CiderNumInt

    ni = CiderNumInt(model, slxc, None, None, xmix=xmix, rhocut=rhocut)
    ni.sl_plan = SemilocalPlan(model.settings.sl_settings, nspin)
    ni.fl_plan = FracLaplPlan(model.settings.nlof_settings, nspin)
    return ni


@subcheck("C08", "evalxc_extremes", st_evalxc, quick=2400, thorough=40000, tolerances=TOL,
          rule="CiderNumInt.eval_xc_cider (the real assembly of features, normalisers, model, baselines and back-propagation) "
               "called on synthetic boundary-valued rho arrays (as layer_extremes) and drawn nonlocal feature arrays (O(1), "
               "zeros, mixed) for synthetic models of every family/mode/baseline: exc, vxc, vxc_nldf, vxc_sdmx all finite; with "
               "no semilocal part (slxc='') and MappedXC: points whose density is below the model cutoff (total density for "
               "NPOL/POL, every spin-scaled channel for SEP) have exc == 0, vxc == 0 and feature potentials == 0 exactly, and "
               "replacing their data by other below-cutoff data leaves every other point bit-identical; non-trivial = points "
               "on both sides of the cutoff")
def evalxc_extremes(case, ctx):
    spec = case["model"]
    model = G.build_model(spec)
    nspin = case["nspin"]
    fs = model.settings
    rd = build_rho_data(case["points"], nspin, case["empty"])
    if fs.sl_settings.level == "GGA":
        rd_in = rd[:, :4]
    else:
        rd_in = rd
    n = rd.shape[-1]
    rng = rng_from(case["points"]["seed"] + 11)

    def nlfeat(nf):
        if nf == 0:
            return None
        if case["nl"] == "zero":
            return np.zeros((nspin, nf, n))
        a = rng.uniform(0.0, 2.5, (nspin, nf, n))
        if case["nl"] == "mixed":
            a[..., ::2] = 0.0
            a[..., 1::3] *= -1
        return a

    nldf = nlfeat(fs.nldf_settings.nfeat)
    sdmx = nlfeat(fs.sdmx_settings.nfeat)
    rhocut = case["rhocut"]
    ni = make_numint(model, case["slxc"], case["xmix"], rhocut, nspin)
    modes = set(k["mode"] for k in spec["kernels"])
    ctx.event("xc2" if spec["xc2"] else "xc1")
    ctx.event("slxc=" + (case["slxc"] or "none"))
    for m in modes:
        ctx.event("mode=" + m)
    rho_arg = rd_in[0] if nspin == 1 else rd_in
    with np.errstate(all="ignore"):
        exc, (vxc, vn, vs) = ni.eval_xc_cider(case["slxc"], rho_arg.copy(), None if nldf is None else (nldf[0] if nspin == 1 else nldf).copy(),
                                             None if sdmx is None else (sdmx[0] if nspin == 1 else sdmx).copy(), deriv=1)[:2]
    fam = "+".join(f for f in ("nldf", "sdmx") if spec[f]) or "sl"
    tag = ("xc2" if spec["xc2"] else "xc1", fam)
    ctx.finite(exc, ("exc",) + tag)
    ctx.finite(vxc, ("vxc",) + tag)
    if vn is not None:
        ctx.finite(vn, ("vxc_nldf",) + tag)
    if vs is not None:
        ctx.finite(vs, ("vxc_sdmx",) + tag)
    rc = ni.rhocut
    tot = rd[:, 0].sum(0)
    sep_below = (nspin * rd[:, 0]) < rc
    if modes == {"SEP"}:
        cut = sep_below.all(0)
    else:
        cut = (tot < rc) & (sep_below.all(0) if "SEP" in modes else True)
    keep = ~((tot < rc) | sep_below.any(0))
    if cut.any() and keep.any():
        ctx.nontrivial([G.model_signature(spec), nspin, sorted(set(p["rho"] for p in case["points"]["pts"])), case["rhocut"]])
        ctx.event("two_sided")
    if case["slxc"] == "" and not spec["xc2"]:
        v = vxc if nspin == 2 else vxc[None]
        ctx.check(np.all(exc[cut] == 0), ("below_cutoff", "exc_nonzero") + tag, rhocut=rc)
        ctx.check(np.all(v[..., cut] == 0), ("below_cutoff", "vxc_nonzero") + tag, rhocut=rc)
        for arr, nm in ((vn, "vxc_nldf"), (vs, "vxc_sdmx")):
            if arr is not None:
                ctx.check(np.all(np.asarray(arr)[..., cut] == 0), ("below_cutoff", nm + "_nonzero") + tag, rhocut=rc)
    # points below the cutoff do not influence the others, whatever their (below-cutoff) data are
    if cut.any() and keep.any() and not spec["xc2"]:
        rd2 = rd_in.copy()
        rd2[:, 0][:, cut] = rd2[:, 0][:, cut] * 0.25
        rd2[:, 1:][:, :, cut] = rd2[:, 1:][:, :, cut] * 3.0
        rho2 = rd2[0] if nspin == 1 else rd2
        with np.errstate(all="ignore"):
            exc2, (vxc2, vn2, vs2) = ni.eval_xc_cider(case["slxc"], rho2.copy(), None if nldf is None else (nldf[0] if nspin == 1 else nldf).copy(),
                                                     None if sdmx is None else (sdmx[0] if nspin == 1 else sdmx).copy(), deriv=1)[:2]
        # 1e-13 of the largest kept value, not bit-equality: an implementation may compact or reorder the kept points
        ek, vk = np.asarray(exc)[keep], np.asarray(vxc)[..., keep]
        ctx.close(np.asarray(exc2)[keep], ek, ("cut_points_influence_others", "exc") + tag, rtol=1e-13,
                  scale=float(np.max(np.abs(ek))) + 1e-300)
        ctx.close(np.asarray(vxc2)[..., keep], vk, ("cut_points_influence_others", "vxc") + tag, rtol=1e-13,
                  scale=float(np.max(np.abs(vk))) + 1e-300)


# ------------------------------------------------------------------------------------------------
@st.composite
def st_plan(draw):
    nldf = draw(G.st_nldf())
    return {"nldf": nldf, "points": draw(st_points(nmin=1, nmax=12)), "nspin": draw(st.sampled_from([1, 2])),
            "plan": draw(st.sampled_from(["gaussian", "spline"])), "formula": draw(st.sampled_from(["etb", "zexp"])),
            "order": draw(st.sampled_from(["gq", "qg"])), "smooth": draw(st.booleans()),
            "raise_large": draw(st.sampled_from([True, True, False])),
            "nalpha": draw(st.integers(4, 30)), "lambd": draw(st.sampled_from([1.5, 1.8, 2.4]))}


@subcheck("C08", "plan_extremes_asan", st_plan, quick=800, thorough=15000, tolerances=TOL, variant="asan",
          rule="NLDF plans (Gaussian and spline, etb/zexp ladders of 4-30 exponents, gq/qg, smooth exponent cut-off on/off) on "
               "boundary-valued (rho, sigma, tau): eval_feat_exp, get_interpolation_arguments and "
               "get_interpolation_coefficients for every feature id, executed on the ASan+UBSan build (NaN/huge float -> int "
               "casts in the spline index code and out-of-range table indices become reports): every output finite, index "
               "clipping at both table ends (raise_large_expnt_error=False leaves only the clip); an exponent beyond the "
               "ladder must raise RuntimeError when rejection is on and the smooth cut-off off (contract) and never otherwise; non-trivial = some exponent beyond alpha_max or below alpha_min")
def plan_extremes_asan(case, ctx):
    from ciderpress.dft.plans import NLDFGaussianPlan, NLDFSplinePlan

    settings = G.build_nldf(case["nldf"])
    nspin = case["nspin"]
    cls = NLDFGaussianPlan if case["plan"] == "gaussian" else NLDFSplinePlan
    plan = cls(settings, nspin, 0.01, case["lambd"], case["nalpha"], coef_order=case["order"],
               alpha_formula=case["formula"], use_smooth_expnt_cutoff=case["smooth"],
               raise_large_expnt_error=case.get("raise_large", True))
    hard_reject = case.get("raise_large", True) and not case["smooth"]
    rd = build_rho_data(case["points"], nspin)
    ctx.event("plan=%s/%s/%s" % (case["plan"], case["formula"], case["order"]))
    ctx.event("smooth" if case["smooth"] else ("hard_reject" if hard_reject else "clip_only"))
    nfeat_sets = settings.num_feat_param_sets
    amax = float(np.max(plan.alphas))
    for s in range(nspin):
        rt = plan.get_rho_tuple(rd[s])
        for i in range(-1, nfeat_sets):
            with np.errstate(all="ignore"):
                try:
                    a, da = plan.eval_feat_exp(tuple(np.array(x, copy=True) for x in rt), i=i)
                except Exception as e:
                    if not ("exponent" in str(e).lower() and "large" in str(e).lower()):
                        raise
                    ctx.check(hard_reject, ("eval_feat_exp", "raised_although_disabled"))
                    ctx.event("large_exponent_rejected")
                    ctx.nontrivial([case["plan"], case["formula"], case["nalpha"], "rejected"])
                    continue
            ctx.finite(a, ("eval_feat_exp", "value"))
            for d in da:
                ctx.finite(d, ("eval_feat_exp", "deriv"))
            if hard_reject:
                big = a[rt[0] > plan.rhocut]
                ctx.check(big.size == 0 or np.max(big) <= amax, ("eval_feat_exp", "large_exponent_not_rejected"),
                          amax=amax, got=float(np.max(big)) if big.size else 0.0)
            elif case["smooth"]:
                ctx.check(np.all(a <= amax * (1 + 1e-12)), ("eval_feat_exp", "smooth_cutoff_exceeds_alpha_max"),
                          amax=amax, got=float(np.max(a)))
            if np.any(a > 0.5 * amax) or np.any(a < plan.alphas[0]):
                ctx.nontrivial([case["plan"], case["formula"], case["nalpha"], i >= 0])
            with np.errstate(all="ignore"):
                arg, darg = plan.get_interpolation_arguments(tuple(np.array(x, copy=True) for x in rt), i=i)
                ctx.finite(arg, ("interp_arguments",))
                if settings.nldf_type == "k" and i == -1 and case["plan"] == "spline":
                    pass
                p, dp = plan.get_interpolation_coefficients(np.ascontiguousarray(arg), i=i)
            ctx.finite(p, ("interp_coefficients", case["plan"], "value"))
            ctx.finite(dp, ("interp_coefficients", case["plan"], "deriv"))


# ------------------------------------------------------------------------------------------------
SPECIAL_MOLS = [
    {"atoms": [["H", [0.0, 0.0, 0.0]]], "basis": "6-31g", "spin": 1, "charge": 0, "grid_level": 1, "tag": "H_atom"},
    {"atoms": [["He", [0.1, 0.2, 0.3]]], "basis": "6-31g", "spin": 0, "charge": 0, "grid_level": 2, "tag": "He_atom"},
    {"atoms": [["H", [0.0, 0.0, 0.0]], ["H", [0.0, 0.3, 1.4]]], "basis": "sto-3g", "spin": 1, "charge": 1, "grid_level": 1,
     "tag": "H2+"},
    {"atoms": [["Li", [0.0, 0.0, 0.0]], ["H", [1.0, 2.0, 9.0]]], "basis": "6-31g", "spin": 0, "charge": 0, "grid_level": 1,
     "tag": "LiH_stretched"},
    {"atoms": [["Ne", [0.0, 0.0, 0.0]]], "basis": "6-31g", "spin": 0, "charge": 0, "grid_level": 2, "tag": "Ne_atom"},
    {"atoms": [["He", [0.0, 0.0, 0.0]], ["He", [0.0, 0.0, 12.0]]], "basis": "sto-3g", "spin": 0, "charge": 0, "grid_level": 0,
     "tag": "He2_far"},
    {"atoms": [["Li", [0.3, 0.1, 0.0]]], "basis": {"Li": "6-31g"}, "spin": 1, "charge": 0, "grid_level": 2, "tag": "Li_atom"},
    {"atoms": [["H", [0.0, 0.0, 0.0]], ["F", [0.0, 0.0, 1.7]]], "basis": "6-31g", "spin": 0, "charge": 0, "grid_level": 1,
     "tag": "HF"},
]


@st.composite
def st_molx(draw):
    model = draw(G.st_model(max_kernels=1))
    return {"mol": draw(st.integers(0, len(SPECIAL_MOLS) - 1)), "model": model, "calc": draw(G.st_calc()),
            "uks": draw(st.booleans()), "polarized": draw(st.booleans()), "rhocut": draw(st.sampled_from([None, 1e-6, 1e-12]))}


@subcheck("C08", "molecular_extremes", st_molx, quick=40, thorough=500, tolerances=TOL, shrink=False,
          rule="one-electron and one-orbital systems (H, H2+, He: tau = tau_W everywhere), stretched LiH and He...He at 12 "
               "bohr, Ne/Li atoms on level-2 grids, with the lowest-orbital density matrix (exactly idempotent: single-orbital "
               "regions) and optionally a fully polarised unrestricted density (empty beta channel) through the real nr_rks / "
               "nr_uks with synthetic models of every family and rhocut in {default, 1e-6, 1e-12}: excsum, nelec, vmat finite, "
               "vmat symmetric; non-trivial = always (distinct by system, model signature, spin treatment)")
def molecular_extremes(case, ctx):
    import scipy.linalg

    mspec = SPECIAL_MOLS[case["mol"]]
    mol = G.build_mol(mspec)
    model = G.build_model(case["model"])
    cs = dict(case["calc"])
    cs["rhocut"] = case["rhocut"]
    uks = case["uks"] or mol.spin != 0
    ks = G.build_calc(mol, model, cs, uks, level=mspec["grid_level"])
    s = mol.intor("int1e_ovlp")
    h = mol.intor("int1e_kin") + mol.intor("int1e_nuc")
    e, c = scipy.linalg.eigh(h, s)
    na, nb = mol.nelec
    ctx.event("system=" + mspec["tag"])
    ctx.event("uks" if uks else "rks")
    fam = "+".join(f for f in ("nldf", "sdmx") if case["model"][f]) or "sl"
    ctx.event("family=" + fam)
    ni = ks._numint
    with np.errstate(all="ignore"):
        if uks:
            da = c[:, :na] @ c[:, :na].T
            db = c[:, :nb] @ c[:, :nb].T if (nb > 0 and not case["polarized"]) else np.zeros_like(da)
            n, exc, v = ni.nr_uks(mol, ks.grids, ks.xc, np.array([da, db]))
        else:
            dm = 2 * c[:, :na] @ c[:, :na].T
            n, exc, v = ni.nr_rks(mol, ks.grids, ks.xc, dm)
    ctx.nontrivial([mspec["tag"], G.model_signature(case["model"]), uks, case["polarized"], case["rhocut"]])
    ctx.check(np.isfinite(exc), ("molecular", "excsum_nonfinite", fam), system=mspec["tag"])
    ctx.finite(np.atleast_1d(n), ("molecular", "nelec", fam))
    ctx.finite(v, ("molecular", "vmat", fam), system=mspec["tag"])
    vv = v if uks else v[None]
    for k in range(len(vv)):
        ctx.close(vv[k], vv[k].T, ("molecular", "vmat_symmetric", fam), rtol=1e-10)
