"""C14 -- saved models and feature lists reload to objects that evaluate identically (DESIGN.md 5-C14).

Temp files live under /verif/.build/tmp/<pid>_<n>/ (never /tmp) and are removed per case.
EXCLUDE_KNOWN: tags of recorded findings the generators should step around ("omega_code").
"""
import itertools
import os
import shutil

import numpy as np
from hypothesis import strategies as st

from cpverif import bootstrap
from cpverif import gen_settings as G
from cpverif.oracles import rng_from
from cpverif.runner import subcheck
from props.c12 import CLASS_NAMES, CODES, MAP_SPECS, _registered_codes, build_map, check_registry, raw_features, st_map

EXCLUDE_KNOWN = set()

BOUNDED = ("L", "U", "T", "V", "VZ", "Z", "E", "Omega")   # classes with a `bounds` keyword
_counter = itertools.count()


class TmpDir:
    def __enter__(self):
        self.path = os.path.join(bootstrap.VERIF, ".build", "tmp", "c14_%d_%d" % (os.getpid(), next(_counter)))
        os.makedirs(self.path, exist_ok=True)
        return self.path

    def __exit__(self, *a):
        shutil.rmtree(self.path, ignore_errors=True)
        return False


def _conv(v, ptype):
    if ptype == "np64":
        return np.float64(v)
    if ptype == "int" and abs(v) >= 1:
        return int(round(v))
    return v


def build_map_typed(spec):
    """c12.build_map plus parameter types (python float / numpy float64 / int-valued) and bounds."""
    from ciderpress.dft import transform_data as td

    ptype = spec.get("ptype", "float")
    s2 = dict(spec, par={k: _conv(v, ptype) for k, v in spec["par"].items()})
    if ptype == "np64":
        s2["idx"] = {k: np.int64(v) for k, v in spec["idx"].items()}
    m = build_map(s2)
    b = spec.get("bounds")
    if b is not None and spec["code"] in BOUNDED:
        conv = tuple if b["as"] == "tuple" else list
        vals = conv(float(x) if isinstance(x, str) else x for x in b["v"])
        cls = type(m)
        s = MAP_SPECS[spec["code"]]
        args = [s2["idx"][n] for n, _ in s["idx"]] + [s2["par"][n] for n in s["par"]]
        m = cls(*args, bounds=vals)
    assert isinstance(m, td.FeatureNormalizer)
    return m


@st.composite
def st_map_typed(draw, n0, omega_ok=True):
    codes = [c for c in CODES if (omega_ok or c != "Omega") and len(MAP_SPECS[c]["idx"]) <= n0]
    spec = draw(st_map(n0, code=draw(st.sampled_from(codes))))
    spec["ptype"] = draw(st.sampled_from(["float", "float", "np64", "int"]))
    if spec["code"] in BOUNDED and draw(st.booleans()):
        lo = draw(st.sampled_from(["-inf", -1.0, 0, -0.5]))
        hi = draw(st.sampled_from(["inf", 1.0, 2, 0.75]))
        spec["bounds"] = {"v": [lo, hi], "as": draw(st.sampled_from(["tuple", "list"]))}
    return spec


def _same(a, b):
    """Deep bit-level equality of as_dict()/to_dict() payloads."""
    if isinstance(a, dict) and isinstance(b, dict):
        return a.keys() == b.keys() and all(_same(a[k], b[k]) for k in a)
    if isinstance(a, (list, tuple)) and isinstance(b, (list, tuple)):
        return type(a) is type(b) and len(a) == len(b) and all(_same(x, y) for x, y in zip(a, b))
    if isinstance(a, np.ndarray) or isinstance(b, np.ndarray):
        return (isinstance(a, np.ndarray) and isinstance(b, np.ndarray) and a.dtype == b.dtype and a.shape == b.shape
                and a.tobytes() == b.tobytes())
    if type(a) is not type(b):
        return False
    if isinstance(a, (float, np.floating)):
        return np.float64(a).tobytes() == np.float64(b).tobytes()
    return a == b


def _read(path):
    with open(path, "rb") as f:
        return f.read()


def _eval_featurelist(fl, x, dfdy, pre):
    y1 = fl(x.T.copy())
    y2 = np.zeros((fl.nfeat, x.shape[1]))
    fl.fill_vals_(y2, x.copy())
    d = pre.copy()
    fl.fill_derivs_(d, dfdy.copy(), x.copy())
    return y1, y2, d


def _check_featurelist_cycle(ctx, fl, specs, n0, seed, fmt, cycles, tag):
    from ciderpress.dft.transform_data import FeatureList

    ns = 4
    x = raw_features(specs, n0, ns, seed)
    rng = rng_from(seed + 3)
    dfdy = rng.uniform(-1, 1, (len(specs), ns))
    pre = rng.uniform(-1, 1, (n0, ns))
    ref = _eval_featurelist(fl, x, dfdy, pre)
    ref_dict = fl.as_dict()
    cur = fl
    first_bytes = None
    with TmpDir() as tmp:
        for c in range(cycles):
            if fmt == "dict":
                cur = FeatureList.from_dict(cur.as_dict())
            else:
                p = os.path.join(tmp, "fl_%d.yaml" % c)
                cur.dump(p)
                b = _read(p)
                if first_bytes is None:
                    first_bytes = b
                else:
                    ctx.check(b == first_bytes, ("redump_not_idempotent", "FeatureList", tag), cycle=c)
                cur = FeatureList.load(p)
            ctx.check(type(cur) is FeatureList and cur.nfeat == fl.nfeat, ("type", "FeatureList", tag))
            for m0, m1, sp in zip(fl.feat_list, cur.feat_list, specs):
                ctx.check(type(m0) is type(m1), ("type", sp["code"], fmt), got=type(m1).__name__)
                ctx.check(_same(m0.as_dict(), m1.as_dict()), ("as_dict_changed", sp["code"], fmt),
                          before=repr(m0.as_dict()), after=repr(m1.as_dict()))
                ctx.check(_same(tuple(m0.bounds), tuple(m1.bounds)), ("bounds_changed", sp["code"], fmt),
                          before=repr(m0.bounds), after=repr(m1.bounds))
            out = _eval_featurelist(cur, x, dfdy, pre)
            for name, a, b2 in zip(("call", "fill_vals", "fill_derivs"), ref, out):
                ctx.equal_bits(b2, a, ("evaluation_changed", name, fmt), codes=[s["code"] for s in specs], cycle=c)
            ctx.check(_same(ref_dict, cur.as_dict()), ("list_as_dict_changed", fmt, tag))


def _dispatch_check(ctx, m, code):
    """Every map must be reloadable through the code table from what it writes."""
    from ciderpress.dft.transform_data import FeatureNormalizer

    d = m.as_dict()
    try:
        m2 = FeatureNormalizer.from_dict(d)
    except ValueError as e:
        ctx.check(False, ("dispatch_rejects_written_code", code), written=repr(d.get("code")), message=str(e))
    ctx.check(type(m2) is type(m), ("dispatch_wrong_class", code), got=type(m2).__name__)


@st.composite
def st_fl_case(draw):
    n0 = draw(st.integers(4, 7))
    nm = draw(st.integers(1, 8))
    maps = [draw(st_map_typed(n0, omega_ok="omega_code" not in EXCLUDE_KNOWN)) for _ in range(nm)]
    return {"n0": n0, "maps": maps, "fmt": draw(st.sampled_from(["dict", "yaml"])), "cycles": draw(st.integers(1, 3)),
            "seed": draw(st.integers(0, 2 ** 31 - 1))}


@subcheck("C14", "featurelist_roundtrip", st_fl_case, quick=1200, thorough=8000,
          rule="FeatureList of 1-8 maps drawn from all 21 registered classes (log-uniform parameters as python float / "
               "numpy float64 with numpy int indices / int-valued; explicit bounds incl. +-inf, tuple or list, or default) "
               "through as_dict/from_dict or dump/load (yaml), 1-3 cycles; oracle: same types, as_dict and bounds "
               "bit-identical, __call__/fill_vals_/fill_derivs_ bit-identical on admissible inputs, yaml re-dump "
               "byte-identical, every map reloadable through the code table from the code it writes; "
               "non-trivial = >= 5 maps or non-default parameter types/bounds",
          tolerances={"evaluation": "bitwise"})
def featurelist_roundtrip(case, ctx):
    from ciderpress.dft.transform_data import FeatureList

    assert _registered_codes() <= set(CODES), "generator out of date with ALL_CLASSES: %s" % sorted(_registered_codes() - set(CODES))
    check_registry(ctx)
    specs = case["maps"]
    maps = [build_map_typed(s) for s in specs]
    for s in specs:
        ctx.event("class=" + s["code"])
    ctx.event("fmt=%s cycles=%d" % (case["fmt"], case["cycles"]))
    for m, s in zip(maps, specs):
        _dispatch_check(ctx, m, s["code"])
    if len(specs) >= 5 or any(s.get("bounds") or s.get("ptype") != "float" for s in specs):
        ctx.nontrivial([[s["code"], s.get("ptype"), bool(s.get("bounds"))] for s in specs] + [case["fmt"], case["cycles"]])
    _check_featurelist_cycle(ctx, FeatureList(maps), specs, case["n0"], case["seed"], case["fmt"], case["cycles"], "drawn")


@st.composite
def st_enum_case(draw):
    return {"seed": draw(st.integers(0, 2 ** 31 - 1)), "fmt": draw(st.sampled_from(["dict", "yaml"])),
            "cycles": draw(st.integers(1, 3))}


@subcheck("C14", "featurelist_all_classes", st_enum_case, quick=48, thorough=400,
          rule="exhaustive over the code table: one FeatureList containing an instance of every class in "
               "transform_data.ALL_CLASSES (parameters from a drawn seed), each class also round-tripped alone through "
               "FeatureNormalizer.from_dict(as_dict()); same oracle as featurelist_roundtrip; every case is non-trivial",
          tolerances={"evaluation": "bitwise"})
def featurelist_all_classes(case, ctx):
    from ciderpress.dft import transform_data as td

    assert _registered_codes() <= set(CODES), "generator out of date with ALL_CLASSES: %s" % sorted(_registered_codes() - set(CODES))
    check_registry(ctx)
    rng = rng_from(case["seed"])
    n0 = 6
    specs = []
    known = {v: k for k, v in CLASS_NAMES.items()}
    for cls in td.ALL_CLASSES:
        code = known[cls.__name__]
        s = MAP_SPECS[code]
        idx = rng.permutation(n0)[: len(s["idx"])]
        par = {p: (float(rng.uniform(-1, 1)) if p == "center" else float(np.exp(rng.uniform(np.log(0.1), np.log(5))))) for p in s["par"]}
        specs.append({"code": code, "idx": {n: int(i) for (n, _), i in zip(s["idx"], idx)}, "par": par})
    maps = [build_map(s) for s in specs]
    bad = []
    for m, s in zip(maps, specs):
        ctx.event("class=" + s["code"])
        try:
            _dispatch_check(ctx, m, s["code"])
        except Exception as e:   # collect: report the first, but exercise all classes
            bad.append((s["code"], e))
    ctx.nontrivial([case["fmt"], case["cycles"], case["seed"] % 7])
    if bad:
        if not all(c == "Omega" and "omega_code" in EXCLUDE_KNOWN for c, _ in bad):
            raise [e for c, e in bad if not (c == "Omega" and "omega_code" in EXCLUDE_KNOWN)][0]
    keep = [i for i, s in enumerate(specs) if s["code"] not in [c for c, _ in bad]]
    _check_featurelist_cycle(ctx, td.FeatureList([maps[i] for i in keep]), [specs[i] for i in keep], n0, case["seed"],
                             case["fmt"], case["cycles"], "all_classes")


# ------------------------------------------------------------------------------------------------
def build_spline_evaluator(spec, n1):
    from interpolation.splines import UCGrid, filter_cubic

    from ciderpress.dft.xc_evaluator import SplineSetEvaluator

    rng = rng_from(spec["seed"])
    scale, ind_sets, grids, coeffs = [], [], [], []
    for t in spec["terms"]:
        dims = [(float(lo), float(hi), int(n)) for lo, hi, n in t["dims"]]
        g = UCGrid(*dims)
        vals = rng.normal(size=tuple(d[2] for d in dims))
        scale.append(t["scale"])
        ind_sets.append([i % n1 for i in t["inds"]])
        grids.append(g)
        coeffs.append(filter_cubic(g, vals))
    if spec.get("scale_as") == "array":
        scale = np.array(scale)
    return SplineSetEvaluator(scale, ind_sets, grids, coeffs, const=spec["const"])


@st.composite
def st_spline(draw):
    terms = []
    for _ in range(draw(st.integers(1, 3))):
        nd = draw(st.integers(1, 3))
        dims = [[draw(st.sampled_from([-2.0, -1.0, 0.0])), draw(st.sampled_from([1.0, 2.0, 3.5])), draw(st.integers(4, 7))] for _ in range(nd)]
        inds = draw(st.lists(st.integers(0, 11), min_size=nd, max_size=nd, unique=True))
        terms.append({"dims": dims, "inds": inds, "scale": draw(st.floats(0.1, 3.0))})
    return {"kind": "spline", "terms": terms, "const": draw(st.one_of(st.just(0), st.floats(-2.0, 2.0))),
            "scale_as": draw(st.sampled_from(["list", "array"])), "seed": draw(st.integers(0, 2 ** 31 - 1))}


def _fix_inds(spec, n1):
    """Spline terms need distinct feature indices; fold the drawn ones into range(n1) without repeats."""
    out = dict(spec, terms=[])
    for t in spec["terms"]:
        nd = min(len(t["dims"]), n1)
        inds = []
        for i in t["inds"]:
            j = i % n1
            while j in inds:
                j = (j + 1) % n1
            inds.append(j)
            if len(inds) == nd:
                break
        out["terms"].append(dict(t, dims=t["dims"][:nd], inds=inds))
    return out


@st.composite
def st_spline_case(draw):
    return {"n1": draw(st.integers(1, 6)), "ev": draw(st_spline()), "fmt": draw(st.sampled_from(["dict", "yaml"])),
            "cycles": draw(st.integers(1, 3)), "seed": draw(st.integers(0, 2 ** 31 - 1)), "ns": draw(st.integers(1, 6))}


@subcheck("C14", "evaluator_roundtrip", st_spline_case, quick=600, thorough=6000,
          rule="SplineSetEvaluator (1-3 terms of dimension 1-3, grids 4-7 points, coefficients from filter_cubic of drawn "
               "tables, scale as list or array, const 0 or drawn) through to_dict/from_dict or dump/load (yaml), 1-3 cycles; "
               "oracle: same type, to_dict bit-identical, __call__ with and without caller buffers bit-identical, yaml "
               "re-dump byte-identical; the other classes deriving from XCEvalSerializable are enumerated: those whose "
               "from_dict is declared NotImplemented must raise (never mis-load); non-trivial = const != 0 or >= 2 terms",
          tolerances={"evaluation": "bitwise"})
def evaluator_roundtrip(case, ctx):
    from ciderpress.dft import xc_evaluator as xe
    from ciderpress.dft import xc_evaluator2 as xe2

    n1 = case["n1"]
    spec = _fix_inds(case["ev"], n1)
    ev = build_spline_evaluator(spec, n1)
    rng = rng_from(case["seed"])
    X1 = rng.uniform(-0.9, 0.9, (case["ns"], n1))
    r0 = rng.uniform(-1, 1, case["ns"])
    d0 = rng.uniform(-1, 1, (case["ns"], n1))

    def evaluate(e):
        a = e(X1.copy())
        rb, db = r0.copy(), d0.copy()
        e(X1.copy(), rb, db)
        return a[0], a[1], rb, db

    ref = evaluate(ev)
    ref_d = ev.to_dict()
    ctx.event("fmt=%s cycles=%d terms=%d" % (case["fmt"], case["cycles"], len(spec["terms"])))
    if spec["const"] != 0 or len(spec["terms"]) >= 2:
        ctx.nontrivial([case["fmt"], case["cycles"], [len(t["dims"]) for t in spec["terms"]], spec["const"] != 0, spec["scale_as"]])
    cur, first = ev, None
    with TmpDir() as tmp:
        for c in range(case["cycles"]):
            if case["fmt"] == "dict":
                cur = xe.SplineSetEvaluator.from_dict(cur.to_dict())
            else:
                p = os.path.join(tmp, "ev_%d.yaml" % c)
                cur.dump(p)
                b = _read(p)
                if first is None:
                    first = b
                else:
                    ctx.check(b == first, ("redump_not_idempotent", "SplineSetEvaluator"), cycle=c)
                cur = xe.SplineSetEvaluator.load(p)
            ctx.check(type(cur) is xe.SplineSetEvaluator, ("type", "SplineSetEvaluator"))
            out = evaluate(cur)
            for name, a, b2 in zip(("res", "dres", "res_buffer", "dres_buffer"), ref, out):
                ctx.equal_bits(b2, a, ("evaluation_changed", "SplineSetEvaluator", name), fmt=case["fmt"], cycle=c)
            d = cur.to_dict()
            ctx.check(_same(np.asarray(ref_d["scale"]), np.asarray(d["scale"])) and _same(ref_d["const"], d["const"])
                      and _same([np.asarray(x) for x in ref_d["coeff_sets"]], [np.asarray(x) for x in d["coeff_sets"]])
                      and _same([list(x) for x in ref_d["ind_sets"]], [list(x) for x in d["ind_sets"]]),
                      ("to_dict_changed", "SplineSetEvaluator", case["fmt"]))
    # enumeration of every class that declares the serialisation interface
    for mod in (xe, xe2):
        for name in sorted(dir(mod)):
            cls = getattr(mod, name)
            if not (isinstance(cls, type) and issubclass(cls, xe.XCEvalSerializable)) or cls in (xe.XCEvalSerializable, xe.SplineSetEvaluator):
                continue
            if cls.__module__ != mod.__name__:
                continue
            ctx.event("declares_interface:" + name)
            try:
                obj = cls.from_dict({})
            except NotImplementedError:
                continue
            except Exception:
                continue   # any rejection is fine
            ctx.check(False, ("from_dict_accepts_empty_dict", name), got=type(obj).__name__)


# ------------------------------------------------------------------------------------------------
NATIVE_BASE = ["ZERO", "ONE", "LDA_X", "GGA_X_PBE", "GGA_C_PBE", "GGA_X_CHACHIYO", "RHO"]     # (NLDA_X_DAMP needs a 4th feature row)
LIBXC_MUL = ["LDA_X", "GGA_X_PBE", "LDA_C_PW_MOD", "GGA_C_PBE"]
LIBXC_ADD = [None, "LDA_X", "GGA_C_PBE", "SS_GGA_C_PBE", "OS_GGA_C_PBE"]


@st.composite
def st_evaluator(draw):
    kind = draw(st.sampled_from(["rbf", "kernel", "linear", "spline"]))
    if kind == "spline":
        return draw(st_spline())
    return {"kind": kind, "nctrl": draw(st.integers(1, 6)), "scaled": draw(st.booleans()),
            "seed": draw(st.integers(0, 2 ** 31 - 1))}


@st.composite
def st_model(draw):
    fs = draw(G.st_feature_settings())
    n0 = G.spec_nfeat(fs)
    kernels = []
    for _ in range(draw(st.integers(1, 2))):
        nm = draw(st.integers(1, 7))
        maps = [draw(st_map_typed(n0, omega_ok=True)) for _ in range(nm)]
        evs = [draw(st_evaluator()) for _ in range(draw(st.integers(1, 3)))]
        kernels.append({"maps": maps, "evals": evs, "mode": draw(st.sampled_from(["SEP", "NPOL"])),
                        "mul": draw(st.integers(0, 13)), "add": draw(st.integers(0, 13))})
    return {"fs": fs, "api": draw(st.sampled_from([1, 2])), "kernels": kernels,
            "libxc_baseline": draw(st.sampled_from([None, "GGA_X_PBE"]))}


def build_evaluator(spec, n1):
    from ciderpress.dft import xc_evaluator as xe
    from ciderpress.models.kernels import DiffConstantKernel, DiffRBF

    if spec["kind"] == "spline":
        return build_spline_evaluator(_fix_inds(spec, n1), n1)
    rng = rng_from(spec["seed"])
    if spec["kind"] == "linear":
        return xe.GlobalLinearEvaluator(rng.uniform(-1, 1, n1))
    kern = DiffRBF(length_scale=rng.uniform(0.3, 1.5, n1))
    if spec["scaled"]:
        kern = DiffConstantKernel(float(rng.uniform(0.3, 2.0))) * kern
    Xc = rng.uniform(-1, 1, (spec["nctrl"], n1))
    alpha = rng.normal(size=spec["nctrl"])
    return (xe.RBFEvaluator if spec["kind"] == "rbf" else xe.KernelEvaluator)(kern, Xc, alpha)


def build_model(spec):
    from ciderpress.dft import baselines
    from ciderpress.dft import xc_evaluator as xe
    from ciderpress.dft import xc_evaluator2 as xe2
    from ciderpress.dft.transform_data import FeatureList

    fs = G.build_settings(spec["fs"])
    kernels = []
    for k in spec["kernels"]:
        fl = FeatureList([build_map_typed(m) for m in k["maps"]])
        fevals = [build_evaluator(e, fl.nfeat) for e in k["evals"]]
        if spec["api"] == 1:
            mul = baselines.BASELINE_CODES[NATIVE_BASE[k["mul"] % len(NATIVE_BASE)]]
            add = baselines.BASELINE_CODES[NATIVE_BASE[k["add"] % len(NATIVE_BASE)]]
            kernels.append(xe.MappedDFTKernel(fevals, fl, k["mode"], mul, add))
        else:
            kernels.append(xe2.MappedDFTKernel2(fevals, fl, k["mode"], LIBXC_MUL[k["mul"] % len(LIBXC_MUL)],
                                                LIBXC_ADD[k["add"] % len(LIBXC_ADD)]))
    cls = xe.MappedXC if spec["api"] == 1 else xe2.MappedXC2
    return cls(kernels, fs, libxc_baseline=spec["libxc_baseline"])


def model_inputs(spec, nspin, ns, seed):
    """Admissible normalised-feature block (nspin, n0, ns): rows read by a density-like map are positive; rows 0 and 1
    (density, reduced gradient / sigma) are positive for the baselines."""
    n0 = G.spec_nfeat(spec["fs"])
    allmaps = [m for k in spec["kernels"] for m in k["maps"]]
    X = np.stack([raw_features(allmaps, n0, ns, seed + 17 * s) for s in range(nspin)])
    X[:, :2] = np.abs(X[:, :2])
    X[:, 0] = np.maximum(X[:, 0], 1e-3)
    return X


def evaluate_model(model, spec, X):
    nspin, _, ns = X.shape
    if spec["api"] == 1:
        out = []
        for rc in (0, 5e-2):
            res, dres = model(X.copy(), rhocut=rc)
            out += [np.asarray(res), np.asarray(dres)]
        return out
    rho = np.asfortranarray(X[:, 0] / nspin)
    sigma = np.zeros((2 * nspin - 1, ns), order="F")
    sigma[::2] = 0.3 * rho ** (8.0 / 3)
    if nspin == 2:
        sigma[1] = 0.1 * np.sqrt(sigma[0] * sigma[2])
    res, dres, vt = model(X.copy(), (rho, sigma))
    return [np.asarray(res), np.asarray(dres)] + [np.asarray(v) for v in vt]


@st.composite
def st_model_case(draw):
    return {"model": draw(st_model()), "fmt": draw(st.sampled_from(["yaml", "joblib"])),
            "explicit_format": draw(st.booleans()), "cycles": draw(st.integers(1, 3)), "nspin": draw(st.sampled_from([1, 2])),
            # ns = 2 is left out: with nspin = 1 MappedDFTKernel.apply_descriptor_grad mistakes a 2-sample batch for a
            # polarised array (ValueError in SEP mode; reported separately, it is C04/C09's domain, not serialisation)
            "ns": draw(st.sampled_from([1, 3, 4, 5])), "seed": draw(st.integers(0, 2 ** 31 - 1)),
            # a third of the cases: another model has been saved to and loaded from the same path before
            "prior": draw(st_model()) if draw(st.sampled_from(range(3))) == 0 else None}


@subcheck("C14", "model_roundtrip", st_model_case, quick=800, thorough=5000,
          rule="complete MappedXC (native baselines) / MappedXC2 (libxc baselines incl. SS_/OS_) models: FeatureSettings "
               "from G-settings with default/recommended/drawn normalisers, 1-2 kernels of 1-7 drawn maps (all classes) and "
               "1-3 evaluators from {RBF, Kernel, GlobalLinear, SplineSet}, mode SEP/NPOL; saved with yaml.dump or "
               "joblib.dump and loaded with load_cider_model(path, None | explicit format), 1-3 cycles, in a third of the cases after another "
               "model was saved to and loaded from the same path; oracle: same "
               "type, model evaluation (energy, feature derivatives, rhocut 0 and 0.05 / libxc potentials) bit-identical, "
               "settings bookkeeping (nfeat, usps, ueg_vector) identical, yaml re-dump of a reloaded model byte-identical "
               "(3-cycle cases); "
               "non-trivial = >= 2 evaluators or >= 5 maps",
          tolerances={"evaluation": "bitwise"})
def model_roundtrip(case, ctx):
    import joblib
    import yaml

    from ciderpress.dft.model_utils import load_cider_model

    spec = case["model"]
    has_omega = any(m["code"] == "Omega" for k in spec["kernels"] for m in k["maps"])
    model = build_model(spec)
    X = model_inputs(spec, case["nspin"], case["ns"], case["seed"])
    ref = evaluate_model(model, spec, X)
    nev = sum(len(k["evals"]) for k in spec["kernels"])
    nmaps = sum(len(k["maps"]) for k in spec["kernels"])
    ctx.event("api=%d fmt=%s explicit=%s cycles=%d" % (spec["api"], case["fmt"], case["explicit_format"], case["cycles"]))
    for k in spec["kernels"]:
        for e in k["evals"]:
            ctx.event("evaluator=" + e["kind"])
    ctx.event("normalizers=" + spec["fs"]["normalizers"]["kind"])
    if has_omega:
        ctx.event("has_OmegaMap")
    if nev >= 2 or nmaps >= 5:
        ctx.nontrivial([spec["api"], case["fmt"], case["explicit_format"], case["cycles"], G.class_label(spec["fs"]),
                        [[m["code"] for m in k["maps"]] + [e["kind"] for e in k["evals"]] + [k["mode"]] for k in spec["kernels"]]])
    cur, first = model, None
    with TmpDir() as tmp:
        for c in range(case["cycles"]):
            p = os.path.join(tmp, "model_%d.%s" % (c, case["fmt"]))
            if case.get("prior") is not None and c == 0:
                # the file name was used before for a different model (retrained model written over the old file):
                # what is loaded is what the file holds now
                ctx.event("path_reused_for_another_model")
                prior = build_model(case["prior"])
                if case["fmt"] == "yaml":
                    with open(p, "w") as f:
                        yaml.dump(prior, f)
                else:
                    joblib.dump(prior, p)
                load_cider_model(p, case["fmt"] if case["explicit_format"] else None)
            if case["fmt"] == "yaml":
                with open(p, "w") as f:
                    yaml.dump(cur, f)
                # Byte-idempotence is judged from the first *reloaded* object on: the very first dump aliases numpy's
                # dtype singleton between scalars and arrays, an identity PyYAML cannot restore (measured; not semantic).
                if c >= 1:
                    b = _read(p)
                    if first is None:
                        first = b
                    else:
                        ctx.check(b == first, ("redump_not_idempotent", "model", "api%d" % spec["api"]), cycle=c)
            else:
                joblib.dump(cur, p)
            cur = load_cider_model(p, case["fmt"] if case["explicit_format"] else None)
            ctx.check(type(cur) is type(model), ("type", "model", case["fmt"]), got=type(cur).__name__)
            ctx.check(load_cider_model(cur, None) is cur, ("object_passthrough",))
            out = evaluate_model(cur, spec, X)
            ctx.check(len(out) == len(ref), ("evaluation_changed", "arity"))
            for i, (a, b2) in enumerate(zip(ref, out)):
                ctx.equal_bits(b2, a, ("evaluation_changed", "api%d" % spec["api"], case["fmt"]), output=i, cycle=c)
            s0, s1 = model.settings, cur.settings
            ctx.check(s0.nfeat == s1.nfeat and cur.nfeat == model.nfeat, ("settings_changed", "nfeat"))
            ctx.equal_bits(np.asarray(s1.get_feat_usps(), dtype=float), np.asarray(s0.get_feat_usps(), dtype=float), ("settings_changed", "usps"))
            ctx.equal_bits(np.asarray(s1.ueg_vector(0.7, True), dtype=float), np.asarray(s0.ueg_vector(0.7, True), dtype=float),
                           ("settings_changed", "ueg_vector"))
            ctx.check(cur.libxc_baseline == model.libxc_baseline, ("settings_changed", "libxc_baseline"))


# ------------------------------------------------------------------------------------------------
NEG_KINDS = ["fl_unknown_code", "fl_missing_key", "fl_top_type", "fl_yaml_unknown_code", "spline_missing_key",
             "model_bad_extension", "model_bad_format", "model_format_mismatch", "model_wrong_object", "model_not_a_model"]


@st.composite
def st_neg_case(draw):
    n0 = 5
    return {"kind": draw(st.sampled_from(NEG_KINDS)), "map": draw(st_map_typed(n0, omega_ok=False)), "n0": n0,
            "code": draw(st.sampled_from(["Q", "u", "UU", "", "omega", "Z2", 5, "None"])),
            "drop": draw(st.integers(0, 7)), "top": draw(st.sampled_from(["list", "str", "none", "featlist_str", "featlist_dict"])),
            "ext": draw(st.sampled_from([".yml", ".pkl", ".json", "", ".yaml.bak", ".JOBLIB", ".txt"])),
            "format": draw(st.sampled_from(["pickle", "YAML", "hdf5", "json", "", "Joblib"])),
            "fmt": draw(st.sampled_from(["yaml", "joblib"])),
            "wrong": draw(st.sampled_from(["featurelist", "dict", "list", "settings", "kernel", "evaluator", "empty"])),
            "spline": draw(st_spline()), "seed": draw(st.integers(0, 2 ** 31 - 1))}


def _must_raise(ctx, sig, f, **detail):
    try:
        r = f()
    except Exception as e:     # rejected: the expected outcome
        ctx.event("rejected_with=" + type(e).__name__)
        return
    ctx.check(False, sig, returned=type(r).__name__, **detail)


@subcheck("C14", "negative", st_neg_case, quick=1200, thorough=8000,
          rule="corrupted inputs, one typed corruption per case: unknown / wrong-case / non-string code, a required key "
               "removed from a map dict (the optional 'bounds' key excluded), wrong top-level type, the same through a "
               "yaml file, a key removed from a SplineSetEvaluator dict, model files with an unknown extension, an "
               "unknown explicit format, a format contradicting the content, a file holding another object, a non-model "
               "object; oracle: every call raises and none returns an object; every case is non-trivial",
          tolerances={})
def negative(case, ctx):
    import joblib
    import yaml

    from ciderpress.dft import baselines
    from ciderpress.dft import xc_evaluator as xe
    from ciderpress.dft.model_utils import load_cider_model
    from ciderpress.dft.settings import FeatureSettings, SemilocalSettings
    from ciderpress.dft.transform_data import FeatureList, FeatureNormalizer

    kind = case["kind"]
    ctx.event("kind=" + kind)
    ctx.nontrivial([kind, case["code"], case["drop"], case["top"], case["ext"], case["format"], case["fmt"], case["wrong"], case["map"]["code"]])
    m = build_map_typed(case["map"])
    d = m.as_dict()
    with TmpDir() as tmp:
        if kind == "fl_unknown_code":
            bad = dict(d, code=case["code"])
            _must_raise(ctx, ("accepted", kind), lambda: FeatureNormalizer.from_dict(bad), code=repr(case["code"]))
            _must_raise(ctx, ("accepted", kind), lambda: FeatureList.from_dict({"feat_list": [d, bad]}), code=repr(case["code"]))
        elif kind == "fl_missing_key":
            keys = [k for k in d if k != "bounds"]
            k = keys[case["drop"] % len(keys)]
            bad = {kk: v for kk, v in d.items() if kk != k}
            _must_raise(ctx, ("accepted", kind, case["map"]["code"]), lambda: FeatureList.from_dict({"feat_list": [bad]}), dropped=k)
        elif kind == "fl_top_type":
            top = {"list": [d], "str": "feat_list", "none": None, "featlist_str": {"feat_list": "UU"},
                   "featlist_dict": {"feat_list": {"a": d}}}[case["top"]]
            _must_raise(ctx, ("accepted", kind, case["top"]), lambda: FeatureList.from_dict(top))
        elif kind == "fl_yaml_unknown_code":
            p = os.path.join(tmp, "fl.yaml")
            with open(p, "w") as f:
                yaml.dump({"feat_list": [dict(d, code=case["code"])]}, f)
            _must_raise(ctx, ("accepted", kind), lambda: FeatureList.load(p), code=repr(case["code"]))
        elif kind == "spline_missing_key":
            ev = build_spline_evaluator(_fix_inds(case["spline"], 4), 4)
            dd = ev.to_dict()
            keys = sorted(dd)
            k = keys[case["drop"] % len(keys)]
            bad = {kk: v for kk, v in dd.items() if kk != k}
            _must_raise(ctx, ("accepted", kind, k), lambda: xe.SplineSetEvaluator.from_dict(bad))
            p = os.path.join(tmp, "ev.yaml")
            with open(p, "w") as f:
                yaml.dump(bad, f)
            _must_raise(ctx, ("accepted", kind + "_file", k), lambda: xe.SplineSetEvaluator.load(p))
        else:
            fs = FeatureSettings(sl_settings=SemilocalSettings("npa"))
            fl = FeatureList([build_map_typed(dict(case["map"], idx={k: v % 3 for k, v in case["map"]["idx"].items()}))])
            ev = xe.GlobalLinearEvaluator(rng_from(case["seed"]).uniform(-1, 1, 1))
            model = xe.MappedXC([xe.MappedDFTKernel([ev], fl, "SEP", baselines.lda_x, baselines.zero_xc)], fs)

            def save(obj, path, fmt):
                if fmt == "yaml":
                    with open(path, "w") as f:
                        yaml.dump(obj, f)
                else:
                    joblib.dump(obj, path)

            if kind == "model_bad_extension":
                p = os.path.join(tmp, "model" + case["ext"])
                save(model, p, case["fmt"])
                _must_raise(ctx, ("accepted", kind, case["ext"]), lambda: load_cider_model(p, None))
            elif kind == "model_bad_format":
                p = os.path.join(tmp, "model." + case["fmt"])
                save(model, p, case["fmt"])
                _must_raise(ctx, ("accepted", kind, case["format"]), lambda: load_cider_model(p, case["format"]))
            elif kind == "model_format_mismatch":
                other = "joblib" if case["fmt"] == "yaml" else "yaml"
                p = os.path.join(tmp, "model." + case["fmt"])
                save(model, p, case["fmt"])
                _must_raise(ctx, ("accepted", kind, "content=%s format=%s" % (case["fmt"], other)), lambda: load_cider_model(p, other))
                p2 = os.path.join(tmp, "model2." + other)     # the extension lies about the content
                save(model, p2, case["fmt"])
                _must_raise(ctx, ("accepted", kind, "content=%s ext=%s" % (case["fmt"], other)), lambda: load_cider_model(p2, None))
            elif kind == "model_wrong_object":
                obj = {"featurelist": fl, "dict": {"kernels": [], "settings": None}, "list": [1, 2], "settings": fs,
                       "kernel": model.kernels[0], "evaluator": ev, "empty": None}[case["wrong"]]
                p = os.path.join(tmp, "model." + case["fmt"])
                save(obj, p, case["fmt"])
                _must_raise(ctx, ("accepted", kind, case["wrong"]), lambda: load_cider_model(p, None))
                _must_raise(ctx, ("accepted", kind, case["wrong"]), lambda: load_cider_model(p, case["fmt"]))
            elif kind == "model_not_a_model":
                obj = {"featurelist": fl, "dict": {"a": 1}, "list": [model], "settings": fs, "kernel": model.kernels[0],
                       "evaluator": ev, "empty": None}[case["wrong"]]
                _must_raise(ctx, ("accepted", kind, case["wrong"]), lambda: load_cider_model(obj, None))
                _must_raise(ctx, ("accepted", kind, case["wrong"]), lambda: load_cider_model(obj, case["fmt"]))


# ------------------------------------------------------------------------------------------------
# analyzers: the hdf5 dump / load pair listed among the property's mechanisms
@st.composite
def st_analyzer_case(draw):
    from cpverif import gen_mol as GM

    return {"mol": draw(GM.st_mol_chem(max_atoms=3, max_elec=10, levels=(0,), bases=("sto-3g", "6-31g"))),
            "uks": draw(st.booleans()), "roks": draw(st.booleans()), "grids_level": draw(st.sampled_from([0, 0, 1, 2, 3])),
            "xc": draw(st.sampled_from(["LDA", "PBE"])), "via": draw(st.sampled_from(["from_calc", "from_calc_level", "direct"])),
            "cycles": draw(st.integers(1, 2))}


@subcheck("C14", "analyzer_roundtrip", st_analyzer_case, quick=80, thorough=800, shrink=False,
          rule="RHFAnalyzer / UHFAnalyzer built from a short RKS / UKS / ROKS calculation (2 SCF cycles; from_calc with the calculation's "
               "grid level 0-3, from_calc with an explicit level, or the constructor) with the density tabulated, written with "
               "dump() and read with ElectronAnalyzer.load(), 1-2 cycles: same class, same grids_level, grid coordinates and "
               "weights, density matrix, orbitals, occupations and every stored data entry bit-identical, and the density "
               "recomputed on the reloaded object bit-identical; non-trivial = always",
          tolerances={"stored and recomputed arrays": "bitwise"})
def analyzer_roundtrip(case, ctx):
    from pyscf import dft

    from cpverif import gen_mol as GM
    from ciderpress.pyscf.analyzers import ElectronAnalyzer, RHFAnalyzer, UHFAnalyzer

    mol = GM.build_mol(case["mol"])
    uks = case["uks"] or mol.spin != 0
    # open-shell systems: unrestricted, or restricted open-shell (an RHF-type reference with a spin-resolved density matrix)
    roks = bool(case.get("roks")) and mol.spin != 0
    ks = dft.ROKS(mol) if roks else (dft.UKS(mol) if uks else dft.RKS(mol))
    if roks:
        uks = False
    ks.xc = case["xc"]
    ks.max_cycle = 2
    ks.verbose = 0
    lvl = int(case["grids_level"])
    ks.grids.level = lvl if case["via"] == "from_calc" else 1
    ks.kernel()
    if case["via"] == "from_calc":
        ref = ElectronAnalyzer.from_calc(ks)
    elif case["via"] == "from_calc_level":
        ref = ElectronAnalyzer.from_calc(ks, grids_level=lvl)
    else:
        ref = (UHFAnalyzer if uks else RHFAnalyzer)(mol, ks.make_rdm1(), grids_level=lvl, mo_occ=ks.mo_occ, mo_coeff=ks.mo_coeff,
                                                    mo_energy=ks.mo_energy)
    rho_ref = np.array(ref.get_rho_data(), copy=True)
    ref_kind = "ROKS" if roks else ("UKS" if uks else "RKS")
    ctx.event("%s level=%d via=%s" % (ref_kind, lvl, case["via"]))
    ctx.nontrivial([ref_kind, lvl, case["via"], GM.mol_class(case["mol"]), case["cycles"]])
    cur = ref
    with TmpDir() as tmp:
        for c in range(case["cycles"]):
            p = os.path.join(tmp, "analyzer_%d.hdf5" % c)
            cur.dump(p)
            new = ElectronAnalyzer.load(p)
            tag = "cycle%d" % c
            ctx.check(type(new) is type(ref), ("analyzer", "type"), got=type(new).__name__, want=type(ref).__name__)
            ctx.check(int(new.grids_level) == int(ref.grids_level) == lvl, ("analyzer", "grids_level"), got=repr(new.grids_level), want=lvl)
            ctx.check(new.grids.coords.shape == ref.grids.coords.shape, ("analyzer", "grid_size"),
                      got=int(new.grids.weights.size), want=int(ref.grids.weights.size))
            ctx.equal_bits(new.grids.coords, ref.grids.coords, ("analyzer", "grid_coords"))
            ctx.equal_bits(new.grids.weights, ref.grids.weights, ("analyzer", "grid_weights"))
            for name in ("dm", "mo_occ", "mo_coeff", "mo_energy"):
                ctx.equal_bits(np.asarray(getattr(new, name)), np.asarray(getattr(ref, name)), ("analyzer", "attribute", name), cycle=c)
            ctx.check(set(new.keys()) == set(ref.keys()), ("analyzer", "data_keys"), got=sorted(new.keys()), want=sorted(ref.keys()))
            for k in sorted(ref.keys()):
                a, b = ref.get(k), new.get(k)
                if isinstance(a, str) or isinstance(b, str):
                    ctx.check(a == b, ("analyzer", "data", "string_entry"), key=k, got=repr(b), want=repr(a))
                else:
                    ctx.equal_bits(np.asarray(b), np.asarray(a), ("analyzer", "data", "array_entry"), key=k, cycle=c)
            again = np.array(new.get_rho_data(overwrite=True), copy=True)
            ctx.check(again.shape == rho_ref.shape, ("analyzer", "recomputed_rho_shape"), got=list(again.shape), want=list(rho_ref.shape))
            ctx.equal_bits(again, rho_ref, ("analyzer", "recomputed_rho"), cycle=c)
            cur = new
