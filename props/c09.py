"""C09 -- results are independent of batching, blocking, call history and input aliasing (stateful)."""
import numpy as np
from hypothesis import strategies as st

from cpverif import gen_mol as G
from cpverif.oracles import rng_from
from cpverif.runner import subcheck

MEMLEVELS = [2000.0, 1.0, 0.05]   # one block / a few blocks / the 4*BLKSIZE floor
TOL = {"history_vs_fresh_rtol": 1e-9, "history_vs_fresh_rtol_nldf": 1e-6, "chunking": "bit-identical",
       "caller_arrays": "bit-identical"}


# ------------------------------------------------------------------------------------------------
# M-numint: histories on one live numerical integrator

@st.composite
def st_history(draw, families=("sl", "nldf", "sdmx", "nldf+sdmx")):
    model = draw(G.st_model(families=families, max_kernels=1))
    nmol = 2
    mols = [draw(G.st_mol(max_atoms=2, max_elec=14, levels=(0,), bases=("sto-3g", "6-31g"))) for _ in range(nmol)]
    nops = draw(st.integers(3, 6))
    ops = []
    for _ in range(nops):
        kind = draw(st.sampled_from(["eval", "eval", "eval", "batch", "batch", "regrid_inplace", "regrid_new", "reset", "reset_mol"]))
        mi = draw(st.integers(0, nmol - 1))
        if kind in ("eval", "batch"):
            ops.append({"op": kind, "mol": mi, "uks": draw(st.booleans()), "seed": draw(st.integers(0, 10**6)),
                        "nset": draw(st.integers(2, 3)) if kind == "batch" else 1,
                        "mem": draw(st.integers(0, len(MEMLEVELS) - 1))})
        elif kind == "reset_mol":
            # mf.reset(mol): the integrator is told the molecule of the evaluation that follows
            ops.append({"op": "reset", "mol": mi})
            ops.append({"op": "eval", "mol": mi, "uks": draw(st.booleans()), "seed": draw(st.integers(0, 10**6)), "nset": 1,
                        "mem": draw(st.integers(0, len(MEMLEVELS) - 1))})
        elif kind in ("regrid_inplace", "regrid_new"):
            ops.append({"op": kind, "mol": mi, "level": draw(st.integers(0, 1))})
        else:
            # reset() as PySCF's mf.reset(mol) calls it: without a molecule, or with the molecule of a later evaluation
            ops.append({"op": "reset", "mol": draw(st.sampled_from([None, 0, 1]))})
    if not any(o["op"] in ("eval", "batch") for o in ops[1:]):
        ops.append({"op": "eval", "mol": 0, "uks": False, "seed": 1, "nset": 1, "mem": 0})
    return {"model": model, "mols": mols, "calc": draw(G.st_calc()), "ops": ops}


def st_hist_sl():
    return st_history(families=("sl", "sdmx"))


def st_hist_nldf():
    return st_history(families=("nldf", "nldf+sdmx"))


def _make_grids(mol, level, has_nldf):
    from pyscf.dft.gen_grid import Grids

    from ciderpress.pyscf.gen_cider_grid import CiderGrids

    g = CiderGrids(mol) if has_nldf else Grids(mol)
    g.level = level
    g.build(with_non0tab=True)
    return g


def _fresh_eval(case, mi, level, uks, dms):
    """O-fresh: everything rebuilt from the specs, default memory, one density matrix per call."""
    mol = G.build_mol(case["mols"][mi])
    model = G.build_model(case["model"])
    ks = G.build_calc(mol, model, case["calc"], uks, level=level)
    ni = ks._numint
    if uks:
        return ni.nr_uks(mol, ks.grids, ks.xc, np.array(dms))
    return ni.nr_rks(mol, ks.grids, ks.xc, dms[0])


def _history(case, ctx):
    model = G.build_model(case["model"])
    has_nldf = model.settings.has_nldf
    mols = [G.build_mol(m) for m in case["mols"]]
    ks0 = G.build_calc(mols[0], model, case["calc"], False, level=0)
    ni = ks0._numint
    xc = ks0.xc
    levels = [0 for _ in mols]
    grids = [_make_grids(m, 0, has_nldf) for m in mols]
    fam = "+".join(f for f in ("nldf", "sdmx") if case["model"][f]) or "sl"
    tol = 1e-6 if has_nldf else 1e-9
    ctx.event("family=" + fam)
    nontrivial = False
    changed_since_eval = None
    n_eval = 0
    hist = []
    for op in case["ops"]:
        k = op["op"]
        ctx.event("op=" + k)
        if k == "reset":
            if op.get("mol") is None:
                ni.reset()
                hist.append("reset")
            else:
                ni.reset(mols[op["mol"]])
                hist.append("reset(mol%d)" % op["mol"])
            changed_since_eval = "reset"
            continue
        if k == "regrid_inplace":
            g = grids[op["mol"]]
            g.level = op["level"]
            g.reset()
            g.build(with_non0tab=True)
            levels[op["mol"]] = op["level"]
            changed_since_eval = "regrid_inplace"
            hist.append("regrid_inplace%d" % op["mol"])
            continue
        if k == "regrid_new":
            grids[op["mol"]] = _make_grids(mols[op["mol"]], op["level"], has_nldf)
            levels[op["mol"]] = op["level"]
            changed_since_eval = "regrid_new"
            hist.append("regrid_new%d" % op["mol"])
            continue
        mi, uks, nset = op["mol"], op["uks"], op["nset"]
        mol, g = mols[mi], grids[mi]
        dmspec = {"seed": op["seed"], "uks": uks, "mix": 0.2, "extra": 2}
        sets = G.build_dm(mol, dmspec, nset=nset)
        if uks:
            arr = np.array([[s[0]["dm"] for s in sets], [s[1]["dm"] for s in sets]])   # (2, nset, nao, nao)
            if nset == 1:
                arr = arr[:, 0]
        else:
            arr = np.array([s[0]["dm"] for s in sets])
            if nset == 1:
                arr = arr[0]
        before = arr.copy()
        mem = MEMLEVELS[op["mem"]]
        if uks:
            n, e, v = ni.nr_uks(mol, g, xc, arr, max_memory=mem)
        else:
            n, e, v = ni.nr_rks(mol, g, xc, arr, max_memory=mem)
        n_eval += 1
        label = "%s%s%d" % ("u" if uks else "r", "b%d" % nset if nset > 1 else "", mi)
        hist.append(label)
        ctx.equal_bits(arr, before, ("caller_dm_modified", fam, "uks" if uks else "rks"))
        prev = changed_since_eval
        if n_eval > 1 and prev is None:
            prev = "after_eval"
        what = "batch" if nset > 1 else "single"
        if mem != 2000.0:
            ctx.event("blocked_memory")
        for iset in range(nset):
            dms = [c["dm"] for c in sets[iset]]
            nf, ef, vf = _fresh_eval(case, mi, levels[mi], uks, dms)
            if nset > 1:
                ei = e[iset]
                ni_ = n[:, iset] if uks else n[iset]
                vi = v[:, iset] if uks else v[iset]
            else:
                ei, ni_, vi = e, n, v
            sig = (what, fam, "uks" if uks else "rks", str(prev))
            ctx.close([ei], [ef], sig + ("energy",), rtol=tol, history=hist, iset=iset, mem=mem)
            ctx.close(np.atleast_1d(ni_), np.atleast_1d(nf), sig + ("nelec",), rtol=1e-10, history=hist, iset=iset)
            ctx.close(vi, vf, sig + ("vmat",), rtol=tol, scale=float(np.max(np.abs(vf))), history=hist, iset=iset,
                      mem=mem)
        if nset > 1 or prev not in (None,):
            nontrivial = True
        changed_since_eval = None
    if nontrivial:
        ctx.nontrivial([G.model_signature(case["model"]), hist])


@subcheck("C09", "numint_history_sl", st_hist_sl, quick=32, thorough=400, tolerances=TOL, shrink=False,
          rule="stateful: drawn histories (3-7 operations) on ONE live CIDER numerical integrator without NLDF "
               "(semilocal / SDMX models): eval restricted/unrestricted on either of two molecules, batches of 2-3 density "
               "matrices, max_memory in {2000, 1, 0.05} MB (one block / several / the 4*BLKSIZE floor), grid rebuilt in place "
               "or replaced, reset(); model = O-fresh: the same request on objects rebuilt from scratch, one matrix per call; "
               "caller's density-matrix arrays must stay bit-identical; non-trivial = a batch, or an evaluation after a "
               "change of molecule/grid/spin or after another evaluation; distinct by (model signature, history)")
def numint_history_sl(case, ctx):
    _history(case, ctx)


@subcheck("C09", "numint_history_nldf", st_hist_nldf, quick=32, thorough=400, tolerances=TOL, shrink=False,
          rule="as numint_history_sl, for models with nonlocal density features (NLDFNumInt / cached feature generator)")
def numint_history_nldf(case, ctx):
    _history(case, ctx)


# ------------------------------------------------------------------------------------------------
# evaluator chunking and aliasing at array level

@st.composite
def st_chunk(draw):
    return {"kind": draw(st.sampled_from(["kernel", "rbf", "spline", "linear"])),
            "n": draw(st.sampled_from([1, 2, 1999, 2000, 2001, 3999, 4000, 4001])),
            "n1": draw(st.integers(1, 4)), "seed": draw(st.integers(0, 2**31 - 1)),
            "a": draw(st.floats(0, 1)), "b": draw(st.floats(0, 1))}


@subcheck("C09", "evaluator_chunking", st_chunk, quick=160, thorough=3000, tolerances=TOL,
          rule="every evaluator kind with sample counts around the internal chunk size (1, 2, 1999, 2000, 2001, 3999, 4000, "
               "4001): f(X)[a:b] == f(X[a:b]) and df likewise, bit for bit for the C/numpy kernels (1e-13 for BLAS-backed "
               "Python kernels); X unchanged; accumulate-into-buffer law f(X, r0, d0) == (r0 + f, d0 + df); non-trivial = "
               "N > 2000 or slice crosses a multiple of 2000")
def evaluator_chunking(case, ctx):
    rng = rng_from(case["seed"])
    n, n1 = case["n"], case["n1"]
    part = {"nctrl": 4, "amp": 0.7}
    bounds = [(0.0, 1.0)] * n1
    ev = G._evaluator(case["kind"], n1, part, rng, bounds)
    X = rng.uniform(0.0, 1.0, (n, n1))
    X0 = X.copy()
    f, df = ev(X)
    ctx.equal_bits(X, X0, ("input_modified", case["kind"]))
    a, b = sorted([int(case["a"] * n), int(case["b"] * n)])
    b = max(b, a + 1) if n > 0 else b
    b = min(b, n)
    fs, dfs = ev(np.ascontiguousarray(X[a:b]))
    ctx.event("kind=" + case["kind"])
    ctx.event("N=%d" % n)
    if n > 2000 or (a // 2000 != max(b - 1, a) // 2000):
        ctx.nontrivial([case["kind"], n, a // 2000, b // 2000, n1])
    if case["kind"] in ("kernel", "linear"):   # BLAS-backed: dot products may reassociate with alignment
        ctx.close(f[a:b], fs, ("chunk", "value", case["kind"]), rtol=1e-12, scale=float(np.max(np.abs(f))) + 1e-300)
        ctx.close(df[a:b], dfs, ("chunk", "deriv", case["kind"]), rtol=1e-12, scale=float(np.max(np.abs(df))) + 1e-300)
    else:
        ctx.equal_bits(f[a:b].copy(), fs, ("chunk", "value", case["kind"]))
        ctx.equal_bits(df[a:b].copy(), dfs, ("chunk", "deriv", case["kind"]))
    r0 = rng.normal(size=n)
    d0 = rng.normal(size=(n, n1))
    r1, d1 = ev(X, r0.copy(), d0.copy())
    ctx.close(r1, r0 + f, ("accumulate", "value", case["kind"]), rtol=1e-13, scale=float(np.max(np.abs(r0) + np.abs(f))))
    ctx.close(d1, d0 + df, ("accumulate", "deriv", case["kind"]), rtol=1e-13,
              scale=float(np.max(np.abs(d0)) + np.max(np.abs(df))))


# ------------------------------------------------------------------------------------------------
# caller-owned arrays at the lower layers

@st.composite
def st_alias(draw):
    return {"n": draw(st.integers(1, 30)), "seed": draw(st.integers(0, 2**31 - 1)),
            "mode": draw(st.sampled_from(["npa", "nst", "np", "ns"])), "nspin": draw(st.sampled_from([1, 2])),
            "nlow": draw(st.integers(0, 3))}


@subcheck("C09", "lower_layer_aliasing", st_alias, quick=600, thorough=10000, tolerances=TOL,
          rule="semilocal plan, exponent functions, normaliser list and feature list called on generated per-point data that "
               "includes densities below the internal cutoffs: every caller-owned input array is bit-identical afterwards and "
               "a second identical call returns bit-identical results; non-trivial = at least one density below 1e-10")
def lower_layer_aliasing(case, ctx):
    from ciderpress.dft.plans import SemilocalPlan
    from ciderpress.dft.settings import SemilocalSettings, get_cider_exponent, get_cider_exponent_gga

    from props.c07 import _rho_data

    rng = rng_from(case["seed"])
    n, nspin, mode = case["n"], case["nspin"], case["mode"]
    rho = np.stack([_rho_data(rng, n) for _ in range(nspin)])
    for k in range(min(case["nlow"], n)):
        rho[:, :, k] *= 1e-13
    if case["nlow"] > 0:
        ctx.nontrivial([mode, nspin, n, case["nlow"]])
    ctx.event("mode=" + mode)
    plan = SemilocalPlan(SemilocalSettings(mode), nspin)
    r0 = rho.copy()
    f1 = plan.get_feat(rho)
    ctx.equal_bits(rho, r0, ("sl_get_feat", "input_modified"))
    f2 = plan.get_feat(rho)
    ctx.equal_bits(f1, f2, ("sl_get_feat", "repeat"))
    vf = rng.normal(size=f1.shape)
    vf0 = vf.copy()
    v1 = plan.get_vxc(rho, vf)
    ctx.equal_bits(rho, r0, ("sl_get_vxc", "rho_modified"))
    ctx.equal_bits(vf, vf0, ("sl_get_vxc", "vfeat_modified"))
    v2 = plan.get_vxc(rho, vf)
    ctx.equal_bits(v1, v2, ("sl_get_vxc", "repeat"))
    r, s, t = rho[0, 0].copy(), (rho[0, 1:4] ** 2).sum(0), rho[0, 4].copy()
    rr, ss, tt = r.copy(), s.copy(), t.copy()
    e1 = get_cider_exponent(r, s, t, a0=1.5, grad_mul=0.02, tau_mul=0.03, nspin=nspin)
    for got, want, nm in ((r, rr, "rho"), (s, ss, "sigma"), (t, tt, "tau")):
        ctx.equal_bits(got, want, ("get_cider_exponent", nm + "_modified"))
    e2 = get_cider_exponent_gga(r, s, a0=1.5, grad_mul=0.02, nspin=nspin)
    for got, want, nm in ((r, rr, "rho"), (s, ss, "sigma")):
        ctx.equal_bits(got, want, ("get_cider_exponent_gga", nm + "_modified"))
    # normaliser list
    from ciderpress.dft.feat_normalizer import FeatNormalizerList, get_normalizer_from_exponent_params

    nsl = f1.shape[1]
    nl = FeatNormalizerList([None] * nsl + [get_normalizer_from_exponent_params(0.0, -1.0, 1.5, 0.03), None], mode)
    X = np.concatenate([f1, rng.normal(size=(nspin, 2, n))], axis=1)
    X0 = X.copy()
    xn = nl.get_normalized_feature_vector(X)
    ctx.equal_bits(X, X0, ("normalizer_fwd", "input_modified"))
    dv = rng.normal(size=X.shape)
    dv0 = dv.copy()
    nl.get_derivative_wrt_unnormed_features(X, dv)
    ctx.equal_bits(X, X0, ("normalizer_bwd", "input_modified"))
    ctx.equal_bits(dv, dv0, ("normalizer_bwd", "cotangent_modified"))


# ------------------------------------------------------------------------------------------------
# M-generator: histories on one live NLDF feature generator (the object below the integrator)

@st.composite
def st_gen_history(draw):
    nldf = draw(G.st_nldf())
    mol = draw(G.st_mol(min_atoms=1, max_atoms=2, elements=["H", "He", "Li", "Be", "C", "N", "O", "F"], max_elec=12,
                        levels=(0,), bases=("sto-3g", "6-31g"), min_elec=2))
    nspin = draw(st.sampled_from([1, 2]))
    ops = []
    have = set()
    for _ in range(draw(st.integers(3, 7))):
        spin = draw(st.integers(0, nspin - 1))
        if spin not in have or draw(st.sampled_from(range(3))) == 0:
            ops.append({"op": "features", "spin": spin, "seed": draw(st.integers(0, 10**6))})
            have.add(spin)
        else:
            ops.append({"op": "potential", "spin": spin, "seed": draw(st.integers(0, 10**6))})
    if not any(o["op"] == "potential" for o in ops):
        ops.append({"op": "potential", "spin": ops[0]["spin"], "seed": 7})
    return {"mol": mol, "nldf": nldf, "nspin": nspin, "ops": ops, "plan_type": draw(st.sampled_from(["gaussian", "spline"])),
            "interp": draw(st.sampled_from(["onsite_direct", "onsite_spline"]))}


@subcheck("C09", "nldf_generator_history", st_gen_history, quick=48, thorough=600, tolerances=TOL, shrink=False,
          rule="stateful: drawn histories (3-8 operations) on ONE live PyscfNLDFGenerator (all NLDF versions, both plan types and "
               "fast interpolators, nspin 1/2): get_features(rho_k, spin) for generated densities (PSD density matrices of the "
               "molecule) and get_potential(v_k, spin) for generated cotangents, including several potentials after one "
               "feature call and interleaved spins; oracle: a freshly built generator that has seen only get_features of the "
               "density currently cached for that spin and then this one get_potential; results equal to 1e-12 of the largest "
               "entry, caller-owned rho and v arrays bit-identical; non-trivial = a potential that is not the first one after "
               "its feature call, or a feature call for another spin in between")
def nldf_generator_history(case, ctx):
    from pyscf.dft import numint as pnumint

    from ciderpress.pyscf.nldf_convolutions import PyscfNLDFGenerator

    mol = G.build_mol(case["mol"])
    settings = G.build_nldf(case["nldf"])
    grids = _make_grids(mol, 0, True)
    nspin = case["nspin"]
    ao = pnumint.eval_ao(mol, grids.coords, deriv=1)
    nrow = 4 if case["nldf"]["level"] == "GGA" else 5

    def make_gen():
        gen = PyscfNLDFGenerator.from_mol_and_settings(mol, grids.grids_indexer, nspin, settings, plan_type=case["plan_type"],
                                                       interpolator_type=case["interp"])
        gen.interpolator.set_coords(grids.coords)
        return gen

    def rho_of(seed):
        dm = G.build_dm(mol, {"seed": seed, "uks": False, "mix": 0.3, "extra": 2})[0][0]["dm"]
        r = pnumint.eval_rho(mol, ao, dm, xctype="MGGA", with_lapl=False)[:nrow]
        return np.ascontiguousarray(r / nspin)

    gen = make_gen()
    ctx.event("nldf=%s/%s/%s/%s" % (case["nldf"]["version"], case["nldf"]["level"], case["plan_type"], case["interp"]))
    cached = {}
    since_feat = {}
    nontrivial = False
    hist = []
    for op in case["ops"]:
        sp = op["spin"]
        if op["op"] == "features":
            rho = rho_of(op["seed"])
            r0 = rho.copy()
            f = np.array(gen.get_features(rho, spin=sp), copy=True)
            ctx.equal_bits(rho, r0, ("generator", "rho_modified_by_get_features"))
            fresh = make_gen()
            ff = np.array(fresh.get_features(rho.copy(), spin=sp), copy=True)
            ctx.close(f, ff, ("generator", "features_vs_fresh", "after:" + (hist[-1] if hist else "start")), rtol=1e-12,
                      scale=float(np.max(np.abs(ff))) + 1e-300, history=hist)
            cached[sp] = rho
            since_feat[sp] = 0
            for other in since_feat:
                if other != sp:
                    since_feat[other] = max(since_feat[other], 0) + 0
            hist.append("F%d" % sp)
            continue
        rho = cached[sp]
        nfeat = settings.nfeat
        v = rng_from(op["seed"]).normal(size=(nfeat, rho.shape[1]))
        v0 = v.copy()
        r0 = rho.copy()
        p = np.array(gen.get_potential(v, spin=sp), copy=True)
        ctx.equal_bits(v, v0, ("generator", "vfeat_modified_by_get_potential"))
        ctx.equal_bits(rho, r0, ("generator", "rho_modified_by_get_potential"))
        fresh = make_gen()
        fresh.get_features(rho.copy(), spin=sp)
        pf = np.array(fresh.get_potential(v0.copy(), spin=sp), copy=True)
        kind = "first" if since_feat[sp] == 0 and hist[-1] == "F%d" % sp else "repeat_or_interleaved"
        if kind != "first":
            nontrivial = True
        ctx.event("potential:" + kind)
        ctx.close(p, pf, ("generator", "potential_vs_fresh", kind), rtol=1e-12, scale=float(np.max(np.abs(pf))) + 1e-300,
                  history=hist)
        since_feat[sp] += 1
        hist.append("P%d" % sp)
    if nontrivial:
        ctx.nontrivial([G.mol_class(case["mol"]), case["nldf"]["version"], case["nldf"]["level"], case["plan_type"], case["interp"], hist])
