"""C03 -- declared uniform-scaling powers hold; normalised features are scale invariant."""
import numpy as np
from hypothesis import strategies as st

from cpverif import gen_mol as G
from cpverif.oracles import rng_from
from cpverif.runner import subcheck

TOL = {"local_rtol": 1e-10, "sdmx_integral_rtol": 1e-8, "energy_rtol": "1e-7 |E| + 3e-9 |E_x^LDA|", "nldf_integral": "truncation-limited, see rule"}
CFC = 0.3 * (3 * np.pi**2) ** (2.0 / 3)


def st_lambda():
    return st.floats(np.log(0.3), np.log(3.0)).map(lambda t: float(np.exp(t))).filter(lambda x: abs(np.log(x)) > 0.05)


def rho_data(rng, n):
    rho = np.exp(rng.uniform(np.log(1e-3), np.log(20.0), n))
    g = rng.normal(size=(3, n)) * rho ** (4.0 / 3) * rng.uniform(0.2, 3.0, n)
    sigma = (g * g).sum(0)
    tau = sigma / (8 * rho) * rng.uniform(1.2, 2.0, n) + rng.uniform(0.05, 2.0, n) * CFC * rho ** (5.0 / 3)
    return np.array([rho, g[0], g[1], g[2], tau])


def scale_rho_data(rd, lam):
    out = rd.copy()
    out[..., 0, :] *= lam**3
    out[..., 1:4, :] *= lam**4
    out[..., 4, :] *= lam**5
    return out


# ------------------------------------------------------------------------------------------------
@st.composite
def st_local(draw):
    model = draw(G.st_model(max_kernels=1))
    from cpverif import gen_settings as GS

    # fractional-Laplacian settings (no molecular generator exists for them in the PySCF interface, so they only
    # take part in the declared-power / normaliser part (3) of this sub-check)
    nlof = draw(GS.st_fraclapl()) if draw(st.integers(0, 2)) == 0 else None
    return {"settings": {"sl": model["sl"], "nldf": model["nldf"], "sdmx": model["sdmx"], "nlof": nlof},
            "lam": draw(st_lambda()), "nspin": draw(st.sampled_from([1, 2])), "n": draw(st.integers(1, 8)),
            "seed": draw(st.integers(0, 2**31 - 1)),
            "a0": draw(st.floats(0.7, 4.0)), "grad_mul": draw(st.sampled_from([0.0, 0.03, 0.1])),
            "tau_mul": draw(st.sampled_from([0.0, 0.03, 0.1]))}


@subcheck("C03", "local_scaling", st_local, quick=4000, thorough=80000, tolerances=TOL,
          rule="lambda log-uniform in [0.3,3] (|log lambda| > 0.05), generated per-point (rho, grad, tau) scaled as "
               "(l^3, l^4, l^5): (1) SemilocalPlan.get_feat scales with exactly the powers of sl_settings.get_feat_usps() in all "
               "four modes and both nspin; (2) get_cider_exponent / _gga scale as l^2 for every parameter tuple; (3) for every "
               "FeatureSettings (semilocal + drawn NLDF / SDMX / fractional-Laplacian settings): a raw feature vector whose nonlocal rows are scaled "
               "by the declared raw powers is mapped by get_normalized_feature_vector to one that scales with exactly "
               "get_feat_usps(with_normalizers=True), and after assign_reasonable_normalizer() those powers are 0 for every "
               "nonlocal feature (or the settings raised NotImplementedError); tolerance 1e-10 relative, elementwise; "
               "non-trivial = settings contain a nonlocal family")
def local_scaling(case, ctx):
    from ciderpress.dft.plans import SemilocalPlan
    from ciderpress.dft.settings import get_cider_exponent, get_cider_exponent_gga

    lam, nspin, n = case["lam"], case["nspin"], case["n"]
    rng = rng_from(case["seed"])
    rd = np.stack([rho_data(rng, n) / nspin for _ in range(nspin)])
    rdl = scale_rho_data(rd, lam)
    spec = dict(case["settings"], normalize=True)

    # s = sqrt(sigma) / (b rho^(4/3) + 1e-16) is not scale invariant: relative to the exact form s^2 is off by
    # 2e-16 / (b rho^(4/3)), at rho and at lambda^3 rho (9e-11 at 1.5e-5, the lowest scaled density the generator reaches
    # with lambda = 0.31).  A factor 10 covers what the features and normalisers make of it (|power| <= 2; alpha divides by
    # tau - tau_W >= 0.2 tau_W).  The fixed 1e-10 alone was exceeded by 9 % in the thorough tier at seed 4.
    b_ = 2 * (3 * np.pi**2) ** (1.0 / 3)
    rho_low = float(min(np.min(rd[:, 0]), np.min(rdl[:, 0])))
    reg = 10.0 * 2e-16 / (b_ * rho_low ** (4.0 / 3))

    def relclose(got, want, sig, rtol=1e-10, **kw):
        got, want = np.asarray(got, float), np.asarray(want, float)
        den = np.maximum(np.abs(want), np.abs(got)) + 1e-300
        ctx.close((got - want) / den, np.zeros_like(den), sig, rtol=0, atol=rtol + reg, **kw)

    # (3) needs the settings; NotImplementedError from the recommended normalisers is a documented outcome
    from ciderpress.dft import settings as S
    from cpverif import gen_settings as GS

    fs = S.FeatureSettings(sl_settings=S.SemilocalSettings(spec["sl"]),
                           nldf_settings=G.build_nldf(spec["nldf"]) if spec["nldf"] else None,
                           sdmx_settings=G.build_sdmx(spec["sdmx"]) if spec["sdmx"] else None,
                           nlof_settings=GS.build_settings(spec["nlof"]) if spec.get("nlof") else None)
    mode = spec["sl"]
    ctx.event("mode=" + mode)
    plan = SemilocalPlan(fs.sl_settings, nspin)
    f0 = plan.get_feat(rd.copy())
    f1 = plan.get_feat(rdl.copy())
    usp_sl = fs.sl_settings.get_feat_usps()
    for k, u in enumerate(usp_sl):
        relclose(f1[:, k], f0[:, k] * lam**u, ("semilocal_usp", mode, "row%d" % k), lam=lam)
    # (2) exponents
    sig = (rd[:, 1:4] ** 2).sum(1)
    sigl = (rdl[:, 1:4] ** 2).sum(1)
    tm = min(case["tau_mul"], case["a0"] / 6.5)
    for s in range(nspin):
        a = get_cider_exponent(rd[s, 0].copy(), sig[s].copy(), rd[s, 4].copy(), a0=case["a0"], grad_mul=case["grad_mul"],
                               tau_mul=tm, rhocut=1e-20, nspin=nspin)[0]
        al = get_cider_exponent(rdl[s, 0].copy(), sigl[s].copy(), rdl[s, 4].copy(), a0=case["a0"], grad_mul=case["grad_mul"],
                                tau_mul=tm, rhocut=1e-20, nspin=nspin)[0]
        relclose(al, a * lam**2, ("exponent_mgga_usp",), lam=lam)
        g = get_cider_exponent_gga(rd[s, 0].copy(), sig[s].copy(), a0=case["a0"], grad_mul=case["grad_mul"], rhocut=1e-20,
                                   nspin=nspin)[0]
        gl = get_cider_exponent_gga(rdl[s, 0].copy(), sigl[s].copy(), a0=case["a0"], grad_mul=case["grad_mul"], rhocut=1e-20,
                                    nspin=nspin)[0]
        relclose(gl, g * lam**2, ("exponent_gga_usp",), lam=lam)
    # (3) normalisers
    nsl = fs.sl_settings.nfeat
    nnl = fs.nfeat - nsl
    if nnl == 0:
        return
    fam = "+".join(f for f in ("nldf", "nlof", "sdmx") if spec.get(f))
    ctx.event("family=" + fam)
    try:
        fs.assign_reasonable_normalizer()
        reasonable = True
    except NotImplementedError:
        reasonable = False
        ctx.event("no_reasonable_normalizer")
    raw_usps = np.asarray(fs.get_feat_usps(with_normalizers=False), float)
    norm_usps = np.asarray(fs.get_feat_usps(with_normalizers=True), float)
    ctx.check(len(raw_usps) == fs.nfeat == len(norm_usps), ("usp_list_length",))
    X = np.empty((nspin, fs.nfeat, n))
    X[:, :nsl] = f0
    X[:, nsl:] = rng.uniform(0.1, 3.0, (nspin, nnl, n)) * rng.choice([-1.0, 1.0], (nspin, nnl, n))
    Xl = X.copy()
    Xl[:, :nsl] = f1
    Xl[:, nsl:] = X[:, nsl:] * (lam ** raw_usps[nsl:])[None, :, None]
    XN = fs.normalizers.get_normalized_feature_vector(X.copy())
    XNl = fs.normalizers.get_normalized_feature_vector(Xl.copy())
    ctx.nontrivial([spec["sl"], G.model_signature(dict(spec, xc2=False, kernels=[]))[1:3], nspin,
                    None if not spec.get("nlof") else [len(spec["nlof"]["slist"]), spec["nlof"]["nk0"], len(spec["nlof"]["l1_dots"]),
                                                       len(spec["nlof"]["ld_dots"]), spec["nlof"]["ndd"]]])
    for k in range(fs.nfeat):
        cls = "sl" if k < nsl else fam
        relclose(XNl[:, k], XN[:, k] * lam ** norm_usps[k], ("normalized_usp", cls, mode), feature=k, lam=lam,
                 declared=float(norm_usps[k]))
    if reasonable:
        for k in range(nsl, fs.nfeat):
            ctx.check(abs(norm_usps[k]) < 1e-12, ("recommended_normalizer_not_scale_invariant", fam), feature=k,
                      usp=float(norm_usps[k]), raw=float(raw_usps[k]))


# ------------------------------------------------------------------------------------------------
def scaled_mol(mol, mspec, lam):
    """mol_lambda: coordinates / lambda, every primitive exponent * lambda^2, same contraction coefficients"""
    from pyscf import gto

    basis = {}
    for symb, shells in mol._basis.items():
        new = []
        for b in shells:
            head = [b[0]]
            rest = b[1:]
            if isinstance(rest[0], int):
                head.append(rest[0])
                rest = rest[1:]
            new.append(head + [[float(p[0]) * lam**2] + [float(c) for c in p[1:]] for p in rest])
        basis[symb] = new
    atoms = [(a, tuple(np.array(p) / lam)) for a, p in mspec["atoms"]]
    return gto.M(atom=atoms, unit="Bohr", basis=basis, spin=mspec["spin"], charge=mspec.get("charge", 0), verbose=0)


@st.composite
def st_sdmx_case(draw):
    return {"mol": draw(G.st_mol(max_atoms=3, max_elec=18, levels=(0,), bases=("sto-3g", "6-31g", "6-31g*", "cc-pvdz"))),
            "sdmx": draw(G.st_sdmx()), "dm": draw(G.st_dm()), "lam": draw(st_lambda()),
            "npts": draw(st.integers(8, 40)), "seed": draw(st.integers(0, 2**31 - 1))}


@subcheck("C03", "sdmx_integral_scaling", st_sdmx_case, quick=64, thorough=1000, tolerances=TOL, shrink=False,
          rule="G-mol x PSD dm (restricted or per spin) x every SDMX settings class x lambda: the scaled molecule (coordinates / "
               "lambda, primitive exponents * lambda^2, same coefficients, same density matrix) has n_l(r) = l^3 n(l r) exactly; "
               "features from the fast SDMX generator at points r/lambda equal lambda^usp times the features of the original "
               "molecule at r with usp from get_feat_usps() (the generator's exponent ladder scales with the basis, so the "
               "identity is exact: 1e-8); non-trivial = |log lambda| > 0.1 and some |feature| > 1e-6")
def sdmx_integral_scaling(case, ctx):
    from ciderpress.pyscf.sdmx import EXXSphGenerator

    lam = case["lam"]
    mol = G.build_mol(case["mol"])
    mol_l = scaled_mol(mol, case["mol"], lam)
    settings = G.build_sdmx(case["sdmx"])
    chans = G.build_dm(mol, case["dm"])[0]
    nspin = len(chans)
    dms = np.array([c["dm"] for c in chans])
    rng = rng_from(case["seed"])
    c = mol.atom_coords()
    pts = c[rng.integers(0, len(c), case["npts"])] + rng.normal(size=(case["npts"], 3)) * 0.9
    gen = EXXSphGenerator.from_settings_and_mol(settings, nspin, mol)
    gen_l = EXXSphGenerator.from_settings_and_mol(settings, nspin, mol_l)
    arg = dms if nspin == 2 else dms[0]
    f = np.array(gen.get_features(arg, mol, np.ascontiguousarray(pts)), copy=True)
    fl = np.array(gen_l.get_features(arg, mol_l, np.ascontiguousarray(pts / lam)), copy=True)
    usps = np.asarray(settings.get_feat_usps(), float)
    ctx.event("sdmx=" + case["sdmx"]["cls"])
    ctx.check(f.shape[-2] == len(usps) == settings.nfeat, ("nfeat_vs_usps",), got=f.shape, n=len(usps))
    if abs(np.log(lam)) > 0.1 and np.max(np.abs(f)) > 1e-6:
        ctx.nontrivial([case["sdmx"], G.mol_class(case["mol"]), nspin])
    f = f.reshape(-1, len(usps), case["npts"])
    fl = fl.reshape(-1, len(usps), case["npts"])
    for k, u in enumerate(usps):
        want = f[:, k] * lam**u
        ctx.close(fl[:, k], want, ("sdmx_usp", case["sdmx"]["cls"], "l1" if k >= gen.plan.num_l0_feat else "l0"), rtol=1e-8,
                  scale=float(np.max(np.abs(want))) + 1e-300, feature=k, lam=lam, declared=float(u))


# ------------------------------------------------------------------------------------------------
@st.composite
def st_energy_case(draw):
    model = draw(G.st_model(sl_modes=("npa", "np"), families=("sl", "sdmx"), allow_xc2=False, max_kernels=2))
    for k in model["kernels"]:
        k["mul"] = "LDA_X"
        k["add"] = draw(st.sampled_from([None, "ZERO"]))
    model["scale_invariant_maps"] = True
    return {"mol": draw(G.st_mol(max_atoms=3, max_elec=18, levels=(0, 1), bases=("sto-3g", "6-31g"))), "model": model,
            "dm": draw(G.st_dm()), "lam": draw(st_lambda())}


@subcheck("C03", "exchange_energy_scaling", st_energy_case, quick=40, thorough=600, tolerances=TOL, shrink=False,
          rule="models whose transforms read only scale-invariant features (semilocal p, alpha; recommended-normalised SDMX "
               "features) with the LDA-exchange multiplicative baseline, xmix=1, no extra semilocal terms: E_x[n_lambda] == "
               "lambda * E_x[n] with the scaled molecule on the exactly scaled grid (coords/lambda, weights/lambda^3), and "
               "nelec equal, through nr_rks / nr_uks; 1e-7 (regulariser-limited, measured 4e-9); non-trivial = |log lambda| > 0.1")
def exchange_energy_scaling(case, ctx):
    from pyscf.dft.gen_grid import Grids

    lam = case["lam"]
    mol = G.build_mol(case["mol"])
    mol_l = scaled_mol(mol, case["mol"], lam)
    uks = case["dm"]["uks"]
    chans = G.build_dm(mol, case["dm"])[0]
    dms = [c["dm"] for c in chans]
    cs = {"xmix": 1.0, "xc": None, "xkernel": None, "ckernel": None, "rhocut": 0.0}

    def run(m, grids):
        model = G.build_model(case["model"])
        ks = G.build_calc(m, model, cs, uks, level=case["mol"]["grid_level"])
        ni = ks._numint
        g = ks.grids if grids is None else grids
        if uks:
            return ni.nr_uks(m, g, ks.xc, np.array(dms)), ks.grids
        return ni.nr_rks(m, g, ks.xc, dms[0]), ks.grids

    (n0, e0, v0), g0 = run(mol, None)
    gl = Grids(mol_l)
    gl.coords = g0.coords / lam
    gl.weights = g0.weights / lam**3
    gl.non0tab = gl.make_mask(mol_l, gl.coords)
    gl.screen_index = gl.non0tab
    (n1, e1, v1), _ = run(mol_l, gl)
    fam = "sdmx" if case["model"]["sdmx"] else "sl"
    ctx.event("family=" + fam)
    ctx.event("uks" if uks else "rks")
    if abs(np.log(lam)) > 0.1 and abs(e0) > 1e-6:
        ctx.nontrivial([G.mol_class(case["mol"]), G.model_signature(case["model"]), uks])
    ctx.close(np.atleast_1d(n1), np.atleast_1d(n0), ("nelec",), rtol=1e-10)
    # not exact to rounding: the +1e-16 regularisers in s^2 / tau_W and the 1e-10 density floors are not scale
    # invariant; measured residual <= 4e-9
    # The synthetic enhancement factors have either sign, so |E| can be orders of magnitude below the integrated
    # |energy density| (thorough tier: E = -5e-3 Eh on He-B with an absolute residual of 1e-9): the absolute part of
    # the tolerance is 3e-9 of the LDA exchange energy of the density (measured residual 3e-10 of it at lambda = 0.32)
    from pyscf.dft import numint as pnumint

    rho_tot = sum(pnumint.eval_rho(mol, pnumint.eval_ao(mol, g0.coords), dm, xctype="LDA") for dm in dms)
    e_lda = 0.7386 * float(np.dot(g0.weights, np.maximum(rho_tot, 0.0) ** (4.0 / 3)))
    # explicit budget for the terms that are not scale invariant by construction: s^2 = sigma / (b^2 rho^(8/3) + 1e-16)
    # is off by delta(rho) = 1e-16 / (b^2 rho^(8/3) + 1e-16) (2.6 % at rho = 1e-6), at rho and at lambda^3 rho, and the
    # 1e-9 model cutoff removes points on one side only; each weighted with the LDA exchange density and a factor 3 for
    # the slope of the synthetic enhancement factors
    rpos = np.maximum(rho_tot, 0.0)
    b2 = (2 * (3 * np.pi**2) ** (1.0 / 3)) ** 2
    delta = sum(1e-16 / (b2 * (c * rpos) ** (8.0 / 3) + 1e-16) + ((c * rpos) < 1e-9) for c in (1.0, lam**3))
    e_reg = 3.0 * 0.7386 * float(np.dot(g0.weights, rpos ** (4.0 / 3) * np.minimum(delta, 2.0)))
    ctx.close([e1], [lam * e0], ("exchange_energy", fam), rtol=1e-7, atol=lam * (3e-9 * e_lda + e_reg), lam=lam)


# ------------------------------------------------------------------------------------------------
def probe_grids(mol, pts):
    """a PySCF Grids object carrying arbitrary probe points (weights 1), usable as `pgrids` of the descriptor getters"""
    from pyscf.dft.gen_grid import Grids

    g = Grids(mol)
    g.coords = np.ascontiguousarray(pts)
    g.weights = np.ones(len(pts))
    g.non0tab = g.make_mask(mol, g.coords)
    g.screen_index = g.non0tab
    return g


@st.composite
def st_nldf_case(draw):
    # compression only (lambda > 1): an expanded copy pushes the exponents below the fixed lower end of the ladders
    # (alpha_min = theta_0/256), where vector features that are small differences of large terms lose all accuracy
    lam = draw(st.floats(np.log(1.35), np.log(2.0)).map(lambda t: float(np.exp(t))))
    nldf = draw(G.st_nldf(levels=("MGGA", "GGA")))
    mol = draw(G.st_mol(min_atoms=1, max_atoms=2, elements=["H", "He", "Li", "Be", "C", "N", "O", "F"], max_elec=12,
                        levels=(1,), bases=("sto-3g", "6-31g"), min_elec=2))
    return {"mol": mol, "nldf": nldf, "dm": draw(G.st_dm(uks=False)), "lam": lam, "npts": draw(st.integers(12, 30)),
            "seed": draw(st.integers(0, 2**31 - 1)), "plan_type": draw(st.sampled_from(["gaussian", "spline"]))}


@subcheck("C03", "nldf_integral_scaling", st_nldf_case, quick=32, thorough=400, tolerances=dict(TOL, nldf_empirical_power_atol=0.35, nldf_rtol=0.3),
          shrink=False, max_shards=16,
          rule="G-mol (1-2 light atoms) x PSD dm x every NLDF version / level / rho_mult / spec list x lambda in "
               "[1.35, 2] (compression; the reverse direction is the same identity read backwards): raw NLDF features from the reference-grade descriptor path (train_gen interpolator, inner grid "
               "level 3, Gaussian or spline plan) for the scaled molecule at points r/lambda vs lambda^usp times the features "
               "of the original molecule at r, usp from nldf_settings.get_feat_usps(). The fixed exponent ladders do not scale "
               "with the density, so the comparison is truncation limited: (i) the empirical power, median of "
               "log(F_l/F)/log(lambda) over probe points with > 20% of the feature's maximum, must be within 0.35 of the declared "
               "one (measured <= 0.11 on the pinned tree; a power off by one gives 1.0); (ii) max deviation <= 0.3 of the feature's "
               "maximum (measured <= 0.154); probe points carry density > 3% of the maximum (exponents well inside the ladder); kernels weighted with positive powers of |r-r'| (se_r2, se_rvec and their dot products) are tail "
               "dominated: se_r2 is counted but not judged, se_rvec dot products only for a gross (>= 1) error of the "
               "power; non-trivial = some |feature| > 1e-6")
def nldf_integral_scaling(case, ctx):
    from ciderpress.pyscf.descriptors import _nldf_desc_getter

    lam = case["lam"]
    mol = G.build_mol(case["mol"])
    mol_l = scaled_mol(mol, case["mol"], lam)
    settings = G.build_nldf(case["nldf"])
    dm = G.build_dm(mol, case["dm"])[0][0]["dm"]
    rng = rng_from(case["seed"])
    c = mol.atom_coords()
    pts = c[rng.integers(0, len(c), 4 * case["npts"])] + rng.normal(size=(4 * case["npts"], 3)) * 0.8
    from pyscf.dft import numint

    rho = numint.eval_rho(mol, numint.eval_ao(mol, pts), dm)
    keep = np.argsort(-rho)[: case["npts"]]
    # stay where the length-scale exponent a ~ rho^(2/3) is well inside the exponent ladder (its lower end is
    # alpha_min = theta_0/256): rho > 3% of the maximum keeps a within a factor 10 of its largest value
    keep = keep[rho[keep] > 3e-2 * rho.max()]
    pts = pts[keep]
    kw = dict(plan_type=case["plan_type"], inner_grids_level=3, aux_lambd=1.6)     # explicit: the default is a tuning parameter
    f = np.asarray(_nldf_desc_getter(mol, probe_grids(mol, pts), dm, settings, **kw))
    fl = np.asarray(_nldf_desc_getter(mol_l, probe_grids(mol_l, pts / lam), dm, settings, **kw))
    usps = np.asarray(settings.get_feat_usps(), float)
    v = case["nldf"]
    ctx.event("nldf=%s/%s/%s/%s" % (v["version"], v["level"], v["rho_mult"], case["plan_type"]))
    ctx.check(f.shape[0] == len(usps) == settings.nfeat, ("nfeat_vs_usps",), got=f.shape, n=len(usps))
    specs = list(v.get("jspecs", [])) + list(v.get("l0", [])) + ["dot:%s.%s" % tuple(d) for d in v.get("dots", [])]
    if v["version"] == "k":
        specs = ["se"] * len(v["kparams"])
    if np.max(np.abs(f)) > 1e-6:
        ctx.nontrivial([v["version"], v["level"], v["rho_mult"], specs, case["plan_type"]])
    l1 = v.get("l1", [])
    tailpair = None
    for k, u in enumerate(usps):
        want = f[k] * lam**u
        sc = float(np.max(np.abs(want))) + 1e-300
        ctx.event("spec=" + str(specs[k]))
        # kernels weighted with positive powers of |r - r'| (se_r2, se_rvec) are dominated by the density tail, where
        # the length-scale exponent lies below the fixed lower end of the ladder; their fast value depends on that
        # clamp more than on lambda (measured deviations of O(1) on the pinned tree), so they are counted, not judged
        tail = specs[k] == "se_r2" or (str(specs[k]).startswith("dot:") and any(
            idx >= 0 and l1[idx] == "se_rvec" for idx in v["dots"][k - len(v.get("jspecs", [])) - len(v.get("l0", []))]))
        sig = ("nldf_usp", v["version"], str(specs[k]), v["rho_mult"])
        if tail:
            ctx.event("tail_dominated_kernel")
            # se_rvec dot products: only a gross error of the declared power (>= 1) is judged; se_r2 not at all.  They are
            # judged on a ladder whose lower end is 16 times lower than the default (theta_0 / 4096): with the default
            # ladder the clamp, not lambda, decides the value (thorough tier, seed 1: measured power 0.72 for a declared 3
            # on an O atom; 3.28 and 3.32 with the lower end divided by 16 and 256)
            if specs[k] == "se_r2":
                continue
            if tailpair is None:
                kw_t = dict(kw, alpha_min=float(settings.theta_params[0]) / 4096.0)
                tailpair = (np.asarray(_nldf_desc_getter(mol, probe_grids(mol, pts), dm, settings, **kw_t)),
                            np.asarray(_nldf_desc_getter(mol_l, probe_grids(mol_l, pts / lam), dm, settings, **kw_t)))
            ft, flt = tailpair
            m = np.abs(ft[k]) > 0.2 * np.max(np.abs(ft[k]))
            if specs[k] != "se_r2" and m.any() and np.all(ft[k][m] * flt[k][m] > 0):
                uhat = float(np.median(np.log(flt[k][m] / ft[k][m]) / np.log(lam)))
                ctx.measure("empirical_power_tail/" + "/".join(sig[1:]), abs(uhat - u) / 1.0)
                ctx.check(abs(uhat - u) <= 1.0, sig + ("empirical_power_gross",), declared=float(u), measured=uhat, lam=lam)
            continue
        # (i) empirical power: median over the probe points carrying > 20% of the feature's maximum of
        #     log(F_l/F)/log(lambda); measured deviation from the declared power <= 0.11 on the pinned tree
        m = np.abs(f[k]) > 0.2 * np.max(np.abs(f[k]))
        if m.any() and np.all(f[k][m] * fl[k][m] > 0):
            uhat = float(np.median(np.log(fl[k][m] / f[k][m]) / np.log(lam)))
            ctx.measure("empirical_power/" + "/".join(sig[1:]), abs(uhat - u) / 0.35)
            ctx.check(abs(uhat - u) <= 0.35, sig + ("empirical_power",), declared=float(u), measured=uhat, lam=lam, feature=k)
        # (ii) size: truncation-limited agreement, measured <= 0.154 of the maximum
        ctx.close(fl[k], want, sig, rtol=0.3, scale=sc, feature=k, lam=lam, declared=float(u))


# ------------------------------------------------------------------------------------------------
@st.composite
def st_nlof_case(draw):
    return {"mol": draw(G.st_mol(min_atoms=1, max_atoms=3, max_elec=18, levels=(0,), bases=("sto-3g", "6-31g", "6-31g*"), min_elec=1)),
            "nlof": draw(G.st_nlof()), "dm": draw(G.st_dm(uks=False)), "lam": draw(st_lambda()),
            "npts": draw(st.integers(8, 40)), "seed": draw(st.integers(0, 2**31 - 1))}


@subcheck("C03", "nlof_feature_scaling", st_nlof_case, quick=64, thorough=1000, tolerances=dict(TOL, nlof_rtol=1e-9), shrink=False,
          rule="G-mol x PSD dm x FracLaplSettings (1-3 powers s in [-1,1], scalar / vector / 'd' / 'dd' features, dot products incl. "
               "the density gradient) x lambda: fractional-Laplacian features of the scaled molecule (coordinates/lambda, "
               "exponents*lambda^2, same dm) at points r/lambda, computed with the repository's descriptor routine "
               "(_fl_desc_getter: FLNumInt + FracLaplPlan), equal lambda^usp times the features of the original molecule at r, "
               "usp from FracLaplSettings.get_feat_usps(); tolerance 1e-9 of the largest |feature| of the row (the radial 1F1 "
               "functions are tabulated in the scale-invariant variable alpha r^2, so the identity holds to round-off; measured "
               "1e-15); non-trivial = "
               "|log lambda| > 0.1 and some |feature| > 1e-6")
def nlof_feature_scaling(case, ctx):
    from ciderpress.pyscf.descriptors import _fl_desc_getter

    lam = case["lam"]
    mol = G.build_mol(case["mol"])
    mol_l = scaled_mol(mol, case["mol"], lam)
    settings = G.build_nlof(case["nlof"])
    dm = G.build_dm(mol, case["dm"])[0][0]["dm"]
    rng = rng_from(case["seed"])
    c = mol.atom_coords()
    pts = c[rng.integers(0, len(c), case["npts"])] + rng.normal(size=(case["npts"], 3)) * 0.9
    f = np.array(_fl_desc_getter(mol, probe_grids(mol, pts), dm, settings), copy=True)
    fl = np.array(_fl_desc_getter(mol_l, probe_grids(mol_l, pts / lam), dm, settings), copy=True)
    usps = np.asarray(settings.get_feat_usps(), float)
    nl = case["nlof"]
    for key in ("nk0", "nk1", "nd1", "ndd"):
        ctx.event("nlof:%s=%s" % (key, "0" if nl[key] == 0 else ">0"))
    ctx.check(f.shape[0] == len(usps) == settings.nfeat, ("nfeat_vs_usps", "nlof"), got=list(f.shape), n=len(usps))
    ctx.finite(f, ("nlof_features",))
    if abs(np.log(lam)) > 0.1 and np.max(np.abs(f)) > 1e-6:
        ctx.nontrivial([case["nlof"], G.mol_class(case["mol"])])
    kinds = ["k0"] * nl["nk0"] + ["l1dot"] * len(nl["l1_dots"]) + ["lddot"] * len(nl["ld_dots"]) + ["dd"] * nl["ndd"]
    for k, u in enumerate(usps):
        want = f[k] * lam**u
        sc = float(np.max(np.abs(want))) + 1e-300
        ctx.measure("nlof_scaling/" + kinds[k], float(np.max(np.abs(fl[k] - want)) / (1e-9 * sc)))
        ctx.close(fl[k], want, ("nlof_usp", kinds[k]), rtol=0, atol=1e-9 * sc, feature=k, lam=lam, declared=float(u))
