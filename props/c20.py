"""C20 -- the FFT plan wrapper computes the discrete Fourier transform it advertises.

Code under test: ciderpress/lib/fft_plan.py (FFTWrapper) and ciderpress/lib/fft_wrapper/cider_fft.{c,h}.
FFTW itself is absent in the sandbox (DESIGN F2): libfft_wrapper.so is linked against the documented
test double native/fftw3_shim.c (naive DFT with the FFTW advanced-interface semantics, incl. the padded
last dimension of in-place r2c/c2r for a NULL nembed).  What is decided here is therefore the wrapper's
own size / stride / dist arithmetic, its padded copies and the Python shape logic, under the assumption
that real FFTW honours its manual.

Oracles (all from the property text / numpy.fft as the mathematical definition):
  * forward c2c  == numpy.fft.fftn   over the non-batch axes
  * forward r2c  == numpy.fft.rfftn
  * backward c2c == numpy.fft.ifftn  * N      (unnormalised)
  * backward c2r == numpy.fft.irfftn * N      (input = half spectrum of a real array, as every caller supplies)
  * input_shape / output_shape == batch (+) dims  resp.  batch (+) dims[:-1] + [dims[-1]//2 + 1]
  * backward(forward(x)) == N * x
  * an input of any other shape raises ValueError and the plan still works afterwards
  * the test double's extent flag stays 0 (no access outside the advertised extents); its fftw_malloc bookkeeping and
    its count of live FFTW plans are recorded as events only (resource management is not part of the property)
"""
import ctypes
import itertools

import numpy as np
from hypothesis import strategies as st

from cpverif.oracles import rng_from
from cpverif.runner import subcheck

TOL = 1e-13  # * N * max|x| : worst-case first-order bound of the naive double is ~eps*N*sum(n_d+c) < 1.5e-14*N
BAD_KINDS = ["plus1", "minus1", "extra_axis_front", "extra_axis_back", "flat", "swap_batch", "other_space",
             "drop_batch", "reverse"]
ASSUME = ["FFTW is replaced by the test double native/fftw3_shim.c implementing FFTW manual section 4.4 "
          "(advanced interface, padded in-place r2c layout); the MKL back end is not built"]

_lib = {}


def shim():
    """libfft_wrapper with the test double's introspection entry points."""
    if "l" not in _lib:
        from ciderpress.lib import load_library

        lib = load_library("libfft_wrapper")
        lib.fftw_shim_error.restype = ctypes.c_int
        lib.fftw_shim_live_allocs.restype = ctypes.c_int
        lib.fftw_shim_nexec.restype = ctypes.c_long
        lib.fftw_shim_live_plans.restype = ctypes.c_long
        lib.fftw_shim_clear_error.restype = None
        _lib["l"] = lib
    return _lib["l"]


# ------------------------------------------------------------------------------------------------
# expectations written independently of fft_plan.py

def expected_shapes(dims, nt, fwd, r2c, batch_first):
    rs = list(dims)
    ks = list(dims[:-1]) + [dims[-1] // 2 + 1] if r2c else list(dims)
    if batch_first:
        rs, ks = [nt] + rs, [nt] + ks
    else:
        rs, ks = rs + [nt], ks + [nt]
    return (tuple(rs), tuple(ks)) if fwd else (tuple(ks), tuple(rs))


def fft_axes(dims, batch_first):
    return tuple(range(1, len(dims) + 1)) if batch_first else tuple(range(len(dims)))


def make_input_and_reference(dims, nt, fwd, r2c, batch_first, seed):
    rng = rng_from(seed)
    axes = fft_axes(dims, batch_first)
    rshape = ([nt] + list(dims)) if batch_first else (list(dims) + [nt])
    n = int(np.prod(dims))
    if r2c:
        a = rng.normal(size=rshape)
    else:
        a = rng.normal(size=rshape) + 1j * rng.normal(size=rshape)
    if fwd:
        x = a
        want = np.fft.rfftn(a, axes=axes) if r2c else np.fft.fftn(a, axes=axes)
    elif r2c:
        x = np.ascontiguousarray(np.fft.rfftn(a, axes=axes))  # half spectrum of a real array
        want = np.fft.irfftn(x, s=list(dims), axes=axes) * n
    else:
        x = a
        want = np.fft.ifftn(a, axes=axes) * n
    x = np.ascontiguousarray(x, dtype=np.float64 if (r2c and fwd) else np.complex128)
    return x, want, n


def bad_shape(kind, inshape, outshape, dims, nt, axis, batch_first):
    """A shape different from inshape (constructed, never filtered)."""
    s = list(inshape)
    k = axis % len(s)
    if kind == "plus1":
        s[k] += 1
    elif kind == "minus1":
        s[k] -= 1
    elif kind == "extra_axis_front":
        s = [1] + s
    elif kind == "extra_axis_back":
        s = s + [1]
    elif kind == "flat":
        s = [int(np.prod(s))]
    elif kind == "swap_batch":
        s = (s[1:] + s[:1]) if batch_first else (s[-1:] + s[:-1])
    elif kind == "other_space":
        s = list(outshape)
    elif kind == "drop_batch":
        s = s[1:] if batch_first else s[:-1]
    elif kind == "reverse":
        s = s[::-1]
    if tuple(s) == tuple(inshape):  # the mutation was the identity for this plan: same data, one more axis
        s = list(inshape) + [1]
        kind = kind + ">extra_axis_back"
    return tuple(s), kind


def flag_label(c):
    return "%s-%s-%s-%s" % ("fwd" if c["fwd"] else "bwd", "r2c" if c["r2c"] else "c2c",
                            "inpl" if c["inplace"] else "outpl", "bfirst" if c["batch_first"] else "blast")


def classify(ctx, c):
    dims = c["dims"]
    ctx.event("flags=" + flag_label(c))
    ctx.event("rank=%d" % len(dims))
    ctx.event("last_odd" if dims[-1] % 2 else "last_even")
    if 1 in dims:
        ctx.event("has_extent_1")
    if dims[-1] == 1:
        ctx.event("last_extent_1")
    ctx.event("nt=%d" % c["nt"])
    if c["r2c"] and c["inplace"] and not c["batch_first"]:
        ctx.event("padded_inplace_real_batch_last")
    trivial = len(dims) == 1 and c["nt"] == 1 and not c["r2c"] and not c["inplace"]
    if not trivial:
        ctx.nontrivial([dims, c["nt"], c["fwd"], c["r2c"], c["inplace"], c["batch_first"]])


def check_plan(c, ctx, tag):
    """All single-plan oracles for one plan description."""
    from ciderpress.lib.fft_plan import FFTWrapper

    lib = shim()
    dims, nt = [int(d) for d in c["dims"]], int(c["nt"])
    fwd, r2c, inplace, bf = bool(c["fwd"]), bool(c["r2c"]), bool(c["inplace"]), bool(c["batch_first"])
    cls = flag_label(c)
    classify(ctx, c)
    lib.fftw_shim_clear_error()
    live0 = lib.fftw_shim_live_allocs()
    plans0 = lib.fftw_shim_live_plans()
    w = FFTWrapper(dims, ntransform=nt, fwd=fwd, r2c=r2c, inplace=inplace, batch_first=bf)
    live1 = lib.fftw_shim_live_allocs()
    # Resource bookkeeping of the stand-in backend is recorded, not judged: the property speaks of the transform, the
    # shapes and the rejection of wrong shapes; when buffers and plans are created or released is the wrapper's business
    # (a lazily planned wrapper, seen in the property-preserving campaign, has no plan until the first call).
    if live1 - live0 != (1 if inplace else 2):
        ctx.event("resource:alloc_count_after_construction=%d" % (live1 - live0))
    if lib.fftw_shim_live_plans() - plans0 != 1:
        ctx.event("resource:plan_count_after_construction=%d" % (lib.fftw_shim_live_plans() - plans0))
    ein, eout = expected_shapes(dims, nt, fwd, r2c, bf)
    ctx.check(tuple(w.input_shape) == ein, ("input_shape", cls), got=list(w.input_shape), want=list(ein))
    ctx.check(tuple(w.output_shape) == eout, ("output_shape", cls), got=list(w.output_shape), want=list(eout))
    x, want, n = make_input_and_reference(dims, nt, fwd, r2c, bf, c["seed"])
    assert x.shape == ein and want.shape == eout, (x.shape, ein, want.shape, eout)  # harness self-check
    xmax = float(np.max(np.abs(x)))
    tol = TOL * n * xmax
    x0 = x.copy()
    # memory layout of the caller's array: the DFT is a function of the values x[i, j, ...], not of how numpy stores them
    layout = c.get("layout", "C")
    xin = x
    if layout == "F" and x.ndim >= 2:
        xin = np.asfortranarray(x)
    elif layout == "strided":
        big = np.zeros(x.shape[:-1] + (2 * x.shape[-1],), dtype=x.dtype)
        xin = big[..., ::2]
        xin[...] = x
    noncontig = not xin.flags.c_contiguous
    ctx.event("input_layout=" + ("C" if not noncontig else layout))
    got = w.call(xin)
    if noncontig:
        ctx.check(lib.fftw_shim_error() == 0, ("extent_flag", cls), flag=lib.fftw_shim_error())
        ctx.check(tuple(got.shape) == eout, ("result_shape", cls), got=list(got.shape), want=list(eout))
        ctx.close(got, want, ("dft_noncontiguous_input", layout), rtol=0, atol=tol, dims=dims, nt=nt, flags=cls)
        ctx.equal_bits(np.asarray(xin), x0, ("input_modified", cls))
        got = w.call(x)
    ctx.check(lib.fftw_shim_error() == 0, ("extent_flag", cls), flag=lib.fftw_shim_error())
    ctx.check(tuple(got.shape) == eout, ("result_shape", cls), got=list(got.shape), want=list(eout))
    ctx.check(got.dtype == (np.float64 if (r2c and not fwd) else np.complex128), ("result_dtype", cls),
              got=str(got.dtype))
    ctx.close(got, want, ("dft", cls), rtol=0, atol=tol, dims=dims, nt=nt)
    got_then = got.copy()
    # a second, different input through the same plan, then the first again: no state may leak between
    # calls (padding columns of the in-place real layout, c2r destroying its input buffer)
    ncall = int(c.get("ncall", 1))
    for k in range(1, ncall):
        x2, want2, _ = make_input_and_reference(dims, nt, fwd, r2c, bf, c["seed"] + 7919 * k)
        got2 = w.call(x2)
        ctx.close(got2, want2, ("dft_repeated_call", cls), rtol=0, atol=TOL * n * float(np.max(np.abs(x2))))
        # the same array object refilled in place (a reused work buffer): the result is the DFT of what the array holds now
        if k == 1:
            xbuf = x2.copy()
            w.call(xbuf)
            x3, want3, _ = make_input_and_reference(dims, nt, fwd, r2c, bf, c["seed"] + 104729)
            xbuf[...] = x3
            got3 = w.call(xbuf)
            ctx.close(got3, want3, ("dft_refilled_input_array", cls), rtol=0, atol=TOL * n * float(np.max(np.abs(x3))))
        # the array returned by the first call is the caller's: later calls on the plan do not rewrite it
        ctx.equal_bits(got, got_then, ("result_overwritten_by_later_call", cls))
    # wrongly shaped input: ValueError, plan still usable
    b = c.get("bad")
    if b is not None:
        shp, kind = bad_shape(b["kind"], ein, eout, dims, nt, int(b["axis"]), bf)
        ctx.event("bad=" + kind)
        xb = np.zeros(shp, dtype=x.dtype)
        if xb.size:
            xb.reshape(-1)[:] = np.resize(x0.reshape(-1), xb.size)
        raised = False
        try:
            w.call(xb)
        except Exception:     # "is rejected": the property does not fix the exception type
            raised = True
        ctx.check(raised, ("bad_shape_accepted", b["kind"]), shape=list(shp), expected=list(ein))
    if b is not None or ncall > 1:
        again = w.call(x0)
        ctx.check(lib.fftw_shim_error() == 0, ("extent_flag", cls), flag=lib.fftw_shim_error())
        ctx.equal_bits(again, got_then, ("plan_state_after_other_calls", cls))
    if lib.fftw_shim_live_allocs() != live1:
        ctx.event("resource:alloc_during_calls")
    if lib.fftw_shim_live_plans() - plans0 != 1:
        ctx.event("resource:plan_count_during_calls=%d" % (lib.fftw_shim_live_plans() - plans0))
    del w
    if lib.fftw_shim_live_allocs() != live0:
        ctx.event("resource:allocs_alive_after_del")
    if lib.fftw_shim_live_plans() != plans0:
        ctx.event("resource:plans_alive_after_del")
    return got


def check_roundtrip(c, ctx, count=True):
    from ciderpress.lib.fft_plan import FFTWrapper

    lib = shim()
    dims, nt = [int(d) for d in c["dims"]], int(c["nt"])
    r2c, bf = bool(c["r2c"]), bool(c["batch_first"])
    ip_f, ip_b = bool(c["inplace"]), bool(c["inplace_bwd"])
    cls = "%s-%s-f%s-b%s" % ("r2c" if r2c else "c2c", "bfirst" if bf else "blast",
                             "inpl" if ip_f else "outpl", "inpl" if ip_b else "outpl")
    ctx.event("roundtrip=" + cls)
    ctx.event("rank=%d" % len(dims))
    ctx.event("last_odd" if dims[-1] % 2 else "last_even")
    if count:
        ctx.nontrivial([dims, nt, r2c, bf, ip_f, ip_b])
    lib.fftw_shim_clear_error()
    live0 = lib.fftw_shim_live_allocs()
    plans0 = lib.fftw_shim_live_plans()
    fw = FFTWrapper(dims, ntransform=nt, fwd=True, r2c=r2c, inplace=ip_f, batch_first=bf)
    bw = FFTWrapper(dims, ntransform=nt, fwd=False, r2c=r2c, inplace=ip_b, batch_first=bf)
    # shapes are judged before any C call: a wrong advertised shape would make the C side run over the
    # numpy buffers that FFTWrapper.call allocates from it
    fin, fout = expected_shapes(dims, nt, True, r2c, bf)
    ctx.check(tuple(fw.input_shape) == fin and tuple(fw.output_shape) == fout, ("roundtrip_shapes", cls),
              fwd_in=list(fw.input_shape), fwd_out=list(fw.output_shape), want_in=list(fin), want_out=list(fout))
    ctx.check(tuple(bw.input_shape) == fout and tuple(bw.output_shape) == fin, ("roundtrip_shapes", cls),
              bwd_in=list(bw.input_shape), bwd_out=list(bw.output_shape), want_in=list(fout), want_out=list(fin))
    x, _, n = make_input_and_reference(dims, nt, True, r2c, bf, c["seed"])
    y = fw.call(x)
    z = bw.call(y)
    ctx.check(lib.fftw_shim_error() == 0, ("extent_flag", cls), flag=lib.fftw_shim_error())
    ctx.check(z.dtype == (np.float64 if r2c else np.complex128), ("result_dtype", cls), got=str(z.dtype))
    ctx.close(z, n * x, ("roundtrip", cls), rtol=0, atol=TOL * n * float(np.max(np.abs(x))), dims=dims, nt=nt)
    # interleave: the two plans own separate buffers, so a second pass gives the same bits
    z2 = bw.call(fw.call(x))
    ctx.equal_bits(z2, z, ("roundtrip_repeat", cls))
    del fw, bw
    if lib.fftw_shim_live_allocs() != live0:
        ctx.event("resource:allocs_alive_after_del")
    if lib.fftw_shim_live_plans() != plans0:
        ctx.event("resource:plans_alive_after_del")


# ------------------------------------------------------------------------------------------------
# generators

def st_extent(maxext):
    return st.one_of(st.integers(1, maxext), st.sampled_from([e for e in (1, 2, 3, 5, 7, 8, 11, 12, 13, 16, 17, 23, 24)
                                                              if e <= maxext]))


@st.composite
def st_dims(draw, maxext, cap=None, nt=1):
    rank = draw(st.integers(1, 4))
    if cap is None:
        return [draw(st_extent(maxext)) for _ in range(rank)]
    # bounded total size by construction: each extent is drawn below what is left of the budget,
    # then the axes are permuted so that no axis is systematically the small one
    left = max(1, cap // nt)
    dims = []
    for _ in range(rank):
        e = draw(st_extent(max(1, min(maxext, left))))
        dims.append(e)
        left = max(1, left // e)
    return list(draw(st.permutations(dims)))


@st.composite
def st_plan(draw, maxext=12, cap=None):
    nt = draw(st.integers(1, 6))
    dims = draw(st_dims(maxext, cap, nt))
    return {"dims": dims, "nt": nt, "fwd": draw(st.booleans()), "r2c": draw(st.booleans()),
            "inplace": draw(st.booleans()), "batch_first": draw(st.booleans()),
            "seed": draw(st.integers(0, 2**31 - 1)), "ncall": draw(st.sampled_from([1, 1, 2, 3])),
            "bad": {"kind": draw(st.sampled_from(BAD_KINDS)), "axis": draw(st.integers(0, 4))},
            "layout": draw(st.sampled_from(["C", "C", "C", "F", "strided"]))}


def st_plan_small():
    return st_plan(12)


def st_plan_large():
    return st_plan(24, 150000)


@st.composite
def st_roundtrip(draw):
    c = draw(st_plan(12))
    c.pop("bad")
    c.pop("ncall")
    c.pop("fwd")
    c["inplace_bwd"] = draw(st.booleans())
    return c


RULE_COMMON = ("plans: rank 1-4, ntransform 1-6, all 16 (fwd,r2c,inplace,batch_first) combinations, inputs "
               "normal deviates of the advertised dtype derived from a drawn seed (c2r input = "
               "numpy rfftn of a real array), C-contiguous in 3/5 of the cases, Fortran-ordered or a strided view in 1/5 each; oracle numpy.fft.fftn/rfftn/ifftn*N/irfftn*N over the non-batch "
               "axes at 1e-13*N*max|x|, advertised shapes, ValueError for one of 9 constructed wrong shapes "
               "(then the plan must reproduce its first result bit for bit), 1-3 calls with different inputs, "
               "test-double extent flag == 0, fftw_malloc live count and live FFTW plan count back to their start after "
               "destruction (exactly one plan alive while the wrapper lives); "
               "non-trivial = not (rank 1, ntransform 1, c2c, out of place); distinct by (dims, ntransform, flags)")


@subcheck("C20", "plan_dft", st_plan_small, quick=8000, thorough=80000,
          rule="extents 1-12 boundary-biased (1, 2, primes, 8, 12); " + RULE_COMMON,
          tolerances={"dft_atol_over_N_maxabs": TOL}, assumptions=ASSUME)
def plan_dft(case, ctx):
    check_plan(case, ctx, "plan_dft")


@subcheck("C20", "plan_dft_large", st_plan_large, quick=600, thorough=16000,
          rule="extents 1-24 with prod(dims)*ntransform <= 150000 by construction (axes permuted); " + RULE_COMMON,
          tolerances={"dft_atol_over_N_maxabs": TOL}, assumptions=ASSUME)
def plan_dft_large(case, ctx):
    check_plan(case, ctx, "plan_dft_large")


@subcheck("C20", "roundtrip", st_roundtrip, quick=2400, thorough=24000,
          rule="matching forward/backward plan pair (same dims 1-12^rank, ntransform 1-6, r2c, batch_first; the "
               "in-place flag drawn independently for the two plans); oracle backward(forward(x)) == N*x at "
               "1e-13*N*max|x|, forward output_shape == backward input_shape, second pass bit-identical, "
               "allocation balance; every case non-trivial; distinct by (dims, ntransform, flags)",
          tolerances={"roundtrip_atol_over_N_maxabs": TOL}, assumptions=ASSUME)
def roundtrip(case, ctx):
    check_roundtrip(case, ctx)


# ---- exhaustive stratum ---------------------------------------------------------------------------
def enumerate_plans(lo, hi):
    """Every plan with rank <= 3, all extents <= hi, max extent > lo, ntransform <= 3, 16 flag sets."""
    out = []
    for rank in (1, 2, 3):
        for dims in itertools.product(range(1, hi + 1), repeat=rank):
            if max(dims) <= lo:
                continue
            for nt in (1, 2, 3):
                for fl in itertools.product((True, False), repeat=4):
                    out.append((list(dims), nt) + fl)
    return out


_ENUM = {}


def enum_case(which, i):
    if which not in _ENUM:
        _ENUM[which] = enumerate_plans(0, 3) if which == "ext3" else enumerate_plans(3, 5)
    dims, nt, fwd, r2c, inplace, bf = _ENUM[which][i]
    return {"dims": dims, "nt": nt, "fwd": fwd, "r2c": r2c, "inplace": inplace, "batch_first": bf,
            "seed": 1000 + i, "ncall": 1 + i % 2, "bad": {"kind": BAD_KINDS[i % len(BAD_KINDS)], "axis": i % 4},
            "enum_index": i, "enum_set": which, "inplace_bwd": bool((i // 3) % 2)}


N_EXT3 = 39 * 3 * 16          # 1872
N_EXT5 = (155 - 39) * 3 * 16  # 5568


def st_enum3():
    # one integer choice: Hypothesis never repeats a choice sequence, so max_examples == N_EXT3 visits every
    # index exactly once (checked during development: 1872 draws -> 1872 distinct); the distinct count is
    # measured by the runner (distinct_nontrivial + the trivial remainder in the histogram)
    return st.integers(0, N_EXT3 - 1).map(lambda i: enum_case("ext3", i))


def st_enum5():
    return st.integers(0, N_EXT5 - 1).map(lambda i: enum_case("ext5", i))


def _enum_body(case, ctx):
    ctx.event("enumerated_plan")
    check_plan(case, ctx, "enum")
    if case["fwd"]:  # the matching backward plan of every enumerated forward plan
        check_roundtrip(case, ctx, count=False)


@subcheck("C20", "enum_ext3", st_enum3, quick=N_EXT3, thorough=N_EXT3, max_shards=1,
          rule="EXHAUSTIVE: every plan with rank <= 3, extents <= 3, ntransform <= 3 and the 16 flag sets (39*3*16 "
               "= 1872 plans) through a deterministic index -> plan map, single shard, one integer choice so that "
               "Hypothesis visits each index once; same oracles as plan_dft, plus the round trip for every "
               "forward plan; class 'enumerated_plan' counts the plans visited, distinct_nontrivial counts the "
               "distinct non-trivial ones (1872 minus the 12 rank-1/nt-1/c2c/out-of-place plans = 1860 when "
               "exhaustive)",
          tolerances={"dft_atol_over_N_maxabs": TOL}, assumptions=ASSUME)
def enum_ext3(case, ctx):
    _enum_body(case, ctx)


@subcheck("C20", "enum_ext5", st_enum5, quick=400, thorough=N_EXT5, max_shards=1,
          rule="rank <= 3, extents <= 5 with at least one extent in {4,5}, ntransform <= 3, 16 flag sets: 5568 plans; "
               "EXHAUSTIVE in the thorough tier (together with enum_ext3 the whole sub-space rank<=3, extents<=5, "
               "ntransform<=3 = 7440 plans), a 400-plan sample without repetition in the quick tier; same oracles "
               "as enum_ext3",
          tolerances={"dft_atol_over_N_maxabs": TOL}, assumptions=ASSUME)
def enum_ext5(case, ctx):
    _enum_body(case, ctx)


# ---- sanitizer build ---------------------------------------------------------------------------------
@st.composite
def st_asan(draw):
    c = draw(st_plan(10))
    c["inplace_bwd"] = draw(st.booleans())
    return c


@subcheck("C20", "asan_subset", st_asan, quick=1600, thorough=16000, variant="asan",
          rule="the plan_dft oracles plus the round trip (extents 1-10) in a process that preloads the ASan+UBSan "
               "build of libfft_wrapper and of the test double: a read/write outside the wrapper's own fftw_malloc "
               "buffers or outside the caller's numpy arrays aborts the worker and is reported as a violation of "
               "the case in flight",
          tolerances={"dft_atol_over_N_maxabs": TOL}, assumptions=ASSUME)
def asan_subset(case, ctx):
    check_plan(case, ctx, "asan")
    if case["fwd"]:
        check_roundtrip(case, ctx, count=False)
