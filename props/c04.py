"""C04 -- model evaluators return consistent energy densities and feature derivatives (array level)."""
import numpy as np
from hypothesis import strategies as st

from cpverif import gen_mol as G
from cpverif.oracles import fd_check_vec, rng_from
from cpverif.runner import subcheck

TOL = {"fd_rtol": 1e-6, "cutoff": "exact zeros / bit-identical", "locality": "bit-identical"}
CFC = 0.3 * (3 * np.pi**2) ** (2.0 / 3)


def rho_data(rng, n, lo=1e-3, hi=5.0):
    rho = np.exp(rng.uniform(np.log(lo), np.log(hi), n))
    g = rng.normal(size=(3, n)) * rho ** (4.0 / 3) * rng.uniform(0.2, 3.0, n)
    sigma = (g * g).sum(0)
    tau = sigma / (8 * rho) * rng.uniform(1.3, 3.0, n) + rng.uniform(0.05, 2.0, n) * CFC * rho ** (5.0 / 3)
    return np.array([rho, g[0], g[1], g[2], tau])


def features(spec, fs, rd, rng):
    """normalised-feature-shaped input for the model: semilocal rows from the real SemilocalPlan on the
    generated density data, nonlocal rows O(1) of either sign"""
    from ciderpress.dft.plans import SemilocalPlan

    nspin, _, n = rd.shape
    X = np.empty((nspin, fs.nfeat, n))
    sl = SemilocalPlan(fs.sl_settings, nspin).get_feat(rd)
    nsl = sl.shape[1]
    X[:, :nsl] = sl
    X[:, nsl:] = rng.uniform(0.05, 2.5, (nspin, fs.nfeat - nsl, n)) * rng.choice([-1.0, 1.0], (nspin, fs.nfeat - nsl, n))
    if any(k.get("mul") == "NLDA_X_DAMP" or k.get("add") == "NLDA_X_DAMP" for k in spec["kernels"]) and fs.nfeat > 3:
        # the damped baseline 2 / (1 + x_3 / 2)^2 is defined for the non-negative version-i feature it is named after and
        # has a pole at x_3 = -2: a signed draw of -2.0000000x is outside its domain (thorough tier, seed 1: 1.8e17)
        X[:, 3] = np.abs(X[:, 3])
    return X


@st.composite
def st_model_case(draw):
    model = draw(G.st_model(max_kernels=3, evals=["rbf", "kernel", "spline", "linear", "subsetrbf", "prefixrbf", "listrbf"]))
    # array level: the full baseline tables, including the ones excluded from the molecular generators
    for k in model["kernels"]:
        if not model["xc2"] and model["sl"] in ("npa", "np"):
            k["mul"] = draw(st.sampled_from(["LDA_X", "GGA_X_PBE", "GGA_X_CHACHIYO", "ONE", "RHO"]))
            k["add"] = draw(st.sampled_from(["ZERO", "LDA_X", "GGA_C_PBE", "ONE", "RHO", None]))
        if model["sl"] == "npa" and model["nldf"] is not None and not model["xc2"] and draw(st.integers(0, 4)) == 0:
            k["mul"] = "NLDA_X_DAMP"
    return {"model": model, "nspin": draw(st.sampled_from([1, 2])), "n": draw(st.integers(1, 12)),
            "seed": draw(st.integers(0, 2**31 - 1)),
            "rhocut": draw(st.sampled_from([0.0, 1e-10, 1e-9, 1e-6, "between", "between"]))}


def _eval(model, xc2, X, rd, rhocut):
    from ciderpress.dft.plans import get_rho_tuple_with_grad_cross

    if xc2:
        rt = get_rho_tuple_with_grad_cross(rd, is_mgga=True)
        return model(X, rt, rhocut=rhocut)
    f, df = model(X, rhocut=rhocut)
    return f, df, None


def _events(case, ctx):
    spec = case["model"]
    modes = "/".join(sorted(set(k["mode"] for k in spec["kernels"])))
    ctx.event("modes=" + modes)
    ctx.event("xc2" if spec["xc2"] else "xc1")
    ctx.event("nspin=%d" % case["nspin"])
    for k in spec["kernels"]:
        for e in k["evals"]:
            ctx.event("eval=" + e)
        ctx.event("mul=%s" % k["mul"])
        ctx.event("add=%s" % k["add"])
    ctx.event("nkernel=%d" % len(spec["kernels"]))
    return modes


@subcheck("C04", "model_fd", st_model_case, quick=2400, thorough=40000, tolerances=TOL,
          rule="synthetic mapped models (1-3 kernels sharing the result buffers; every evaluator kind; SEP/NPOL/POL; every "
               "native baseline code incl. ONE/RHO/NLDA_X_DAMP and every libxc code of MappedXC2 incl. SS_/OS_) on generated "
               "feature arrays nspin x N0 x (1-12 samples) whose semilocal rows come from the real SemilocalPlan on generated "
               "(rho, grad rho, tau >= tau_W) and whose nonlocal rows are O(1) of either sign; oracle: two-step 4th-order "
               "finite difference of the returned energy density, sample by sample, in every feature row of every spin channel "
               "vs the returned derivative; for MappedXC2 also vs vrho_tuple in rho, sigma (incl. the cross term) and tau; "
               "non-trivial = |res| > 1e-8 on at least half the samples; distinct by (model signature, nspin)")
def model_fd(case, ctx):
    from ciderpress.dft.plans import get_rho_tuple_with_grad_cross

    spec = case["model"]
    modes = _events(case, ctx)
    model = G.build_model(spec)
    fs = model.settings
    rng = rng_from(case["seed"])
    nspin, n = case["nspin"], case["n"]
    rd = np.stack([rho_data(rng, n) / nspin for _ in range(nspin)])
    X = features(spec, fs, rd, rng)
    xc2 = spec["xc2"]
    X0 = X.copy()
    f, df, vt = _eval(model, xc2, X, rd, 0.0)
    ctx.equal_bits(X, X0, ("input_modified",))
    ctx.finite(f, ("res",))
    ctx.finite(df, ("dres",))
    ctx.check(df.shape == X.shape and f.shape == (n,), ("shape", modes), fshape=f.shape, dshape=df.shape)
    if np.sum(np.abs(f) > 1e-8) * 2 >= n:
        ctx.nontrivial([G.model_signature(spec), nspin])
    tag = "xc2" if xc2 else "xc1"
    for s in range(nspin):
        for i in range(fs.nfeat):
            def fn(step, s=s, i=i):
                Xp = X0.copy()
                Xp[s, i] = X0[s, i] + step
                return _eval(model, xc2, Xp, rd, 0.0)[0]

            row = "rho" if i == 0 else ("sl" if i < fs.sl_settings.nfeat else "nonlocal")
            if row == "nonlocal":
                h = 1e-4 * np.maximum(np.abs(X0[s, i]), 1e-3)
            else:
                # semilocal rows are non-negative quantities (in the 'nst'/'ns' modes sigma and tau themselves, which can be
                # 1e-8): a step with an absolute floor would cross zero, where the maps are not analytic, and the central
                # differences converge to the wrong number at every step size (thorough tier: sigma = 3e-8, step 1e-7)
                h = 1e-4 * np.maximum(np.abs(X0[s, i]), 1e-300)
            fd_check_vec(ctx, fn, df[s, i], ("dres", tag, modes, row), h, rtol=1e-6, s=s, i=i)
    if xc2:
        rt = get_rho_tuple_with_grad_cross(rd, is_mgga=True)
        names = ["vrho", "vsigma", "vtau"]
        # An opposite-spin baseline is (total - same-spin): two nearly equal libxc potentials are subtracted, and libxc's
        # own value/derivative consistency at full polarisation (measured 1.8e-9 relative for GGA_C_PBE) is amplified by
        # the cancellation (thorough tier: 1.3e-6 and 2.1e-6 of the small difference).  The tolerance therefore carries
        # an absolute part 2e-8 of the *total* functional's potential for models with an OS_ baseline.
        os_codes = sorted(set(k[w][3:] for k in spec["kernels"] for w in ("mul", "add") if isinstance(k.get(w), str) and k[w].startswith("OS_")))
        floor = [np.zeros_like(np.asarray(vt[t], dtype=float)) for t in range(3)]
        if os_codes:
            from ciderpress.dft.xc_evaluator2 import KernelEvalBase2

            kb = KernelEvalBase2()
            kb.mode = "NPOL"
            for code in os_codes:
                tot = kb._get_baseline(code, rt)
                for t in range(min(3, len(tot) - 1)):
                    floor[t] = floor[t] + 2e-8 * np.abs(np.asarray(tot[1 + t], dtype=float)) * sum(abs(k["amp"]) + 1.0 for k in spec["kernels"])
            ctx.event("opposite_spin_baseline_floor")
        for t in range(3):
            for c in range(rt[t].shape[0]):
                def fn(step, t=t, c=c):
                    rt2 = [np.array(r, order="F", copy=True) for r in rt]
                    rt2[t][c] = rt[t][c] + step
                    return model(X0.copy(), tuple(rt2), rhocut=0.0)[0]

                h = 1e-4 * np.maximum(np.abs(rt[t][c]), 1e-6)
                fd_check_vec(ctx, fn, vt[t][c], (names[t], modes, "comp%d" % c), h, rtol=1e-6, atol=floor[t][c], comp=c)


@subcheck("C04", "locality_cutoff", st_model_case, quick=2400, thorough=40000, tolerances=TOL,
          rule="same generator; (locality) changing the features of one sample leaves the energy density and derivative of "
               "every other sample unchanged (1e-13 of the batch maximum); (cutoff law) for rhocut in {1e-10, 1e-9, 1e-6, a value between two sample "
               "densities}: samples whose total density (per-channel spin-scaled density for SEP) is below rhocut have "
               "machine-learned energy density exactly 0 and derivative exactly 0 (models evaluated without additive baseline "
               "part by comparing with the additive baseline alone), samples above it equal the rhocut=0 result to 1e-13 of the batch maximum; "
               "non-trivial = at least one sample on each side of the cutoff")
def locality_cutoff(case, ctx):
    spec = case["model"]
    modes = _events(case, ctx)
    model = G.build_model(spec)
    fs = model.settings
    rng = rng_from(case["seed"])
    nspin, n = case["nspin"], max(2, case["n"])
    rd = np.stack([rho_data(rng, n, lo=1e-11, hi=1.0) / nspin for _ in range(nspin)])
    X = features(spec, fs, rd, rng)
    xc2 = spec["xc2"]
    f0, d0, t0 = _eval(model, xc2, X.copy(), rd, 0.0)
    # locality
    g = int(rng.integers(n))
    Xp = X.copy()
    Xp[:, 1:, g] *= 1.0 + 0.1 * rng.uniform(0.5, 1.0, (nspin, fs.nfeat - 1))
    f1, d1, _ = _eval(model, xc2, Xp, rd, 0.0)
    keep = np.arange(n) != g
    ctx.close(f1[keep], f0[keep], ("locality", "res", modes), rtol=1e-13, scale=float(np.max(np.abs(f0))) + 1e-300)
    ctx.close(d1[..., keep], d0[..., keep], ("locality", "dres", modes), rtol=1e-13, scale=float(np.max(np.abs(d0))) + 1e-300)
    # cutoff law
    rc = case["rhocut"]
    rho_tot = rd[:, 0].sum(0)
    if rc == "between":
        srt = np.sort(rho_tot)
        k = int(rng.integers(1, n))
        rc = float(np.sqrt(srt[k - 1] * srt[k])) if srt[k] > srt[k - 1] else float(srt[k] * 1.0000001)
    if rc == 0.0:
        return
    f2, d2, t2 = _eval(model, xc2, X.copy(), rd, rc)
    # additive baselines are not subject to the cutoff in MappedXC2 (they are ordinary semilocal terms);
    # isolate the ML part by evaluating the same model with all evaluator weights removed is not possible in
    # general, so judge the parts the cutoff is defined on:
    tag = "xc2" if xc2 else "xc1"
    ms = set(k["mode"] for k in spec["kernels"])
    sep_below = (nspin * rd[:, 0]) < rc            # SEP kernels: per channel, spin-scaled density
    tot_below = np.broadcast_to(rho_tot < rc, (nspin, n))   # NPOL / POL kernels: total density
    if ms == {"SEP"}:
        below = sep_below
    elif "SEP" not in ms:
        below = tot_below
    else:                                           # mixed: a channel is surely cut only if every kernel cuts it
        below = sep_below & tot_below
    all_below = below.all(0)
    any_below = (sep_below.any(0) if "SEP" in ms else np.zeros(n, bool)) | (tot_below[0] if ms != {"SEP"} else np.zeros(n, bool))
    above = ~any_below
    ctx.event("cutoff_two_sided" if (all_below.any() and above.any()) else "cutoff_one_sided")
    if all_below.any() and above.any():
        ctx.nontrivial([G.model_signature(spec), nspin, case["rhocut"]])
    # not bit-equality: an implementation may evaluate only the samples above the cutoff, and BLAS-backed evaluators
    # re-associate with the batch shape and alignment (1e-28 absolute seen) -- the cutoff must not *change* them
    ctx.close(f2[above], f0[above], ("cutoff", "above_changed", "res", tag, modes), rtol=1e-13,
              scale=float(np.max(np.abs(f0))) + 1e-300)
    ctx.close(d2[..., above], d0[..., above], ("cutoff", "above_changed", "dres", tag, modes), rtol=1e-13,
              scale=float(np.max(np.abs(d0))) + 1e-300)
    if not xc2:
        # MappedDFTKernel: the whole kernel contribution (incl. its additive baseline) is cut
        ctx.check(np.all(f2[all_below] == 0.0), ("cutoff", "below_nonzero", "res", tag, modes), rhocut=rc)
        for s in range(nspin):
            ctx.check(np.all(d2[s][:, below[s]] == 0.0), ("cutoff", "below_nonzero", "dres", tag, modes), rhocut=rc, s=s)
    else:
        # MappedDFTKernel2: the evaluator part is cut, the libxc additive baseline is not; the feature
        # derivative comes only from the evaluator part, so it must vanish exactly
        for s in range(nspin):
            ctx.check(np.all(d2[s][:, below[s]] == 0.0), ("cutoff", "below_nonzero", "dres", tag, modes), rhocut=rc, s=s)


def _fd_subset(ctx, f, analytic, keep, x, sig):
    """central-difference check restricted to the samples in `keep` (the others are not stepped)"""
    hk = 1e-4 * np.abs(x[keep])

    def g(step):
        full = np.zeros(len(x))
        full[keep] = step
        return f(full)[keep]

    return fd_check_vec(ctx, g, analytic[keep], sig, hk, rtol=1e-6)


@st.composite
def st_baseline(draw):
    return {"kind": draw(st.sampled_from(["native", "libxc"])), "nspin": draw(st.sampled_from([1, 2])),
            "n": draw(st.integers(1, 10)), "seed": draw(st.integers(0, 2**31 - 1)),
            "native": draw(st.sampled_from(["RHO", "ZERO", "ONE", "LDA_X", "NLDA_X_DAMP", "GGA_X_PBE", "GGA_X_CHACHIYO",
                                            "GGA_C_PBE"])),
            "libxc": draw(st.sampled_from(["LDA_X", "LDA_C_PW_MOD", "GGA_X_PBE", "GGA_C_PBE", "GGA_X_PBE_SOL",
                                           "GGA_C_PBE_SOL", "MGGA_X_R2SCAN", "MGGA_C_R2SCAN", "SS_GGA_C_PBE",
                                           "OS_GGA_C_PBE"])),
            "mode": draw(st.sampled_from(["SEP", "NPOL", "POL"]))}


@subcheck("C04", "baseline_fd", st_baseline, quick=2400, thorough=40000, tolerances=TOL,
          rule="every native baseline code (table BASELINE_CODES, enumerated) on generated feature arrays, and every libxc "
               "code (LDA/GGA/MGGA/SS_/OS_ tables) through KernelEvalBase2._get_baseline in all three spin modes on generated "
               "(rho, sigma incl. cross term, tau): returned derivative vs finite difference of the returned energy density, "
               "sample by sample; non-trivial = baseline not identically constant")
def baseline_fd(case, ctx):
    from ciderpress.dft import baselines as B
    from ciderpress.dft.plans import get_rho_tuple_with_grad_cross
    from ciderpress.dft.xc_evaluator2 import KernelEvalBase2

    assert set(B.BASELINE_CODES) == {"RHO", "ZERO", "ONE", "LDA_X", "NLDA_X_DAMP", "GGA_X_PBE", "GGA_X_CHACHIYO",
                                     "GGA_C_PBE"}, "native baseline table changed: update the generator"
    rng = rng_from(case["seed"])
    nspin, n = case["nspin"], case["n"]
    if case["kind"] == "native":
        code = case["native"]
        ctx.event("native=" + code)
        X = np.empty((nspin, 4, n))
        X[:, 0] = np.exp(rng.uniform(np.log(1e-3), np.log(5.0), (nspin, n)))
        X[:, 1] = rng.uniform(1e-3, 3.0, (nspin, n))     # s^2
        X[:, 2] = rng.uniform(0.0, 3.0, (nspin, n))      # alpha
        X[:, 3] = rng.uniform(0.05, 3.0, (nspin, n))     # a normalised nonlocal feature (NLDA_X_DAMP reads it)
        if case["seed"] % 3 == 0:
            # vanishing reduced gradient (nuclei, bond midpoints, the uniform gas): s^2 = 0 and values below the
            # thresholds at which the baselines switch to series expansions
            tiny_vals = np.array([0.0, 1e-14, 1e-10, 5e-9, 2e-8])
            pick = rng.integers(0, 2, (nspin, n)).astype(bool)
            X[:, 1][pick] = tiny_vals[rng.integers(0, len(tiny_vals), int(pick.sum()))]
            ctx.event("has_vanishing_s2")
        fn = B.BASELINE_CODES[code]
        X0 = X.copy()
        out = fn(X)
        ctx.check(isinstance(out, (tuple, list)) and len(out) == 2, ("native", code, "return_type"), got=repr(type(out)))
        e, de = out
        ctx.equal_bits(X, X0, ("native", code, "input_modified"))
        ctx.check(e.shape == (n,) and de.shape == X.shape, ("native", code, "shape"))
        if code not in ("ZERO", "ONE"):
            ctx.nontrivial([code, nspin])
        for s in range(nspin):
            for i in range(4):
                def f(step, s=s, i=i):
                    Xp = X0.copy()
                    Xp[s, i] = X0[s, i] + step
                    return fn(Xp)[0]

                tiny = X0[s, i] < 1e-6 if i == 1 else np.zeros(n, dtype=bool)
                if not tiny.all():
                    keep = ~tiny
                    _fd_subset(ctx, f, de[s, i], keep, X0[s, i], ("native", code, "row%d" % i))
                if tiny.any():
                    # s^2 ~ 0: a central difference would step to negative s^2; one-sided differences with h and h/2,
                    # extrapolated, h = 1e-7 (round-off 4e-16 |e| / h ~ 4e-9 |e|).  The Chachiyo enhancement factor has a
                    # (s^2)^(3/2) term, so its s^2-derivative is continuous but not differentiable at 0 and the one-sided
                    # difference converges only as sqrt(h) (measured 2.7e-3 at h = 1e-4): judged at 1e-2, which still
                    # separates a derivative that is off by a factor or infinite
                    ctx.finite(de[s, i][tiny], ("native", code, "row1", "vanishing_s2", "nonfinite"))
                    h = 1e-7
                    e0 = f(np.zeros(n))
                    d1 = (f(np.where(tiny, h, 0.0)) - e0) / h
                    d2 = (f(np.where(tiny, h / 2, 0.0)) - e0) / (h / 2)
                    dfd = (2 * d2 - d1)[tiny]
                    # round-off of the extrapolated one-sided differences: up to ~ 200 eps |e| / h per sample (measured 4.7e-10 at |e| = 2e-3)
                    ctx.close(de[s, i][tiny], dfd, ("native", code, "row1", "vanishing_s2"), rtol=1e-2,
                              atol=float(np.max(5e-14 * np.abs(e0[tiny]) / h)) + 1e-9 * float(np.max(np.abs(e0))) + 1e-300, s2=X0[s, i][tiny])
        return
    code, mode = case["libxc"], case["mode"]
    ctx.event("libxc=%s/%s/nspin%d" % (code, mode, nspin))
    rd = np.stack([rho_data(rng, n) / nspin for _ in range(nspin)])
    rt = get_rho_tuple_with_grad_cross(rd, is_mgga=True)
    kb = KernelEvalBase2()
    kb.mode = mode
    res = kb._get_baseline(code, rt)
    ctx.nontrivial([code, mode, nspin])
    names = ["vrho", "vsigma", "vtau"]
    # opposite-spin codes are (total - same-spin): absolute floor 2e-8 of the total functional's potential (see model_fd)
    floor = None
    if code.startswith("OS_"):
        tot = kb._get_baseline(code[3:], rt)
        floor = [2e-8 * np.abs(np.asarray(tot[1 + t], dtype=float)) for t in range(len(res) - 1)]
    for t in range(len(res) - 1):
        for c in range(rt[t].shape[0]):
            if mode == "SEP" and nspin == 2 and t == 1 and c == 1:
                # separable evaluation has no dependence on the cross term by construction
                ctx.check(np.all(res[1 + t][c] == 0), ("libxc", code, "SEP_cross_term_nonzero"))
                continue

            def f(step, t=t, c=c):
                rt2 = [np.array(r, order="F", copy=True) for r in rt]
                rt2[t][c] = rt[t][c] + step
                e = kb._get_baseline(code, tuple(rt2))[0]
                return e.sum(0) if e.ndim == 2 else e

            h = 1e-4 * np.maximum(np.abs(rt[t][c]), 1e-8)
            fl = 0.0
            if floor is not None and np.shape(floor[t]) == np.shape(res[1 + t]):
                fl = floor[t][c]
            fd_check_vec(ctx, f, res[1 + t][c], ("libxc", code, mode, names[t]), h, rtol=1e-6, atol=fl, comp=c, nspin=nspin)
