"""C01 -- the XC matrix handed to PySCF is the exact derivative of the XC energy (end to end)."""
import numpy as np
from hypothesis import strategies as st

from cpverif import gen_mol as G
from cpverif.runner import subcheck


@st.composite
def st_case(draw, families=("sl", "nldf", "sdmx", "nldf+sdmx")):
    model = draw(G.st_model(families=families))
    # SDMX contracts the AOs shell by shell: include a generally contracted basis (several radial functions per shell)
    bases = ("sto-3g", "6-31g") if not model["sdmx"] else ("sto-3g", "6-31g", "cc-pvdz")
    mol = draw(G.st_mol(max_atoms=3 if model["nldf"] is None else 2, bases=bases, max_elec=18, levels=(0, 1)))
    # max_memory decides into how many blocks the grid is cut (2000 MB: one block for these molecules)
    return {"mol": mol, "model": model, "dm": draw(G.st_dm()), "calc": draw(G.st_calc()),
            "mem": draw(st.sampled_from([2000, 2000, 1.0, 0.05]))}


def st_sl():
    return st_case(families=("sl",))


def st_nldf():
    return st_case(families=("nldf",))


def st_sdmx():
    return st_case(families=("sdmx", "nldf+sdmx"))


RULE = ("G-mol (1-3 atoms from H..Ne, sto-3g/6-31g, generic orientation, grid level 0-1) x G-dm (PSD, non-SCF: rotated "
        "core-Hamiltonian orbitals with fractional occupations; restricted or unrestricted) x G-model (synthetic mapped "
        "functional: semilocal mode, NLDF version/level/rho_mult/specs, SDMX class, evaluator kinds, spin mode, native or "
        "libxc baselines, MappedXC/MappedXC2) x calc options (xmix, xc, xkernel, ckernel, plan type, interpolator) x "
        "max_memory 2000 / 1 / 0.05 MB (grid processed in one or in many blocks). "
        "Oracle: two-step 4th-order directional finite difference of excsum(dm+hD) vs sum(vmat*D) per spin channel; "
        "nelec vs independent sum_g w_g rho(r_g) with pyscf eval_rho; vmat symmetric. Non-trivial: |E_ML| > 1e-4|E_xc| "
        "and |Tr(vD)| > 1e-6; distinct by (molecule class, model signature, spin, calc options).")
TOL = {"fd_rtol": 2e-6, "fd_rtol_nldf": 1e-5, "nelec_rtol": 1e-10, "hermiticity_rtol": 1e-10}


def _run(case, ctx):
    from pyscf.dft import numint as pnumint

    mol = G.build_mol(case["mol"])
    model = G.build_model(case["model"])
    uks = case["dm"]["uks"]
    ks = G.build_calc(mol, model, case["calc"], uks, level=case["mol"]["grid_level"])
    ni = ks._numint
    chans = G.build_dm(mol, case["dm"])[0]
    fam = "+".join(f for f in ("nldf", "nlof", "sdmx") if case["model"].get(f)) or "sl"
    ctx.event("family=" + fam)
    ctx.event("sl=" + case["model"]["sl"])
    ctx.event("uks" if uks else "rks")
    ctx.event("xc2" if case["model"]["xc2"] else "xc1")
    for k in case["model"]["kernels"]:
        ctx.event("mode=" + k["mode"])
        for e in k["evals"]:
            ctx.event("eval=" + e)
    if case["model"]["nldf"]:
        n = case["model"]["nldf"]
        ctx.event("nldf=%s/%s/%s/%s" % (n["version"], n["level"], n["rho_mult"], case["calc"]["plan_type"]))
        ctx.event("interp=" + case["calc"]["interp"])
    if case["model"]["sdmx"]:
        ctx.event("sdmx=" + case["model"]["sdmx"]["cls"])
    if case["model"].get("nlof"):
        nl = case["model"]["nlof"]
        ctx.event("nlof:npow=%d" % len(nl["slist"]))
        for key in ("nk0", "nk1", "nd1", "ndd"):
            ctx.event("nlof:%s=%s" % (key, "0" if nl[key] == 0 else ">0"))
        ctx.event("nlof:dots=%d/%d" % (len(nl["l1_dots"]), len(nl["ld_dots"])))

    mem = case.get("mem", 2000)
    if mem != 2000:
        ctx.event("grid_cut_into_blocks")

    def energy(dms):
        if uks:
            return ni.nr_uks(mol, ks.grids, ks.xc, np.array(dms), max_memory=mem)
        return ni.nr_rks(mol, ks.grids, ks.xc, dms[0], max_memory=mem)

    dms = [c["dm"] for c in chans]
    nelec, exc, vmat = energy(dms)
    ctx.finite(vmat, ("vmat",))
    ctx.check(np.isfinite(exc), ("excsum", "nonfinite"))
    # --- electron count against an independent integration ---------------------------------------
    ao = pnumint.eval_ao(mol, ks.grids.coords, deriv=0)
    w = ks.grids.weights
    ref = [float(np.dot(w, pnumint.eval_rho(mol, ao, dm, xctype="LDA"))) for dm in dms]
    got = np.atleast_1d(nelec).astype(float)
    ctx.close(got, np.array(ref), ("nelec",), rtol=1e-10)
    # --- hermiticity -----------------------------------------------------------------------------
    vm = vmat if uks else vmat[None]
    for s in range(len(vm)):
        ctx.close(vm[s], vm[s].T, ("hermitian",), rtol=1e-10)
    # --- energy without the ML part, to decide non-triviality --------------------------------------
    # (same integrator class, xmix -> 0 is not available without rebuilding; use the ML fraction
    # through a second evaluation with all evaluator amplitudes... cheap proxy: |exc| itself)
    # --- directional derivative per spin channel ----------------------------------------------------
    any_nt = False
    for s in range(len(chans)):
        D = chans[s]["D"]
        an = float(np.sum(vm[s] * D))

        def f(h, s=s, D=D):
            d2 = [d.copy() for d in dms]
            d2[s] = dms[s] + h * D
            return float(energy(d2)[1])

        # NLDF: the potential is the transpose of the feature Jacobian only up to the conditioning of the
        # auxiliary-basis Cholesky solve (DESIGN F5: composite adjointness 1e-5..1e-11); measured worst 3e-6.
        rtol = 1e-5 if case["model"]["nldf"] else 2e-6
        ok = ctx.fd_compare(f, an, ("dE_ddm", fam, "uks" if uks else "rks"), h=2e-3, rtol=rtol, atol=1e-9,
                            channel=s)
        if ok and abs(an) > 1e-6:
            any_nt = True
    if any_nt:
        ctx.nontrivial([G.mol_class(case["mol"]), G.model_signature(case["model"]), uks,
                        case["calc"]["xmix"], case["calc"]["xkernel"], case["calc"]["ckernel"], case["calc"]["xc"],
                        case["calc"]["plan_type"] if case["model"]["nldf"] else None])


@subcheck("C01", "vmat_fd_sl", st_sl, quick=40, thorough=480, rule="[semilocal stratum] " + RULE, tolerances=TOL,
          shrink=False)
def vmat_fd_sl(case, ctx):
    _run(case, ctx)


@subcheck("C01", "vmat_fd_nldf", st_nldf, quick=40, thorough=480, rule="[NLDF stratum] " + RULE, tolerances=TOL,
          shrink=False)
def vmat_fd_nldf(case, ctx):
    _run(case, ctx)


@subcheck("C01", "vmat_fd_sdmx", st_sdmx, quick=32, thorough=320, rule="[SDMX / NLDF+SDMX stratum] " + RULE,
          tolerances=TOL, shrink=False)
def vmat_fd_sdmx(case, ctx):
    _run(case, ctx)

