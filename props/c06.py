"""C06 -- energies and features are invariant under rigid motions and atom relabelling."""
import itertools

import numpy as np
from hypothesis import strategies as st

from cpverif import gen_mol as G
from cpverif.oracles import rng_from
from cpverif.runner import subcheck

TOL = {"exact_motion_rtol": 1e-9, "exact_motion_rtol_nldf": 1e-7, "ao_representation_residual": 1e-10,
       "rotation_energy_rtol": {"level3": 3e-3}}

OCT = []
for perm in itertools.permutations(range(3)):
    for signs in itertools.product([1.0, -1.0], repeat=3):
        m = np.zeros((3, 3))
        for i, (p, s) in enumerate(zip(perm, signs)):
            m[i, p] = s
        OCT.append(m)


@st.composite
def st_case(draw, kinds=("translation", "octahedral", "permutation", "oct+trans+perm"), families=None,
            levels=(0, 1)):
    model = draw(G.st_model(families=families or ("sl", "nldf", "nldf", "sdmx", "nldf+sdmx"), max_kernels=1))
    mol = draw(G.st_mol(min_atoms=2, max_atoms=3 if model["nldf"] is None else 2, max_elec=18, levels=levels,
                        bases=(("sto-3g", "6-31g", "6-31g*", "cc-pvdz") if model["sdmx"] else ("sto-3g", "6-31g", "6-31g*"))
                        if model["nldf"] is None else ("sto-3g", "6-31g")))
    kind = draw(st.sampled_from(list(kinds)))
    natm = len(mol["atoms"])
    motion = {"kind": kind, "oct": draw(st.integers(1, 47)), "t": [draw(st.floats(-5, 5)) for _ in range(3)],
              "perm": draw(st.permutations(list(range(natm)))),
              "angles": [draw(st.floats(0.3, 2.8)) for _ in range(3)], "improper": draw(st.booleans())}
    if kind in ("permutation", "oct+trans+perm") and list(motion["perm"]) == list(range(natm)):
        motion["perm"] = list(range(natm))[::-1]
    return {"mol": mol, "model": model, "dm": draw(G.st_dm()), "calc": draw(G.st_calc()), "motion": motion}


def motion_parts(m, natm):
    R, t, perm = np.eye(3), np.zeros(3), list(range(natm))
    k = m["kind"]
    if k in ("translation", "oct+trans+perm"):
        t = np.array(m["t"])
    if k in ("octahedral", "oct+trans+perm"):
        R = OCT[m["oct"]]
    if k in ("permutation", "oct+trans+perm"):
        perm = list(m["perm"])
    if k == "rotation":
        R = G._rot(m["angles"])
        if m["improper"]:
            R = -R
        t = np.array(m["t"])
    return R, t, perm


def ao_representation(mol, mol2, R, t, seed):
    """M with phi2(R r + t) = M phi(r) (exact: the AO space is closed under rigid motions and atom
    relabelling); least squares over random points, residual returned as a self-test of the oracle."""
    from pyscf.dft import numint

    rng = rng_from(seed)
    nao = mol.nao
    c = mol.atom_coords()
    pts = c[rng.integers(0, len(c), 8 * nao + 40)] + rng.normal(size=(8 * nao + 40, 3)) * 1.2
    A = numint.eval_ao(mol, pts)
    B = numint.eval_ao(mol2, pts @ R.T + t)
    Mt, res, rank, sv = np.linalg.lstsq(A, B, rcond=None)
    resid = float(np.max(np.abs(A @ Mt - B)))
    return Mt.T, resid


class _Recorder:
    """wraps the model so that the normalised feature array the integrator assembles is recorded"""

    def __init__(self):
        self.feats = []


def _attach_recorder(ni):
    model = ni.mlxc
    rec = _Recorder()
    cls = type(model)

    class Rec(cls):
        def __call__(self, X0T, *a, **k):
            rec.feats.append(np.array(X0T, copy=True))
            return cls.__call__(self, X0T, *a, **k)

    new = Rec.__new__(Rec)
    new.__dict__.update(model.__dict__)
    ni.mlxc = new
    return rec


def _evaluate(mol, case, dms, uks):
    model = G.build_model(case["model"])
    ks = G.build_calc(mol, model, case["calc"], uks, level=case["mol"]["grid_level"])
    ni = ks._numint
    rec = _attach_recorder(ni)
    if uks:
        n, e, v = ni.nr_uks(mol, ks.grids, ks.xc, np.array(dms), max_memory=4000)
    else:
        n, e, v = ni.nr_rks(mol, ks.grids, ks.xc, dms[0], max_memory=4000)
    feats = np.concatenate(rec.feats, axis=-1) if rec.feats else None
    return n, e, (v if uks else v[None]), feats, ks.grids


def _match_points(c1_moved, c2, w1, w2):
    """(i1, i2) with c2[i2] == c1_moved[i1] for every point of grid 1 carrying non-negligible weight; None if
    some such point has no partner in grid 2.  Becke weights of ~1e-15 may round to exactly 0 in one of the two
    grids, so points below 1e-10 are not required to have a partner (they cannot matter to any integral)."""
    from scipy.spatial import cKDTree

    k1 = np.flatnonzero(np.abs(w1) > 1e-10)
    tree = cKDTree(c2)
    dist, j = tree.query(c1_moved[k1])
    if len(k1) == 0 or np.max(dist) > 1e-7 or len(set(j.tolist())) != len(j):
        return None
    return k1, j


def _run(case, ctx, exact=True):
    mspec = case["mol"]
    natm = len(mspec["atoms"])
    R, t, perm = motion_parts(case["motion"], natm)
    mol = G.build_mol(mspec)
    coords = np.array([p for _, p in mspec["atoms"]])
    moved = [[mspec["atoms"][j][0], list(R @ coords[j] + t)] for j in perm]
    mol2 = G.build_mol(mspec, atoms=moved)
    uks = case["dm"]["uks"]
    fam = "+".join(f for f in ("nldf", "sdmx") if case["model"][f]) or "sl"
    kind = case["motion"]["kind"]
    ctx.event("family=" + fam)
    ctx.event("motion=" + kind)
    ctx.event("uks" if uks else "rks")
    if case["model"]["nldf"]:
        n = case["model"]["nldf"]
        ctx.event("nldf=" + n["version"])
        if n.get("l1"):
            ctx.event("vector_features")
    if case["model"]["sdmx"] and case["model"]["sdmx"]["cls"] in ("1", "G1", "Full"):
        ctx.event("vector_features")
    M, resid = ao_representation(mol, mol2, R, t, case["dm"]["seed"])
    if resid > 1e-9:
        from cpverif.runner import HarnessError

        raise HarnessError("AO representation of the motion is not exact: residual %g" % resid)
    Minv = np.linalg.inv(M)
    chans = G.build_dm(mol, case["dm"])[0]
    dms = [c["dm"] for c in chans]
    dms2 = [Minv.T @ d @ Minv for d in dms]
    n1, e1, v1, f1, g1 = _evaluate(mol, case, dms, uks)
    n2, e2, v2, f2, g2 = _evaluate(mol2, case, dms2, uks)
    if exact:
        tol = 1e-7 if case["model"]["nldf"] else 1e-9
    else:
        tol = TOL["rotation_energy_rtol"]["level%d" % mspec["grid_level"]]
    sig = (kind, fam)
    if not exact:
        # "to within quadrature error": judged on grid level 3, where the rotation-induced change of these synthetic
        # functionals was measured on the pinned tree (80 cases: median 1e-6, worst 7.6e-4 of max(|E_xc|, 0.05 Eh per
        # electron)).  That figure is a sample, not a bound (thorough tier, seed 1: 3.1e-3 for C-He with two spline
        # evaluators), so a deviation above it is re-judged by the one thing that separates quadrature error from a
        # broken covariance: the latter does not shrink with the grid.  Both molecules are evaluated again on level 6
        # and the deviation must have fallen to a third (or below the level-3 figure).
        escale = max(abs(e1), 0.05 * float(np.sum(n1)))
        d3 = abs(e2 - e1)
        ctx.measure("rotation_energy/" + fam, d3 / (tol * escale))
        if d3 > tol * escale:
            ctx.event("rotation_rejudged_on_finer_grid")
            fine = dict(case, mol=dict(mspec, grid_level=6))
            e1f = _evaluate(mol, fine, dms, uks)[1]
            e2f = _evaluate(mol2, fine, dms2, uks)[1]
            df = abs(e2f - e1f)
            ctx.check(df <= max(tol * escale, d3 / 3.0), sig + ("energy",), err=d3, err_level6=df, bound=tol * escale, e=e1,
                      motion=case["motion"])
        ctx.close(np.atleast_1d(n2), np.atleast_1d(n1), sig + ("nelec",), rtol=tol)

    def judge_exact(tol):
        ctx.close([e2], [e1], sig + ("energy",), rtol=tol, scale=abs(e1), motion=case["motion"])
        ctx.close(np.atleast_1d(n2), np.atleast_1d(n1), sig + ("nelec",), rtol=1e-10)
        for s in range(len(v1)):
            want = M @ v1[s] @ M.T
            ctx.close(v2[s], want, sig + ("vmat",), rtol=tol, scale=float(np.max(np.abs(want))))
        # per-point normalised features at co-moved points
        if f1 is not None and f2 is not None and f1.shape[-1] == g1.weights.size and f2.shape[-1] == g2.weights.size:
            mt = _match_points(g1.coords @ R.T + t, g2.coords, g1.weights, g2.weights)
            ctx.check(mt is not None, sig + ("grid_not_mapped_onto_itself",))
            i1, i2 = mt
            w = g1.weights[i1]
            ctx.close(g2.weights[i2], w, sig + ("weights",), rtol=1e-10)
            # and conversely no weight of grid 2 is left without a partner
            rest = np.ones(g2.weights.size, bool)
            rest[i2] = False
            ctx.check(np.all(np.abs(g2.weights[rest]) <= 1e-10), sig + ("grid_not_mapped_onto_itself", "extra_points"))
            rho = f1[:, 0][:, i1].sum(0)
            sel = rho > 1e-6
            for k in range(f1.shape[1]):
                a, b = f1[:, k][:, i1][:, sel], f2[:, k][:, i2][:, sel]
                ctx.close(b, a, sig + ("feature", "row%d" % min(k, 3)), rtol=max(tol, 1e-8) * 10,
                          scale=float(np.max(np.abs(a))) + 1e-300, feature=k)
            ctx.event("features_compared")
    if exact:
        from cpverif.runner import Violation

        try:
            judge_exact(tol)
        except Violation:
            if not case["model"]["nldf"]:
                raise
            # The NLDF pipeline amplifies rounding (inverse overlap of the exponent ladder and of the auxiliary basis:
            # 1e-11 typically; 2e-8 ... 2.5e-7 of vmat measured for He-Ne with an `expnt` version-i model, the same for a
            # translation by 1e-9 and by 2 bohr), and a motion changes every coordinate in the last bits.  The
            # amplification of *this* case is measured with two null motions -- translations by 1e-6 bohr, under which a
            # covariance defect proportional to the displacement is a millionth of what the real motion shows -- and the
            # case is judged again at 30 times that noise, never looser than 1e-4.
            noise = 0.0
            for t0 in (1e-6 * np.array([0.7310585786, -0.2689414213, 0.5]), 1e-6 * np.array([-0.3, 0.9, 0.41])):
                mol0 = G.build_mol(mspec, atoms=[[a_, list(np.array(p_) + t0)] for a_, p_ in mspec["atoms"]])
                n0, e0, v0, f0, g0 = _evaluate(mol0, case, dms, uks)
                noise = max(noise, abs(e0 - e1) / max(abs(e1), 1e-300))
                for s_ in range(len(v1)):
                    noise = max(noise, float(np.max(np.abs(v0[s_] - v1[s_]))) / (float(np.max(np.abs(v1[s_]))) + 1e-300))
            ctx.event("exact_motion_rejudged_with_measured_rounding_noise")
            ctx.measure("null_motion_noise/" + fam, noise / tol)
            if 30.0 * noise <= tol:
                raise
            judge_exact(min(30.0 * noise, 1e-4))
    moved_differs = np.max(np.abs(np.array([p for _, p in moved]) - coords)) > 1e-6 or perm != list(range(natm))
    if moved_differs and abs(e1) > 1e-8:
        ctx.nontrivial([G.mol_class(mspec), G.model_signature(case["model"]), kind,
                        case["motion"]["oct"] if "oct" in kind else None, uks])


@subcheck("C06", "exact_motions", st_case, quick=96, thorough=1200, tolerances=TOL, shrink=False,
          rule="G-mol (generic orientation, 2-3 atoms, s/p/d shells) x PSD dm x G-model x motion in {translation in [-5,5]^3, "
               "one of the 47 non-identity signed permutation matrices (octahedral group), atom permutation, all three "
               "composed}: moved molecule gets its own grid and the moved density matrix dm' = M^-T dm M^-1 with the AO "
               "representation M of the motion obtained by least squares (residual < 1e-9 enforced as oracle self-test). "
               "Oracle: excsum' == excsum, nelec equal, vmat' == M vmat M^T, and the normalised feature array recorded at the "
               "integrator/model boundary equal at co-moved grid points (grid mapped onto itself, matched by coordinates). "
               "Non-trivial = motion moves the molecule; vector (l=1) ingredients counted in the histogram")
def exact_motions(case, ctx):
    _run(case, ctx, exact=True)


def st_rot():
    return st_case(kinds=("rotation",), families=("sl", "nldf", "sdmx"), levels=(3,))


@subcheck("C06", "arbitrary_rotation", st_rot, quick=32, thorough=400, tolerances=TOL, shrink=False,
          rule="as exact_motions with a drawn proper/improper rotation + translation (the grid is not mapped onto itself), on "
               "grid level 3: energy and electron count agree to within quadrature error, calibrated on the pinned tree over 80 "
               "cases (median 1e-6, worst 7.6e-4 relative to max(|E_xc|, 0.05 Eh per electron)) and frozen at 3e-3; "
               "non-trivial = always")
def arbitrary_rotation(case, ctx):
    _run(case, ctx, exact=False)


# ------------------------------------------------------------------------------------------------
# fractional-Laplacian features (no SCF path on this tree: evaluated through the repository's descriptor routine)
@st.composite
def st_nlof_motion(draw):
    mol = draw(G.st_mol(min_atoms=2, max_atoms=3, max_elec=18, levels=(0,), bases=("sto-3g", "6-31g", "6-31g*")))
    natm = len(mol["atoms"])
    motion = {"kind": "rotation", "angles": [draw(st.floats(0.2, 2.9)) for _ in range(3)], "improper": draw(st.booleans()),
              "t": [draw(st.floats(-5, 5)) for _ in range(3)], "perm": draw(st.permutations(list(range(natm)))), "oct": 0}
    return {"mol": mol, "nlof": draw(G.st_nlof()), "dm": draw(G.st_dm(uks=False)), "motion": motion,
            "npts": draw(st.integers(6, 24)), "seed": draw(st.integers(0, 2**31 - 1))}


@subcheck("C06", "nlof_rigid_motion", st_nlof_motion, quick=64, thorough=1000, tolerances=TOL, shrink=False,
          rule="G-mol x PSD dm x FracLaplSettings (1-3 powers, scalar / vector / 'd' / 'dd' features, dot products incl. the density "
               "gradient) x a drawn proper or improper rotation + translation + atom relabelling: features from the repository's "
               "descriptor routine (_fl_desc_getter) for the moved molecule, with the density matrix carried by the exact AO "
               "representation of the motion (least squares, residual checked), at the co-moved probe points equal the features "
               "of the original (scalars and dot products are invariant; no quadrature is involved, so 1e-9 of the largest "
               "|feature| of the row); non-trivial = some |feature| > 1e-6")
def nlof_rigid_motion(case, ctx):
    from ciderpress.pyscf.descriptors import _fl_desc_getter

    from props.c03 import probe_grids

    mspec = case["mol"]
    mol = G.build_mol(mspec)
    natm = mol.natm
    m = case["motion"]
    R = G._rot(m["angles"]) * (-1.0 if m["improper"] else 1.0)
    t = np.array(m["t"])
    perm = list(m["perm"])
    c = mol.atom_coords()
    atoms2 = [[mspec["atoms"][p][0], list(c[p] @ R.T + t)] for p in perm]
    mol2 = G.build_mol(mspec, atoms=atoms2)
    M, resid = ao_representation(mol, mol2, R, t, case["seed"])
    ctx.check(resid < 1e-8, ("oracle_self_test", "ao_representation"), resid=resid)
    settings = G.build_nlof(case["nlof"])
    dm = G.build_dm(mol, case["dm"])[0][0]["dm"]
    dm2 = M @ dm @ M.T
    rng = rng_from(case["seed"] + 1)
    pts = c[rng.integers(0, natm, case["npts"])] + rng.normal(size=(case["npts"], 3)) * 0.9
    f1 = np.array(_fl_desc_getter(mol, probe_grids(mol, pts), dm, settings), copy=True)
    f2 = np.array(_fl_desc_getter(mol2, probe_grids(mol2, pts @ R.T + t), dm2, settings), copy=True)
    nl = case["nlof"]
    for key in ("nk0", "nk1", "nd1", "ndd"):
        ctx.event("nlof:%s=%s" % (key, "0" if nl[key] == 0 else (">1" if nl[key] > 1 else "1")))
    ctx.event("improper" if m["improper"] else "proper")
    if np.max(np.abs(f1)) > 1e-6:
        ctx.nontrivial([case["nlof"], G.mol_class(mspec), m["improper"]])
    kinds = ["k0"] * nl["nk0"] + ["l1dot"] * len(nl["l1_dots"]) + ["lddot"] * len(nl["ld_dots"]) + ["dd"] * nl["ndd"]
    ctx.check(f1.shape == f2.shape == (settings.nfeat, case["npts"]), ("nlof_motion", "shape"), got=[list(f1.shape), list(f2.shape)])
    for k in range(settings.nfeat):
        sc = float(np.max(np.abs(f1[k]))) + 1e-300
        ctx.close(f2[k], f1[k], ("nlof_motion", kinds[k]), rtol=0, atol=1e-9 * sc + 1e-13, feature=k)
