"""C02 -- fast nonlocal feature evaluation reproduces the documented feature definitions."""
import math

import numpy as np
from hypothesis import strategies as st

from cpverif import gen_mol as G
from cpverif.oracles import rng_from
from cpverif.runner import subcheck

CFC = 0.3 * (3 * np.pi**2) ** (2.0 / 3)
FAC = 1.2 * (6 * np.pi**2) ** (2.0 / 3) / np.pi     # turns (grad_mul, tau_mul) into the documented B_i, C_i

# which spec classes are judged (None = counted only: tail-dominated kernels the docs call numerically hard)
TOL_SPEC = {"se": 1, "se_ar2": 1, "se_a2r4": 1, "se_erf_rinv": 1, "se_ap": 1, "se_apr2": 1,
            "se_ap2r2": 1, "se_lapl": 1, "se_r2": None, "k": 1, "dot_grad": 1, "dot_rvec": None}
EXCLUDE_KNOWN = {"sdmx_1d_definition"}     # regions of open known findings (generated cases avoid them, counted)
TOL = {"definition_panel_median": "min(4e-2, 1.5e-2 + 8 x ladder-refinement spread); doubled where theta vanishes in the tail", "definition_worst_point_rel_to_max": 0.35, "fast_interpolators_vs_train_gen": 2e-3, "gaussian_vs_spline_plan": 0.2, "sdmx_fast_vs_slow": 1e-6,
       "sdmx_definition": "max(4e-2, 2e-2 + 4 x spread), judged only where two refinements of the auxiliary ladder agree within 1e-2 (spread)"}


# ------------------------------------------------------------------------------------------------
# reference quadrature written from docs/features/nldf.rst (O-quad (i))

def doc_exponent(params, level, n, sigma, tau):
    """a[n](r) = pi (n/2)^(2/3) [A + B |grad n|^2/(8 n tau_0) + C (tau/tau_0 - 1)]  (nldf.rst)"""
    A = params[0]
    B = params[1] * FAC
    C = params[2] * FAC if level == "MGGA" else 0.0
    tau0 = CFC * n ** (5.0 / 3)
    out = A + B * sigma / (8 * n * tau0)
    if level == "MGGA":
        out = out + C * (tau / tau0 - 1.0)
    return np.pi * (n / 2.0) ** (2.0 / 3) * out


def erf_rinv(x):
    from scipy.special import erf

    x = np.asarray(x, float)
    out = np.empty_like(x)
    small = x < 1e-6
    out[small] = 1.0 - x[small] ** 2 / 3.0
    out[~small] = 0.5 * np.sqrt(np.pi) * erf(x[~small]) / x[~small]
    return out


def reference_features(nspec, mol, dm, pts, ref_level=5):
    """Direct quadrature of the documented integrals on an independent fine Becke grid.
    Returns (nfeat, npts) raw features in the order of nldf_settings (j first, then i l0, then dots; or k)."""
    from pyscf.dft import numint
    from pyscf.dft.gen_grid import Grids

    g = Grids(mol)
    g.level = ref_level
    g.prune = None
    g.build()
    w = g.weights
    rg = g.coords
    rho = numint.eval_rho(mol, numint.eval_ao(mol, rg, deriv=1), dm, xctype="MGGA", with_lapl=False)
    n, grad, tau = rho[0], rho[1:4], rho[4]
    keep = n > 1e-14
    n, grad, tau, w, rg = n[keep], grad[:, keep], tau[keep], w[keep], rg[keep]
    sig = (grad**2).sum(0)
    level = nspec["level"]
    a0 = doc_exponent(nspec["theta"], level, n, sig, tau)
    b = a0 if nspec["rho_mult"] == "expnt" else 1.0
    src = w * n * b
    rp = numint.eval_rho(mol, numint.eval_ao(mol, pts, deriv=1), dm, xctype="MGGA", with_lapl=False)
    npnt, gradp, taup = rp[0], rp[1:4], rp[4]
    sigp = (gradp**2).sum(0)
    d = rg[None, :, :] - pts[:, None, :]           # r' - r
    r2 = (d**2).sum(-1)
    feats = []
    v = nspec["version"]
    if "j" in v:
        for spec, par in zip(nspec["jspecs"], nspec["jparams"]):
            ai = doc_exponent(par, level, npnt, sigp, taup)
            e = np.exp(-(ai[:, None] + a0[None, :]) * r2)
            if spec == "se":
                k = e
            elif spec == "se_ar2":
                k = ai[:, None] * r2 * e
            elif spec == "se_a2r4":
                k = (ai[:, None] ** 2) * r2 * r2 * e
            elif spec == "se_erf_rinv":
                k = e * erf_rinv(np.sqrt(par[-1] * ai[:, None] * r2))
            feats.append(k @ src)
    if "i" in v:
        e = np.exp(-a0[None, :] * r2)
        a = a0[None, :]
        kern = {"se": e, "se_r2": r2 * e, "se_apr2": a * r2 * e, "se_ap": a * e, "se_ap2r2": a * a * r2 * e}
        kern["se_lapl"] = 4 * kern["se_ap2r2"] - 2 * kern["se_ap"]
        for spec in nspec["l0"]:
            feats.append(kern[spec] @ src)
        vecs = []
        for spec in nspec["l1"]:
            k = kern["se_ap"] if spec == "se_grad" else kern["se"]
            vecs.append(np.einsum("pg,pgx,g->xp", k, d, src))
        for j, kk in nspec["dots"]:
            va = gradp if j == -1 else vecs[j]
            vb = gradp if kk == -1 else vecs[kk]
            feats.append((va * vb).sum(0))
    if v == "k":
        for par in nspec["kparams"]:
            ai = doc_exponent(par, level, npnt, sigp, taup)
            k = np.exp(-ai[:, None] * r2) * np.exp(-1.5 * a0[None, :] / ai[:, None])
            feats.append(k @ src)
    return np.array(feats), npnt


def spec_labels(nspec):
    labs = []
    v = nspec["version"]
    if "j" in v:
        labs += list(nspec["jspecs"])
    if "i" in v:
        labs += list(nspec["l0"])
        for j, k in nspec["dots"]:
            names = ["grad" if x == -1 else nspec["l1"][x] for x in (j, k)]
            labs.append("dot_rvec" if "se_rvec" in names else "dot_grad")
    if v == "k":
        labs += ["k"] * len(nspec["kparams"])
    return labs


def _probe_grid_points(mol, dm, level, npts, seed):
    from pyscf.dft import numint

    from ciderpress.pyscf.gen_cider_grid import CiderGrids

    grids = CiderGrids(mol)
    grids.level = level
    grids.build(with_non0tab=True)
    rho = numint.eval_rho(mol, numint.eval_ao(mol, grids.coords), dm)
    ok = np.flatnonzero((rho > 1e-2 * rho.max()) & (grids.weights > 0))
    rng = rng_from(seed)
    idx = np.sort(rng.choice(ok, min(npts, len(ok)), replace=False))
    return grids, idx


@st.composite
def st_nldf_case(draw):
    nldf = draw(G.st_nldf())
    # a panel of three DIFFERENT systems (the panel statistic is a median over systems: two copies of one diffuse
    # molecule would decide it alone -- thorough tier, seed 2: Li-He twice, 4.2e-2 against 4e-2): the heaviest element of the
    # three molecules is drawn without replacement, the rest of each molecule freely
    heavy = draw(st.permutations(["He", "Li", "Be", "C", "N", "O", "F"]))[:3]
    mols = []
    for el in heavy:
        others = ["H", "He"] if el in ("O", "F", "N", "C") else ["H"]
        mols.append(draw(G.st_mol(min_atoms=1, max_atoms=2, elements=[el] + others, max_elec=12,
                                  levels=(1,), bases=("sto-3g", "6-31g"), min_elec=2)))
        if not any(a[0] == el for a in mols[-1]["atoms"]):
            mols[-1]["atoms"][0][0] = el
            ne = sum(G.ZNUM[a[0]] for a in mols[-1]["atoms"])
            mols[-1]["spin"] = ne % 2
    return {"mols": mols, "nldf": nldf, "dm": draw(G.st_dm(uks=False)), "npts": draw(st.integers(16, 32)),
            "seed": draw(st.integers(0, 2**31 - 1)), "plan_type": draw(st.sampled_from(["gaussian", "spline"])),
            "spin_channel": draw(st.booleans())}


def _fast_reference_path(mol, pts, dm, settings, plan_type, **kw):
    from ciderpress.pyscf.descriptors import _nldf_desc_getter

    from props.c03 import probe_grids

    return np.asarray(_nldf_desc_getter(mol, probe_grids(mol, pts), dm, settings, plan_type=plan_type,
                                        inner_grids_level=3, **kw))


def definition_errors(nspec, mspec, dmspec, spin_channel, npts, seed, plan_type):
    """per feature: (max over points of |fast-ref|/max|ref|,  median over points of |fast-ref|/(|ref|+0.05 max|ref|))"""
    mol = G.build_mol(mspec)
    settings = G.build_nldf(nspec)
    ch = G.build_dm(mol, dict(dmspec, uks=spin_channel))[0]
    dm = 2 * ch[0]["dm"] if spin_channel else ch[0]["dm"]
    grids, idx = _probe_grid_points(mol, dm, 1, npts, seed)
    pts = np.ascontiguousarray(grids.coords[idx])
    ref, _ = reference_features(nspec, mol, dm, pts)
    fast = _fast_reference_path(mol, pts, dm, settings, plan_type, aux_lambd=1.6)
    # the same path on a finer exponent ladder (ratio 1.35, lower end / 16): how far the default ladder is from converged
    fine = _fast_reference_path(mol, pts, dm, settings, plan_type, aux_lambd=1.35, alpha_min=float(settings.theta_params[0]) / 4096.0)
    assert fast.shape == ref.shape == (settings.nfeat, len(pts)), (fast.shape, ref.shape)
    out = []
    for k in range(ref.shape[0]):
        sc = float(np.max(np.abs(ref[k]))) + 1e-300
        d = np.abs(fast[k] - ref[k])
        den = np.abs(ref[k]) + 0.05 * sc
        out.append((float(d.max() / sc), float(np.median(d / den)), sc, float(np.median(np.abs(fast[k] - fine[k]) / den)),
                    float(np.median(np.abs(fine[k] - ref[k]) / den))))
    return out


@subcheck("C02", "nldf_definition", st_nldf_case, quick=64, thorough=800, tolerances=TOL, shrink=False,
          rule="every NLDF version / level / rho_mult / spec list in arbitrary order with repeats x Gaussian or spline plan, on a "
               "drawn PANEL of three small molecules (1-2 light atoms) with PSD density matrices (the total density, or one "
               "spin channel doubled: F_sigma = G[2 n_sigma]): raw features from the repository's reference-grade path "
               "(descriptor getter, train_gen interpolator, inner grid level 3) at 16-32 grid points carrying > 1% of the "
               "maximum density vs a direct numpy quadrature, on an independent unpruned level-5 Becke grid, of the integrals "
               "written in docs/features/nldf.rst (exponent formula re-typed from the docs; B_i, C_i from grad_mul, tau_mul "
               "with the factor 1.2 (6 pi^2)^(2/3) / pi; se_erf_rinv normalised to 1 at r -> 0). Per feature: (i) the median "
               "over the panel of the median-over-points relative error <= min(4e-2, 1.5e-2 + 8 x the change of the feature "
               "under a refinement of the exponent ladder) (1100 + 400 clean comparisons: typical 3e-4..2e-3, p90 <= 4e-3, "
               "worst unresolved system 4e-2, never above a quarter of the adaptive bound) -- sensitive to any systematic factor; (ii) the worst "
               "point of any panel member within 0.35 of the feature maximum (clean worst 0.22 over the thorough tiers). Parameter sets whose "
               "theta exponent vanishes in the tail get 2x looser bounds; se_r2 and se_rvec dot products, which the docs "
               "call numerically hard, are counted, not judged. Non-trivial = max|ref| > 1e-6")
def nldf_definition(case, ctx):
    nspec = case["nldf"]
    labs = spec_labels(nspec)
    panel = [definition_errors(nspec, m, case["dm"], case["spin_channel"], case["npts"], case["seed"] + i, case["plan_type"])
             for i, m in enumerate(case["mols"])]
    ctx.event("nldf=%s/%s/%s/%s" % (nspec["version"], nspec["level"], nspec["rho_mult"], case["plan_type"]))
    if max(p[k][2] for p in panel for k in range(len(labs))) > 1e-6:
        ctx.nontrivial([nspec["version"], nspec["level"], nspec["rho_mult"], labs, case["plan_type"]])
    # theta exponent without gradient / kinetic-energy dependence: a_0 ~ n^(2/3) vanishes in the density tail, the
    # r'-integrand is then cut by the fixed lower end of the exponent ladder (alpha_min = theta_0/256) rather than by
    # the kernel; such parameter sets (not used by any shipped functional) get looser bounds
    th = nspec["theta"]
    tail_vanishing = th[1] == 0 and (nspec["level"] == "GGA" or th[2] == 0)
    if tail_vanishing:
        ctx.event("theta_exponent_vanishes_in_tail")
    for k, lab in enumerate(labs):
        ctx.event("spec=" + lab)
        if TOL_SPEC[lab] is None:
            ctx.event("counted_not_judged=" + lab)
            continue
        med = float(np.median([p[k][1] for p in panel]))
        mx = float(max(p[k][0] for p in panel))
        tmed, tmax = (8e-2, 0.6) if tail_vanishing else (4e-2, 0.35)     # worst point: 0.22 seen on the clean tree (thorough tier)
        key = "%s/%s/%s" % (nspec["version"], lab, nspec["rho_mult"])
        # resolution-adaptive bound for the panel median: the sampled 4e-2 is the worst *unresolved* system; where the
        # default exponent ladder is converged (the same path on a ladder with ratio 1.35 and a 16x lower end moves the
        # feature by `spr`), what is left is the reference quadrature and the angular / radial truncations: 1.5e-2 + 8 spr
        # (over 400 clean panels the error never exceeded a quarter of that).  A wrong radial integral in the l >= 1
        # channels of the r^2-type kernels (seeded change C02_7) shifts well-resolved features by 2-3 %: invisible at 4e-2.
        spr = float(np.median([p[k][3] for p in panel]))
        tmed = min(tmed, (3e-2 if tail_vanishing else 1.5e-2) + 8.0 * spr)
        ctx.measure("definition_panel_median/" + key, med / tmed)
        ctx.measure("definition_worst_point/" + key, mx / tmax)
        ctx.check(med <= tmed, ("definition", nspec["version"], lab, nspec["rho_mult"], "panel_median"), err=med, tol=tmed,
                  feature=k, plan=case["plan_type"], level=nspec["level"], per_system=[p[k][1] for p in panel])
        ctx.check(mx <= tmax, ("definition", nspec["version"], lab, nspec["rho_mult"], "worst_point"), err=mx, tol=tmax,
                  feature=k, plan=case["plan_type"], level=nspec["level"])


# ------------------------------------------------------------------------------------------------
@st.composite
def st_paths_case(draw):
    nldf = draw(G.st_nldf())
    mol = draw(G.st_mol(min_atoms=1, max_atoms=2, elements=["H", "He", "Li", "Be", "C", "N", "O", "F"], max_elec=12,
                        levels=(1, 2), bases=("sto-3g", "6-31g"), min_elec=2))
    return {"mol": mol, "nldf": nldf, "dm": draw(G.st_dm(uks=False)), "npts": draw(st.integers(30, 80)),
            "seed": draw(st.integers(0, 2**31 - 1)), "plan_type": draw(st.sampled_from(["gaussian", "spline"])),
            "interp": draw(st.sampled_from(["onsite_direct", "onsite_spline"])), "warm": draw(st.booleans())}


@subcheck("C02", "nldf_fast_vs_reference_path", st_paths_case, quick=64, thorough=800, tolerances=TOL, shrink=False,
          rule="same generator (in half of the cases already used once for a different density); the fast interpolators used in SCF calculations (onsite_direct / onsite_spline through "
               "PyscfNLDFGenerator.get_features on the CIDER grid) vs the reference-grade train_gen path evaluated at the same "
               "grid points with the same inner grid, and Gaussian vs spline plan through the same path: max over points "
               "(density > 1% of max) of the difference relative to max|feature| <= 2e-3 for the interpolators (measured 1.5e-4) "
               "and <= 0.2 between the plan types (two different truncated expansions of the same integral: measured 2.3e-2 in the quick tier, 0.111 on Li2 in 800 thorough cases); se_r2 / se_rvec dots counted only")
def nldf_fast_vs_reference_path(case, ctx):
    from pyscf.dft import numint

    from ciderpress.pyscf.descriptors import _nldf_desc_getter
    from ciderpress.pyscf.nldf_convolutions import PyscfNLDFGenerator

    nspec = case["nldf"]
    mol = G.build_mol(case["mol"])
    settings = G.build_nldf(nspec)
    dm = G.build_dm(mol, case["dm"])[0][0]["dm"]
    grids, idx = _probe_grid_points(mol, dm, case["mol"]["grid_level"], case["npts"], case["seed"])
    rho_full = numint.eval_rho(mol, numint.eval_ao(mol, grids.coords, deriv=1), dm, xctype="MGGA", with_lapl=False)
    if nspec["level"] == "GGA":
        rho_in = rho_full[:4]
    else:
        rho_in = rho_full
    # the auxiliary ladder ratio is passed explicitly (1.6, the value the tolerances below were measured with): the
    # package's default is a tuning parameter a maintainer may change without touching the property
    gen = PyscfNLDFGenerator.from_mol_and_settings(mol, grids.grids_indexer, 1, settings, plan_type=case["plan_type"],
                                                   interpolator_type=case["interp"], aux_lambd=1.6)
    gen.interpolator.set_coords(grids.coords)
    if case.get("warm"):
        # the features are a function of the density handed in, not of what the generator was used for before: half of
        # the cases evaluate a different density (another molecule-independent rescaling per row) on the generator first
        ctx.event("generator_used_before")
        other_rho = np.ascontiguousarray(rho_in * np.array([0.37, -0.8, 1.3, 0.6, 0.45][: len(rho_in)])[:, None])
        gen.get_features(other_rho)
    fast = np.asarray(gen.get_features(np.ascontiguousarray(rho_in)))[:, idx]
    ref = np.asarray(_nldf_desc_getter(mol, grids, dm, settings, inner_grids=grids, plan_type=case["plan_type"], aux_lambd=1.6))[:, idx]
    other = "spline" if case["plan_type"] == "gaussian" else "gaussian"
    ref2 = np.asarray(_nldf_desc_getter(mol, grids, dm, settings, inner_grids=grids, plan_type=other, aux_lambd=1.6))[:, idx]
    labs = spec_labels(nspec)
    th = nspec["theta"]
    tail_vanishing = th[1] == 0 and (nspec["level"] == "GGA" or th[2] == 0)
    ctx.event("interp=%s/%s" % (case["interp"], case["plan_type"]))
    if np.max(np.abs(ref)) > 1e-6:
        ctx.nontrivial([nspec["version"], nspec["level"], nspec["rho_mult"], labs, case["plan_type"], case["interp"]])
    refined = None
    for k, lab in enumerate(labs):
        sc = float(np.max(np.abs(ref[k]))) + 1e-300
        if TOL_SPEC[lab] is None:
            ctx.event("counted_not_judged=" + lab)
            continue
        # interpolators share the plan and the inner grid, so they differ only by the radial interpolation of the
        # atom-centred expansion: measured <= 1.5e-4, tolerance 2e-3; the two plan types are different auxiliary
        # expansions of the same integral: measured <= 2.3e-2 (quick), 0.111 (thorough, Li2): tolerance 0.2
        tol1, tol2 = 2e-3, 0.2
        e1 = float(np.max(np.abs(fast[k] - ref[k]))) / sc
        e2 = float(np.max(np.abs(ref2[k] - ref[k]))) / sc
        ctx.measure("interp/%s/%s" % (case["interp"], lab), e1 / tol1)
        ctx.measure("plan/%s" % lab, e2 / tol2)
        ctx.check(e1 <= tol1, ("fast_vs_train_gen", case["interp"], lab), err=e1, tol=tol1, version=nspec["version"])
        if tail_vanishing:
            # theta exponent vanishing in the density tail: both auxiliary expansions are cut by the lower end of
            # their (different) ladders, so they need not agree (measured up to 160 % for a Li atom); counted only
            ctx.event("plan_comparison_skipped_theta_vanishes_in_tail")
            continue
        if e2 > 0.25 * tol2:
            # Two different auxiliary expansions of one integral differ by their truncation errors, for which 0.2 is a
            # sampled figure, not a bound (0.166 in the quick tier, 0.21 after a change of the package default).  What
            # separates truncation from a defect of one plan type is refinement: with a finer ladder (ratio 1.35, lower
            # end divided by 16) the difference must fall to 60 % or below a quarter of the figure.
            if refined is None:
                kwf = dict(aux_lambd=1.35, alpha_min=float(settings.theta_params[0]) / 4096.0)
                refined = (np.asarray(_nldf_desc_getter(mol, grids, dm, settings, inner_grids=grids, plan_type=case["plan_type"], **kwf))[:, idx],
                           np.asarray(_nldf_desc_getter(mol, grids, dm, settings, inner_grids=grids, plan_type=other, **kwf))[:, idx])
                ctx.event("plan_comparison_rejudged_on_finer_ladder")
            e2f = float(np.max(np.abs(refined[1][k] - refined[0][k]))) / (float(np.max(np.abs(refined[0][k]))) + 1e-300)
            ctx.measure("plan_refined/%s" % lab, e2f / max(0.25 * tol2, 0.6 * e2))
            ctx.check(e2f <= max(0.25 * tol2, 0.6 * e2), ("gaussian_vs_spline_plan", lab), err=e2, err_refined=e2f, tol=tol2,
                      version=nspec["version"])


# ------------------------------------------------------------------------------------------------
# SDMX: fast vs slow generator, and vs the documented definition (O-quad (ii))

def sdmx_h(u2, R):
    """h(u; R) of sdmx.rst"""
    x = 2.0 * u2 / (R * R)
    return (2.0 / np.pi) ** 1.5 * 4.0 / (4.0 - np.sqrt(2.0)) * np.exp(-x) / R**3 * (1.0 - np.exp(-x))


def sdmx_reference(mol, dm, pts, pows, nd=0, nR=200, ns=48, lebedev=23, terms=None):
    """H_j^0, H_j^0d (and, with `terms`, H_j^1 / H_j^1d) from the definitions in sdmx.rst.  rho^0(R; r) = int d^3u h(|u|; R)
    n_1(r+u, r) and rho^1(R; r) = int d^3r' [grad_r h(|r'-r|; R)] n_1(r', r) = -int d^3u h'(|u|; R) u/|u| n_1(r+u, r) are
    evaluated in spherical coordinates *around the probe point* (u = R s Omega: Gauss-Legendre in s on [0, 3.6] where h has
    decayed to e^-26, Lebedev rule in Omega), so every R is resolved equally well; then a trapezoid rule on a logarithmic
    R grid.  The repository's convention multiplies the documented feature by -1/4.

    terms: list of (kind, j) with kind in {"0", "0d", "1", "1d", "1d_code"}; default: the l=0 list of (pows, nd).
    "1d" is the documented 4 pi int dR R^(6-j) |d rho^1/dR|^2, "1d_code" is 4 pi int dR R^(4-j) |d(R rho^1)/dR|^2."""
    from pyscf.dft import numint
    from scipy.integrate import lebedev_rule

    if terms is None:
        terms = [("0", j) for j in pows] + [("0d", j) for j in pows[:nd]]
    need1 = any(k.startswith("1") for k, _ in terms)
    om, wom = lebedev_rule(lebedev)          # (3, M), weights sum to 4 pi
    sk, wk = np.polynomial.legendre.leggauss(ns)
    smax = 3.6
    sk = 0.5 * smax * (sk + 1.0)
    wk = 0.5 * smax * wk
    c = (2.0 / np.pi) ** 1.5 * 4.0 / (4.0 - np.sqrt(2.0))
    e1 = np.exp(-2 * sk**2)
    gk = c * e1 * (1.0 - e1) * sk**2 * wk     # h(R s; R) R^3 s^2 ds
    dgk = c * (-e1 + 2 * e1**2) * 4 * sk * sk**2 * wk     # h'(R s; R) R^4 s^2 ds
    t = np.linspace(np.log(4e-3), np.log(50.0), nR)
    Rs = np.exp(t)
    ao_p = numint.eval_ao(mol, pts)
    rho0 = np.empty((nR, len(pts)))
    rho1 = np.zeros((nR, 3, len(pts)))
    # quadrature orders from a convergence study on the cases that the first version of this reference (140 x 28 x
    # Lebedev-13) got wrong by 9-27 %: 200 x 48 x Lebedev-23 agrees with 260 x 64 x Lebedev-35 to 1.3e-2 (the angular
    # integrand has a sharp feature when the sphere |u| = R s passes a nucleus)
    for ip in range(len(pts)):
        for r0 in range(0, nR, 25):          # chunks of R values: bounded memory
            Rc = Rs[r0:r0 + 25]
            u = (Rc[:, None, None, None] * sk[None, :, None, None] * om.T[None, None, :, :]).reshape(-1, 3)
            ao = numint.eval_ao(mol, pts[ip][None, :] + u)
            n1 = (ao @ (dm @ ao_p[ip])).reshape(len(Rc), ns, -1)
            rho0[r0:r0 + 25, ip] = np.einsum("k,rkm,m->r", gk, n1, wom)
            if need1:
                rho1[r0:r0 + 25, :, ip] = -np.einsum("k,rkm,m,xm->rx", dgk, n1, wom, om) / Rc[:, None]
    drho0 = np.gradient(rho0, t, axis=0) / Rs[:, None]          # d/dR
    drho1 = np.gradient(rho1, t, axis=0) / Rs[:, None, None]
    dRrho1 = np.gradient(rho1 * Rs[:, None, None], t, axis=0) / Rs[:, None, None]
    out = []
    R = Rs[:, None]
    for kind, j in terms:
        if kind == "0":
            f = R ** (2 - j) * rho0**2
        elif kind == "0d":
            f = R ** (4 - j) * drho0**2
        elif kind == "1":
            f = R ** (4 - j) * (rho1**2).sum(1)
        elif kind == "1d":
            f = R ** (6 - j) * (drho1**2).sum(1)
        elif kind == "1d_code":
            f = R ** (4 - j) * (dRrho1**2).sum(1)
        else:
            raise ValueError(kind)
        out.append(-0.25 * np.trapezoid(4 * np.pi * f * R, t, axis=0))     # dR = R dt
    return np.array(out)


def sdmx_terms(spec):
    """(kind, j) per feature, in the order the settings classes lay the features out; None where the documented
    definition does not apply directly (SDMXFullSettings with a ratio other than 1)."""
    c, pows = spec["cls"], spec["pows"]
    if c == "SDMX":
        return [("0", j) for j in pows]
    if c == "G":
        return [("0", j) for j in pows] + [("0d", j) for j in pows[: spec["nd"]]]
    if c == "1":
        return [("0", j) for j in pows] + [("1", j) for j in pows[: spec["n1"]]]
    if c == "G1":
        return [("0", j) for j in pows] + [("0d", j) for j in pows[: spec["nd"]]] + [("1", j) for j in pows[: spec["n1"]]]
    if c == "Full":
        if sorted(float(k) for k in spec["full"]) != [1.0]:
            return None
        pw, cnt = spec["full"][[k for k in spec["full"]][0]]
        return ([("0", j) for j in pw[: cnt[0]]] + [("0d", j) for j in pw[: cnt[1]]] + [("1", j) for j in pw[: cnt[2]]]
                + [("1d", j) for j in pw[: cnt[3]]])
    raise ValueError(c)


@st.composite
def st_sdmx_case(draw):
    return {"mol": draw(G.st_mol(min_atoms=1, max_atoms=3, max_elec=16, levels=(0,), bases=("sto-3g", "6-31g", "cc-pvdz"), min_elec=2)),
            "sdmx": draw(G.st_sdmx()), "dm": draw(G.st_dm()), "npts": draw(st.integers(8, 24)),
            "seed": draw(st.integers(0, 2**31 - 1))}


@subcheck("C02", "sdmx_fast_vs_slow_and_definition", st_sdmx_case, quick=64, thorough=800, tolerances=TOL, shrink=False,
          rule="G-mol x PSD dm (restricted or both spin channels) x every SDMX settings class: (0) restricted cases: get_feat_and_occd of the slow generator returns the features of get_features (1e-10) and occupation derivatives equal to the central difference along dm + t c c^T (exact for a quadratic functional, 1e-9); (1) the fast generator "
               "(pyscf.sdmx) and the reference-grade slow generator (pyscf.sdmx_slow) agree at drawn points to 1e-6 of the "
               "feature maximum; (2) for every settings class whose features the documentation defines (SDMX, G, 1, G1, and Full with the "
               "single ratio 1) the features H_j^0, H_j^0d, H_j^1, H_j^1d equal within 4e-2 -- where two successive refinements of the auxiliary exponent ladder (smallest exponent /16 and /64) agree within a quarter of that tolerance, otherwise the comparison is counted unresolved -- a "
               "direct quadrature of the definition in docs/features/sdmx.rst (rho^0(R; r) and the vector rho^1(R; r) with the documented h(u; R) by "
               "Gauss-Legendre x Lebedev quadrature around the probe point, 1-D log-grid integral over R, times the code's -1/4 convention which is itself tied to the "
               "UEG constants by C13), using a refined auxiliary ladder (smallest exponent/16; measured error <= 2.6e-2 with segmented bases, 5.4e-2 with cc-pVDZ whose tight core primitives the ladder resolves less well; histogram over 2300 feature comparisons in the evidence classes `sdmx_definition_error:*`: 90% below 2e-2, largest 0.092 for l=0 and 0.125 for l=1 terms; the documented-vs-implemented H^1d discrepancy recorded as a known finding is 0.33-0.59), "
               "and the refined ladder is not further from the definition than the default one (controllable truncation); "
               "non-trivial = some |feature| > 1e-6")
def sdmx_fast_vs_slow_and_definition(case, ctx):
    from ciderpress.pyscf import sdmx as fast_mod
    from ciderpress.pyscf import sdmx_slow as slow_mod

    mol = G.build_mol(case["mol"])
    settings = G.build_sdmx(case["sdmx"])
    chans = G.build_dm(mol, case["dm"])[0]
    nspin = len(chans)
    dms = np.array([c["dm"] for c in chans])
    rng = rng_from(case["seed"])
    c = mol.atom_coords()
    pts = np.ascontiguousarray(c[rng.integers(0, len(c), case["npts"])] + rng.normal(size=(case["npts"], 3)) * 0.9)
    arg = dms if nspin == 2 else dms[0]
    gen = fast_mod.EXXSphGenerator.from_settings_and_mol(settings, nspin, mol)
    f = np.array(gen.get_features(arg, mol, pts), copy=True).reshape(nspin, settings.nfeat, -1)
    ctx.event("sdmx=" + case["sdmx"]["cls"])
    if np.max(np.abs(f)) > 1e-6:
        ctx.nontrivial([case["sdmx"], G.mol_class(case["mol"]), nspin])
    slow_cls = getattr(slow_mod, "EXXSphGenerator", None)
    if slow_cls is not None:
        gs = slow_cls.from_settings_and_mol(settings, nspin, mol)
        fs = np.array(gs.get_features(arg, mol, pts), copy=True).reshape(nspin, settings.nfeat, -1)
        for k in range(settings.nfeat):
            sc = float(np.max(np.abs(fs[:, k]))) + 1e-300
            ctx.close(f[:, k], fs[:, k], ("fast_vs_slow", case["sdmx"]["cls"], "l1" if k >= gen.plan.num_l0_feat else "l0"),
                      rtol=1e-6, scale=sc, feature=k)
    if slow_cls is not None and nspin == 1 and hasattr(gs, "get_feat_and_occd"):
        # the occupation-derivative entry point (get_descriptors with orbitals): same features, and derivatives with
        # respect to the occupation of an orbital c, i.e. along dm -> dm + t c c^T.  The features are quadratic in the
        # density matrix, so a central difference in t is exact up to rounding.
        orb = rng_from(case["seed"] + 3).normal(size=(2, mol.nao)) / np.sqrt(mol.nao)
        val, occd = gs.get_feat_and_occd(dms[0], orb, mol, pts)
        val, occd = np.asarray(val), np.asarray(occd)
        ctx.check(val.shape == fs[0].shape and occd.shape == (2,) + fs[0].shape, ("feat_and_occd", "shape"), val=list(val.shape), occd=list(occd.shape))
        for k in range(settings.nfeat):
            lab = "l1" if k >= gen.plan.num_l0_feat else "l0"
            sc = float(np.max(np.abs(fs[0, k]))) + 1e-300
            ctx.close(val[k], fs[0, k], ("feat_and_occd", "value_vs_get_features", case["sdmx"]["cls"], lab), rtol=1e-10, scale=sc, feature=k)
        t = 1e-2
        for io in range(2):
            cc = np.outer(orb[io], orb[io])
            fp = np.array(gs.get_features(dms[0] + t * cc, mol, pts), copy=True).reshape(settings.nfeat, -1)
            fm = np.array(gs.get_features(dms[0] - t * cc, mol, pts), copy=True).reshape(settings.nfeat, -1)
            dfd = (fp - fm) / (2 * t)
            for k in range(settings.nfeat):
                lab = "l1" if k >= gen.plan.num_l0_feat else "l0"
                sc = float(np.max(np.abs(dfd[k]))) + float(np.max(np.abs(fs[0, k]))) + 1e-300
                ctx.close(occd[io, k], dfd[k], ("feat_and_occd", "occupation_derivative", case["sdmx"]["cls"], lab), rtol=1e-9, scale=sc,
                          feature=k, orbital=io)
        ctx.event("feat_and_occd_checked")
    terms = sdmx_terms(case["sdmx"])
    if terms is not None:
        # the definition is compared with a REFINED auxiliary expansion (smallest exponent / 16, same ratio 1.8; a
        # denser ratio 1.5 with ~48 exponents makes the overlap fit ill-conditioned and is NOT a refinement): the default
        # ladder's lower end is tuned for speed and under-represents rho^0(R) at large R for compact systems (H_0^0 of
        # an atom in a minimal basis is off by 5-10% with it); the truncation must be controllable, i.e. the refined
        # ladder must not be further from the definition than the default one
        gref = fast_mod.EXXSphGenerator.from_settings_and_mol(settings, nspin, mol, alpha0=gen.plan.alpha0 / 16.0, lambd=1.8)
        fr = np.array(gref.get_features(arg, mol, pts), copy=True).reshape(nspin, settings.nfeat, -1)
        # resolution rule (the analogue of the two-step finite-difference rule): a second refinement (smallest exponent / 64);
        # a feature whose two refined values still differ by more than a quarter of the tolerance is limited by the
        # auxiliary expansion, not by the implementation of the definition: counted `ladder_unresolved`, not judged
        gref2 = fast_mod.EXXSphGenerator.from_settings_and_mol(settings, nspin, mol, alpha0=gen.plan.alpha0 / 64.0, lambd=1.8)
        fr2 = np.array(gref2.get_features(arg, mol, pts), copy=True).reshape(nspin, settings.nfeat, -1)
        fdef = f
        f = fr
        # the reference quadrature costs ~2e6 orbital evaluations per probe point: the first 6 points are compared
        nq = min(6, len(pts))
        pts_q = np.ascontiguousarray(pts[:nq])
        f, fdef, fr, fr2 = f[:, :, :nq], fdef[:, :, :nq], fr[:, :, :nq], fr2[:, :, :nq]
        for s in range(nspin):
            # spin convention: features of channel s are those of the spin-summed matrix 2 * dm_s
            dm_s = dms[s] * (2.0 if nspin == 2 else 1.0)
            ref = sdmx_reference(mol, dm_s, pts_q, case["sdmx"]["pows"], terms=terms)
            for k in range(ref.shape[0]):
                sc = float(np.max(np.abs(ref[k]))) + 1e-300
                err = float(np.max(np.abs(f[s, k] - ref[k]))) / sc
                lab = "H" + terms[k][0]
                if lab == "H1d" and "sdmx_1d_definition" in EXCLUDE_KNOWN and "sdmx_1d_definition" not in case.get("allow", []):
                    # open finding K-C02-sdmx-1d-definition: the code computes 4 pi int R^(4-j) |d(R rho^1)/dR|^2, the
                    # documentation states 4 pi int R^(6-j) |d rho^1/dR|^2 (they differ by (4-j) H_j^1); the generated
                    # case is judged against the formula the code implements and the exclusion is counted
                    ctx.event("excluded_known:sdmx_1d_definition")
                    ref[k] = sdmx_reference(mol, dm_s, pts_q, case["sdmx"]["pows"], terms=[("1d_code", terms[k][1])])[0]
                    sc = float(np.max(np.abs(ref[k]))) + 1e-300
                    err = float(np.max(np.abs(f[s, k] - ref[k]))) / sc
                err_def = float(np.max(np.abs(fdef[s, k] - ref[k]))) / sc
                spread = float(np.max(np.abs(fr[s, k] - fr2[s, k]))) / sc
                # error budget: the reference quadrature agrees with its next level to 1.3e-2 (2e-2 allowed), and the
                # refined ladder is still moving by `spread` between its last two refinements (4 x spread allowed for what
                # is left); never below 4e-2, at most 6e-2 because cases with spread > 1e-2 are not judged
                tol_def = max(4e-2, 2e-2 + 4.0 * spread)
                if spread > 1e-2:
                    ctx.unresolved_fd("ladder_unresolved:" + lab)
                    ctx.event("sdmx_definition_error:%s:%s:unresolved" % (case["sdmx"]["cls"], lab))
                    continue
                ctx.decided["sdmx_definition/" + lab] = ctx.decided.get("sdmx_definition/" + lab, 0) + 1
                ctx.measure("sdmx_definition/" + lab, err / tol_def)
                ctx.event("sdmx_definition_error:%s:%s:%s" % (case["sdmx"]["cls"], lab, "<1e-2" if err < 1e-2 else "<2e-2" if err < 2e-2 else
                                                              "<4e-2" if err < 4e-2 else "<8e-2" if err < 8e-2 else "<0.16" if err < 0.16 else ">=0.16"))
                ctx.measure("sdmx_default_ladder_error/" + lab, err_def)
                ctx.check(err <= tol_def, ("sdmx_definition", lab + ("_as_documented" if lab == "H1d" and "sdmx_1d_definition" in case.get("allow", []) else ""),
                                           "nspin%d" % nspin), err=err, feature=k,
                          pows=case["sdmx"]["pows"])
                ctx.check(err <= err_def + 1e-2, ("sdmx_refinement_made_it_worse", lab), err_refined=err, err_default=err_def)
