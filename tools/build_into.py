#!/venv/bin/python
"""Compile the CiderPress C libraries of a source tree with /verif's own direct gcc build (native/build.py) and copy the
lib*.so files into <root>/ciderpress/lib/ (git-ignored there), so that a demonstration program can be run with
PYTHONPATH=<root>.  This is the committed twin of the neutral helper /opt/cpbuild/build_into.py that the sub-agents of the
seeded and property-preserving campaigns were given (they were not allowed to read /verif); tools/seeded_eval.py and
tools/benign_eval.py use this one, so the matrices can be re-run from a fresh checkout.

usage:  /venv/bin/python tools/build_into.py <repo-or-worktree-root> [--asan]
"""
import glob
import os
import shutil
import sys

VERIF = os.path.dirname(os.path.dirname(os.path.abspath(__file__)))
sys.path.insert(0, os.path.join(VERIF, "native"))
import build as B  # noqa: E402

root = os.path.abspath(sys.argv[1])
variant = "asan" if "--asan" in sys.argv else "plain"
d = B.build(variant, root, verbose=True)
for f in glob.glob(os.path.join(d, "lib*.so")):
    shutil.copy(f, os.path.join(root, "ciderpress", "lib", os.path.basename(f)))
print("installed libraries into", os.path.join(root, "ciderpress", "lib"))
