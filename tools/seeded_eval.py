#!/venv/bin/python
"""Evaluate one seeded change (a directory with patch.diff, demo.py, meta.json):

  1. scratch worktree of /repo HEAD under /tmp, patch applied (must apply cleanly);
  2. the repository's pinned test suite still gives 143 passed;
  3. the demonstration fails with the change and passes without it;
  4. the registered quick check(s) of the target property (or of --props) are run against the patched tree
     (VERIF_REPO=<worktree>), and their verdict recorded.

usage: tools/seeded_eval.py <dir> [--props C01,C07] [--keep] [--seed N]
Writes <dir>/eval.json and prints a one-line summary.  The worktree is removed afterwards.
"""
import json
import os
import subprocess
import sys
import time

VERIF = os.path.dirname(os.path.dirname(os.path.abspath(__file__)))


def sh(cmd, cwd=None, env=None, timeout=3600):
    p = subprocess.run(cmd, shell=True, cwd=cwd, env=env, capture_output=True, text=True, timeout=timeout)
    return p.returncode, p.stdout, p.stderr


def run_demo(wt, demo, rebuild):
    if rebuild:
        rc, out, err = sh("/venv/bin/python %s %s" % (os.path.join(VERIF, "tools", "build_into.py"), wt))
        if rc != 0:
            return None, "build failed: " + err[-500:]
    env = dict(os.environ, PYTHONPATH=wt, OMP_NUM_THREADS="4")
    rc, out, err = sh("/venv/bin/python %s" % demo, cwd=os.path.dirname(demo), env=env, timeout=1800)
    return rc, (out + err)[-600:]


def main():
    d = os.path.abspath(sys.argv[1])
    meta = json.load(open(os.path.join(d, "meta.json")))
    props = [meta["property"]]
    if "--props" in sys.argv:
        props = sys.argv[sys.argv.index("--props") + 1].split(",")
    seed = sys.argv[sys.argv.index("--seed") + 1] if "--seed" in sys.argv else "1"
    name = os.path.basename(d)
    wt = "/tmp/evalwt_%s_%d" % (name, os.getpid())
    res = {"dir": d, "property": meta["property"], "checked_props": props}
    sh("git -C /repo worktree add -q --detach %s HEAD" % wt)
    prev = None
    if "--checks-only" in sys.argv and os.path.exists(os.path.join(d, "eval.json")):
        prev = json.load(open(os.path.join(d, "eval.json")))
    try:
        patch = os.path.join(d, "patch.diff")
        if prev is not None and prev.get("baseline_ok") and prev.get("demo_ok"):
            # baseline and demonstration were confirmed by an earlier full evaluation: only re-run the checks
            res.update({k: prev[k] for k in ("applies", "baseline", "baseline_ok", "demo_clean_rc", "demo_patched_rc", "demo_ok",
                                             "demo_clean_tail", "demo_patched_tail") if k in prev})
            res["first_evaluation_checks"] = prev.get("first_evaluation_checks", prev.get("checks"))
            rc, out, err = sh("git -C %s apply %s" % (wt, patch))
            if rc != 0:
                res["applies"] = False
                res["error"] = err[-400:]
                return res
            res["checks"] = {}
            for pid in props:
                t0 = time.time()
                env = dict(os.environ, VERIF_REPO=wt, VERIF_SEED=seed, VERIF_NO_SHRINK="1",
                           VERIF_EVIDENCE_DIR=os.path.join(VERIF, ".build", "evidence_seeded"))
                rc, out, err = sh("bin/check %s --tier quick" % pid, cwd=VERIF, env=env, timeout=3600)
                sigs = sorted(set(l.split(" ")[1] for l in err.splitlines() if l.startswith("violation ")))
                res["checks"][pid] = {"exit": rc, "caught": rc == 1, "signatures": sigs[:12], "wall_s": round(time.time() - t0, 1)}
            return res
        if os.path.exists(os.path.join(d, "eval.json")):       # a re-confirmation (e.g. the patch was ported to a new HEAD)
            old = json.load(open(os.path.join(d, "eval.json")))
            res["first_evaluation_checks"] = old.get("first_evaluation_checks", old.get("checks"))
        touches_c = any(l.startswith("+++") and (".c" in l[-3:] or ".h" in l[-3:]) for l in open(patch))
        # demo on the clean tree
        rc0, out0 = run_demo(wt, os.path.join(d, "demo.py"), True)
        rc, out, err = sh("git -C %s apply %s" % (wt, patch))
        res["applies"] = rc == 0
        if rc != 0:
            res["error"] = err[-400:]
            return res
        sh("rm -f %s/ciderpress/lib/lib*.so" % wt)     # the pinned baseline runs without the compiled libraries
        rc, out, err = sh("/venv/bin/python -m pytest -q -p no:cacheprovider --timeout=900 --continue-on-collection-errors 2>&1 | tail -1", cwd=wt)
        res["baseline"] = out.strip()
        res["baseline_ok"] = "143 passed" in out
        rc1, out1 = run_demo(wt, os.path.join(d, "demo.py"), True)
        res["demo_clean_rc"], res["demo_patched_rc"] = rc0, rc1
        res["demo_ok"] = (rc0 == 0 and rc1 not in (0, None))
        res["demo_clean_tail"], res["demo_patched_tail"] = out0[-300:], out1[-300:]
        # remove the libs the demo build placed into the worktree (the harness builds its own)
        sh("rm -f %s/ciderpress/lib/lib*.so" % wt)
        res["checks"] = {}
        for pid in props:
            t0 = time.time()
            env = dict(os.environ, VERIF_REPO=wt, VERIF_SEED=seed, VERIF_NO_SHRINK="1",
                       VERIF_EVIDENCE_DIR=os.path.join(VERIF, ".build", "evidence_seeded"))
            rc, out, err = sh("bin/check %s --tier quick" % pid, cwd=VERIF, env=env, timeout=3600)
            sigs = sorted(set(l.split(" ")[1] for l in err.splitlines() if l.startswith("violation ")))
            res["checks"][pid] = {"exit": rc, "caught": rc == 1, "signatures": sigs[:12], "wall_s": round(time.time() - t0, 1)}
        return res
    finally:
        if "--keep" not in sys.argv:
            sh("git -C /repo worktree remove --force %s" % wt)
        json.dump(res, open(os.path.join(d, "eval.json"), "w"), indent=1)
        c = res.get("checks", {})
        print("%s: applies=%s baseline_ok=%s demo_ok=%s  %s" % (
            name, res.get("applies"), res.get("baseline_ok"), res.get("demo_ok"),
            " ".join("%s:%s" % (k, "CAUGHT" if v["caught"] else ("exit%d" % v["exit"])) for k, v in c.items())))


if __name__ == "__main__":
    main()
