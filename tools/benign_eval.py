#!/venv/bin/python
"""Evaluate one property-PRESERVING change (a directory with patch.diff, demo.py, meta.json): the opposite of
tools/seeded_eval.py.  The registered quick checks must stay quiet on it.

  1. scratch worktree of /repo HEAD under /tmp, patch applied (must apply cleanly);
  2. the repository's pinned test suite still gives 143 passed;
  3. the author's demonstration (an independent oracle for the property) passes without and with the change;
  4. the registered quick check of the target property, and of every property whose anchored files the patch touches
     (or of --props), is run against the patched tree (VERIF_REPO=<worktree>); every one must exit 0.

usage: tools/benign_eval.py <dir> [--props C01,C07] [--checks-only] [--seed N]
Writes <dir>/eval.json and prints a one-line summary.  The worktree is removed afterwards.
"""
import json
import os
import subprocess
import sys
import time

VERIF = os.path.dirname(os.path.dirname(os.path.abspath(__file__)))


def sh(cmd, cwd=None, env=None, timeout=3600):
    p = subprocess.run(cmd, shell=True, cwd=cwd, env=env, capture_output=True, text=True, timeout=timeout)
    return p.returncode, p.stdout, p.stderr


def run_demo(wt, demo):
    rc, out, err = sh("/venv/bin/python %s %s" % (os.path.join(VERIF, "tools", "build_into.py"), wt))
    if rc != 0:
        return None, "build failed: " + err[-500:]
    env = dict(os.environ, PYTHONPATH=wt, OMP_NUM_THREADS="4")
    rc, out, err = sh("/venv/bin/python %s" % demo, cwd=os.path.dirname(demo), env=env, timeout=1800)
    return rc, (out + err)[-600:]


def related_props(patch, target):
    files = set()
    for l in open(patch):
        if l.startswith("+++ b/"):
            files.add(l[6:].strip())
    props = [target]
    for l in open(os.path.join(VERIF, "properties.jsonl")):
        p = json.loads(l)
        if p["id"] != target and files & set(p.get("anchors", {}).get("files", [])):
            props.append(p["id"])
    return props[:3], sorted(files)


def main():
    d = os.path.abspath(sys.argv[1])
    meta = json.load(open(os.path.join(d, "meta.json")))
    patch = os.path.join(d, "patch.diff")
    props, files = related_props(patch, meta["property"])
    if "--props" in sys.argv:
        props = sys.argv[sys.argv.index("--props") + 1].split(",")
    seed = sys.argv[sys.argv.index("--seed") + 1] if "--seed" in sys.argv else "1"
    name = os.path.basename(d)
    wt = "/tmp/evalwt_%s_%d" % (name, os.getpid())
    res = {"dir": d, "property": meta["property"], "files": files, "checked_props": props}
    prev = None
    if "--checks-only" in sys.argv and os.path.exists(os.path.join(d, "eval.json")):
        prev = json.load(open(os.path.join(d, "eval.json")))
    sh("git -C /repo worktree add -q --detach %s HEAD" % wt)
    try:
        if prev is not None and prev.get("baseline_ok") and prev.get("demo_ok"):
            res.update({k: prev[k] for k in ("applies", "baseline", "baseline_ok", "demo_clean_rc", "demo_patched_rc", "demo_ok",
                                             "demo_clean_tail", "demo_patched_tail") if k in prev})
            res["first_evaluation_checks"] = prev.get("first_evaluation_checks", prev.get("checks"))
            rc, out, err = sh("git -C %s apply %s" % (wt, patch))
            if rc != 0:
                res["applies"] = False
                res["error"] = err[-400:]
                return res
        else:
            if os.path.exists(os.path.join(d, "eval.json")):       # a re-confirmation (e.g. the patch was ported to a new HEAD)
                old = json.load(open(os.path.join(d, "eval.json")))
                res["first_evaluation_checks"] = old.get("first_evaluation_checks", old.get("checks"))
            rc0, out0 = run_demo(wt, os.path.join(d, "demo.py"))
            rc, out, err = sh("git -C %s apply %s" % (wt, patch))
            res["applies"] = rc == 0
            if rc != 0:
                res["error"] = err[-400:]
                return res
            sh("rm -f %s/ciderpress/lib/lib*.so" % wt)     # the pinned baseline runs without the compiled libraries
            rc, out, err = sh("/venv/bin/python -m pytest -q -p no:cacheprovider --timeout=900 --continue-on-collection-errors 2>&1 | tail -1", cwd=wt)
            res["baseline"] = out.strip()
            res["baseline_ok"] = "143 passed" in out
            rc1, out1 = run_demo(wt, os.path.join(d, "demo.py"))
            res["demo_clean_rc"], res["demo_patched_rc"] = rc0, rc1
            res["demo_ok"] = (rc0 == 0 and rc1 == 0)
            res["demo_clean_tail"], res["demo_patched_tail"] = out0[-300:], out1[-300:]
            sh("rm -f %s/ciderpress/lib/lib*.so" % wt)
        res["checks"] = dict(prev.get("checks") or {}) if prev is not None else {}
        res["checked_props"] = sorted(set(props) | set(res["checks"]))
        for pid in props:
            t0 = time.time()
            env = dict(os.environ, VERIF_REPO=wt, VERIF_SEED=seed, VERIF_NO_SHRINK="1",
                       VERIF_EVIDENCE_DIR=os.path.join(VERIF, ".build", "evidence_seeded"))
            if pid != meta["property"] and "--props" not in sys.argv:
                env["VERIF_SCALE"] = "0.3"      # neighbouring properties that anchor in the touched files: a third of the cases
            rc, out, err = sh("bin/check %s --tier quick" % pid, cwd=VERIF, env=env, timeout=3600)
            sigs = sorted(set(l.split(" ")[1] for l in err.splitlines() if l.startswith("violation ")))
            res["checks"][pid] = {"exit": rc, "quiet": rc == 0 and "VIOLATION" not in out, "signatures": sigs[:12],
                                  "violation_lines": [l for l in out.splitlines() if l.startswith("VIOLATION")][:6],
                                  "scale": env.get("VERIF_SCALE", "1"), "stderr_tail": "" if rc == 0 else err[-600:], "wall_s": round(time.time() - t0, 1)}
        return res
    finally:
        sh("git -C /repo worktree remove --force %s" % wt)
        json.dump(res, open(os.path.join(d, "eval.json"), "w"), indent=1)
        c = res.get("checks", {})
        print("%s: applies=%s baseline_ok=%s demo_ok=%s  %s" % (
            name, res.get("applies"), res.get("baseline_ok"), res.get("demo_ok"),
            " ".join("%s:%s" % (k, "quiet" if v["quiet"] else ("ALARM(exit%d)" % v["exit"])) for k, v in c.items())), flush=True)


if __name__ == "__main__":
    main()
