#!/bin/sh
# usage: tools/try_seeded.sh <seeded dir> <PROP> [extra bin/check args]   -- apply the change in a scratch worktree, run one quick check
d=$1; p=$2; shift 2
wt=/tmp/trywt_$$
git -C /repo worktree add -q --detach $wt HEAD && git -C $wt apply $d/patch.diff || exit 2
VERIF_REPO=$wt VERIF_NO_SHRINK=1 VERIF_EVIDENCE_DIR=/verif/.build/evidence_seeded bin/check $p --tier quick "$@" 2>&1 | grep -E "^violation|seed=" | cut -c1-220
git -C /repo worktree remove --force $wt
