#!/venv/bin/python
"""For every `fixed` entry of known_findings.json: revert that fix in a scratch worktree of /repo HEAD and run the
quick check of the entry's property against it.  Records whether the check alarms (sensitivity evidence (b) of
DESIGN.md section 12) and whether a committed regression replay already fails there; if none does, the smallest
found case matching the entry's signature is copied to replays/<ID>/fixed_<entry id>.json.

usage: tools/regress_fixed.py [--only F-C04-...,...] [--scale 0.5]      -> writes docs/reverted_fixes.json
"""
import glob
import json
import os
import shutil
import subprocess
import sys

VERIF = os.path.dirname(os.path.dirname(os.path.abspath(__file__)))


def sh(cmd, cwd=None, env=None):
    p = subprocess.run(cmd, shell=True, cwd=cwd, env=env, capture_output=True, text=True)
    return p.returncode, p.stdout, p.stderr


def main():
    kf = json.load(open(os.path.join(VERIF, "known_findings.json")))["findings"]
    only = set(sys.argv[sys.argv.index("--only") + 1].split(",")) if "--only" in sys.argv else None
    scale = sys.argv[sys.argv.index("--scale") + 1] if "--scale" in sys.argv else "0.5"
    outp = os.path.join(VERIF, "docs", "reverted_fixes.json")
    results = json.load(open(outp)) if os.path.exists(outp) else {}
    for f in kf:
        if f["status"] != "fixed" or (only and f["id"] not in only):
            continue
        if not only and f["id"] in results and results[f["id"]].get("alarm"):
            continue
        wt = "/tmp/revwt_%d" % os.getpid()
        sh("git -C /repo worktree add -q --detach %s HEAD" % wt)
        try:
            rc, out, err = sh("git -C /repo show %s | git -C %s apply -R" % (f["commit"], wt))
            if rc != 0:
                results[f["id"]] = {"error": "cannot revert: " + err[-200:]}
                continue
            prop = f["property"]
            fdir = os.path.join(VERIF, "replays", prop, "found")
            shutil.rmtree(fdir, ignore_errors=True)
            env = dict(os.environ, VERIF_REPO=wt, VERIF_SCALE=scale, VERIF_NO_SHRINK="0",
                       VERIF_EVIDENCE_DIR=os.path.join(VERIF, ".build", "evidence_seeded"), VERIF_SHARDS="8")
            rc, out, err = sh("bin/check %s --tier quick" % prop, cwd=VERIF, env=env)
            lines = [l for l in out.splitlines() if l.startswith("VIOLATION")]
            corpus = [l.split("replay=")[1] for l in lines if "/found/" not in l]
            found = sorted(glob.glob(os.path.join(fdir, "*.json")), key=os.path.getsize)
            sigs = sorted(set(l.split(" ")[1] for l in err.splitlines() if l.startswith("violation ")))
            r = {"property": prop, "commit": f["commit"], "alarm": rc == 1, "exit": rc, "corpus_replays_failing": corpus,
                 "signatures": sigs[:10]}
            if rc == 1 and not corpus and found:
                want = [str(x) for x in f.get("signature", [])]
                pick = None
                for p in found:
                    sig = json.load(open(p)).get("signature", [])
                    if all(any(w in str(s) for s in sig) for w in want):
                        pick = p
                        break
                pick = pick or found[0]
                dst = os.path.join(VERIF, "replays", prop, "fixed_%s.json" % f["id"].replace("F-", "").lower())
                rec = json.load(open(pick))
                rec["note"] = "regression: fails with fix %s reverted (%s)" % (f["commit"], f["id"])
                json.dump(rec, open(dst, "w"), indent=1)
                r["new_replay"] = os.path.relpath(dst, VERIF)
            results[f["id"]] = r
            print(f["id"], r.get("alarm"), "corpus" if corpus else r.get("new_replay", "-"), flush=True)
        finally:
            sh("git -C /repo worktree remove --force %s" % wt)
            shutil.rmtree(os.path.join(VERIF, "replays", f["property"], "found"), ignore_errors=True)
            os.makedirs(os.path.dirname(outp), exist_ok=True)
            json.dump(results, open(outp, "w"), indent=1, sort_keys=True)


if __name__ == "__main__":
    main()
