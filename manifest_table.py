CHECKS = {
 "C01": dict(
  technique="property-based testing (Hypothesis): directional finite-difference oracle over generated molecules, density matrices and synthetic models",
  text="End-to-end through the real CiderNumInt/NLDFNumInt classes: generated small molecules x positive-semidefinite non-SCF density matrices x synthetic mapped functionals (all four semilocal modes, NLDF i/j/ij/k at GGA/MGGA level with both rho_mult, five SDMX classes, evaluator kinds, SEP/NPOL/POL, native and libxc baselines, MappedXC/MappedXC2, xmix/xc/xkernel/ckernel, Gaussian/spline plans, two interpolators). Oracle: two-step 4th-order finite difference of the returned energy along a drawn symmetric direction per spin channel vs Tr(vmat D); electron count vs an independent quadrature; hermiticity. Exploration, not proof.",
  note="Trusted: PySCF AO/rho evaluation and grids; libxc 7.0.0 from the PySCF wheel; FFTW not involved. FD resolves relative errors >= 2e-6 (1e-4 for NLDF, conditioning-limited). A change altering energy and potential consistently is invisible here (C02/C13)."),
 "C07": dict(
  technique="property-based testing (Hypothesis): differential (restricted vs unrestricted) and metamorphic (channel swap, spin scaling) relations",
  text="Molecular level: nr_rks(dm) vs nr_uks((dm/2,dm/2)), nr_uks((a,b)) vs nr_uks((b,a)), and the separable identity E[(a,b)] = (E[2a]+E[2b])/2, on separately built calculators over generated molecules x PSD density matrices x synthetic models (semilocal, NLDF, SDMX; SEP/NPOL/POL; MappedXC/MappedXC2). Array level: SemilocalPlan nspin=1 vs 2, get_cider_exponent(_gga) spin scaling, and mapped models on generated per-point data (closed-shell equality, derivative symmetry and sum rule, channel swap incl. libxc baseline potentials, separability). Exploration.",
  note="Tolerances: 1e-8 (1e-5 with NLDF: conditioning of the auxiliary Cholesky solve) at molecular level, 1e-9 at array level; regulariser-limited semilocal identities 1e-9/1e-6 (stated in evidence)."),
 "C12": dict(
  technique="property-based testing (Hypothesis): finite-difference and transpose oracles over generated maps/normalisers",
  text="Generated search over all 21 registered feature-map classes (enumerated from the registry), drawn indices incl. coincident ones, log-uniform parameters, four normaliser classes + factory functions and FeatNormalizerList in all four semilocal modes; each derivative routine is compared with a two-step 4th-order finite difference of its own value routine, additivity and the forward/reverse transpose identity are checked at 1e-12. Exploration: holds on every generated case, not a proof.",
  note="Trusted: numpy arithmetic; finite differences resolve relative errors >= 1e-6; densities below the 1e-10 clamp are outside this check (C08)."),
}
PENDING = {}
