CHECKS = {
 "C01": dict(
  technique="property-based testing (Hypothesis): directional finite-difference oracle over generated molecules, density matrices and synthetic models",
  text="End-to-end through the real CiderNumInt/NLDFNumInt classes: generated small molecules x positive-semidefinite non-SCF density matrices x synthetic mapped functionals (all four semilocal modes, NLDF i/j/ij/k at GGA/MGGA level with both rho_mult, five SDMX classes, evaluator kinds, SEP/NPOL/POL, native and libxc baselines, MappedXC/MappedXC2, xmix/xc/xkernel/ckernel, Gaussian/spline plans, two interpolators). Oracle: two-step 4th-order finite difference of the returned energy along a drawn symmetric direction per spin channel vs Tr(vmat D); electron count vs an independent quadrature; hermiticity. Exploration, not proof.",
  note="Trusted: PySCF AO/rho evaluation and grids; libxc 7.0.0 from the PySCF wheel; FFTW not involved. FD resolves relative errors >= 2e-6 (1e-4 for NLDF, conditioning-limited). A change altering energy and potential consistently is invisible here (C02/C13)."),
 "C07": dict(
  technique="property-based testing (Hypothesis): differential (restricted vs unrestricted) and metamorphic (channel swap, spin scaling) relations",
  text="Molecular level: nr_rks(dm) vs nr_uks((dm/2,dm/2)), nr_uks((a,b)) vs nr_uks((b,a)), and the separable identity E[(a,b)] = (E[2a]+E[2b])/2, on separately built calculators over generated molecules x PSD density matrices x synthetic models (semilocal, NLDF, SDMX; SEP/NPOL/POL; MappedXC/MappedXC2). Array level: SemilocalPlan nspin=1 vs 2, get_cider_exponent(_gga) spin scaling, and mapped models on generated per-point data (closed-shell equality, derivative symmetry and sum rule, channel swap incl. libxc baseline potentials, separability). Exploration.",
  note="Tolerances: 1e-8 (1e-5 with NLDF: conditioning of the auxiliary Cholesky solve) at molecular level, 1e-9 at array level; regulariser-limited semilocal identities 1e-9/1e-6 (stated in evidence)."),
 "C09": dict(
  technique="stateful property-based testing (Hypothesis-drawn operation histories against a fresh-object model) + chunk/aliasing laws",
  text="Histories of 3-7 operations on ONE live CIDER numerical integrator (restricted/unrestricted evaluations on two molecules, batches of 2-3 density matrices, three max_memory regimes incl. the 4*BLKSIZE floor, grids rebuilt in place or replaced, reset) are compared after every evaluation with the same request on objects rebuilt from scratch; caller arrays must stay bit-identical. Array level: every evaluator kind at sample counts around the 2000-sample chunk (slice law, accumulate-into-buffer law) and input-aliasing / repeatability of the semilocal plan, exponent functions and normaliser list incl. densities below the cutoffs. Exploration; the whole history is the shrinkable/replayable value.",
  note="Fresh-object model assumes object construction itself is deterministic (checked: repeated fresh builds agree bitwise). Tolerance 1e-9 (1e-6 with NLDF)."),
 "C12": dict(
  technique="property-based testing (Hypothesis): finite-difference and transpose oracles over generated maps/normalisers",
  text="Generated search over all 21 registered feature-map classes (enumerated from the registry), drawn indices incl. coincident ones, log-uniform parameters, four normaliser classes + factory functions and FeatNormalizerList in all four semilocal modes; each derivative routine is compared with a two-step 4th-order finite difference of its own value routine, additivity and the forward/reverse transpose identity are checked at 1e-12. Exploration: holds on every generated case, not a proof.",
  note="Trusted: numpy arithmetic; finite differences resolve relative errors >= 1e-6; densities below the 1e-10 clamp are outside this check (C08)."),
}

CHECKS.update({
 "C04": dict(
  technique="property-based testing (Hypothesis): pointwise finite-difference, locality and cutoff-law oracles over generated models and feature arrays",
  text="Synthetic mapped models (1-3 kernels sharing buffers, every evaluator kind, SEP/NPOL/POL, every native baseline code and every libxc code incl. SS_/OS_, MappedXC and MappedXC2) on generated nspin x N0 x (1-12 samples) feature arrays: the returned derivative equals the sample-by-sample finite difference of the returned energy density in every feature row of every spin channel (and vrho_tuple in rho, sigma, tau for MappedXC2); perturbing one sample leaves all others bit-identical; for every rhocut samples below the cutoff are exactly zero in energy and derivative and samples above are bit-identical to rhocut=0; each baseline code separately against finite differences in all three spin modes.",
  note="Feature rows for the semilocal part come from the real SemilocalPlan; FD resolves relative errors >= 1e-6; kinks (alpha clip, Chachiyo small-s branch) are handled by the two-step FD agreement rule."),
 "C05": dict(
  technique="property-based testing (Hypothesis): adjointness dot tests and dense transpose probing over generated layouts",
  text="For every forward/backward pair of the nonlocal-feature pipeline, in isolation: <Ax,y> = <x,By> on random and one-hot vectors at 1e-12 of the size of the summed terms, and dense A vs B^T entrywise for small layouts, over synthetic and real (PySCF-derived) AtomicGridsIndexer / ATCBasis / ConvolutionCollection(K) / interpolator layouts, coefficient orders, offsets/strides accepted by the wrappers, thread counts 1/3/16; overwrite/accumulate contracts of output buffers; the composite convolution with a conditioning-scaled bound reported separately; an s-only (lmax=0) stratum under ASan.",
  note="Trusted: numpy/BLAS; per-step adjointness is exact, the composite is conditioning-limited (1e-13*cond). Dead C paths without a Python caller are not covered (listed in DESIGN.md)."),
 "C06": dict(
  technique="property-based testing (Hypothesis): metamorphic relations under rigid motions with a numerically constructed AO representation",
  text="Generated molecules x PSD density matrices x synthetic models x motions (translation, the 47 non-identity octahedral operations, atom permutations, compositions): the moved molecule gets its own grid and dm' = M^-T dm M^-1 (M by least squares, residual self-test); energy and electron count equal, vmat' = M vmat M^T, normalised feature arrays equal at co-moved grid points (1e-9; 1e-7 with NLDF). Arbitrary rotations: energy and electron count to a calibrated quadrature tolerance per grid level.",
  note="Rotation tolerances (3e-3 level 1, 2e-3 level 2 of max(|Exc|, 0.05 Eh/electron)) are calibrated on the pinned tree (110 cases, worst 6e-4) and frozen; exact motions carry the sensitivity."),
 "C10": dict(
  technique="property-based testing / differential fuzzing over OpenMP team sizes (generated shapes x team sizes x repetitions)",
  text="Every parallel C entry point reachable from Python is called with generated problem shapes (incl. 0, 1, 2, T-1, T, T+1, primes, smaller than the team) at team sizes 1..64 and repeated; oracle = the same call with a team of one (bit-identical where per-output arithmetic is partition independent, 1e-12 where a BLAS call or reduction is inside), run-to-run equality, poisoned output buffers; end-to-end nr_rks/nr_uks in fresh processes with OMP_NUM_THREADS 1/4/16.",
  note="Interleavings are NOT controlled: partitioning bugs are found reliably, data races only probabilistically; no thread sanitizer is usable here (gcc TSan + libgomp false positives, clang has no OpenMP runtime)."),
 "C16": dict(
  technique="stateful property-based testing (Hypothesis-drawn training histories on synthetic on-disk data sets) against an independent numpy model",
  text="Synthetic training sets are written to disk in the format MOLGP.load_data reads; drawn histories of store_mol_covs / add_reactions / reset_reactions / fit / compute_likelihood / permute-and-re-add on MOLGP and MOLGP2 with 1-3 kernels (x, c, xc; SEP/NPOL/POL; with and without control-point reduction, derivative entries, all noise options) are compared with an independent numpy implementation of docs/theory/gp.rst: stored covariances and baselines, the two linear systems (backward error 1e-9), prediction space and residual law (1e-8), alpha at 1e-8*cond, permutation/reset invariance, Gaussian log marginal likelihood vs scipy.",
  note="Two open known findings (derivative entry in a mode-2 reaction; MOLGP2 derivative path) are excluded from the main generators by construction and reproduced by dedicated sub-checks."),
 "C19": dict(
  technique="property-based testing (Hypothesis): differential against PySCF Grids + exact index-map invariants + Lebedev orthonormality",
  text="Generated molecules (H..Ar, 1-4 atoms), levels 0-3 / atom_grid tuple, list, dict incl. 'default', four pruning schemes, five radial schemes, lmax 1-14, alignments, sort on/off, density pruning on both sides of PySCF's acceptance test, reset+rebuild: bit-for-bit multiset equality with pyscf.dft.gen_grid.Grids, injective idx_map with weights/coordinates/owning atoms rebuilt independently, partition tables, padding; tabulated real spherical harmonics orthonormal under each shell's Lebedev rule up to its degree, exactly zero above it and equal to the standard real harmonics; lmax < 1 rejected.",
  note="PySCF 2.14 Grids is the reference; the sanitizer build is used for the lmax stratum."),
 "C20": dict(
  technique="property-based testing (Hypothesis) + exhaustive enumeration of the small plan space against numpy.fft; ASan stratum",
  text="Rank 1-4, extents 1-12 (24 in the large stratum), 1-6 simultaneous transforms, all 16 flag combinations: output equals numpy fftn/rfftn/ifftn*N/irfftn*N, advertised shapes and dtypes, forward-backward = N*x, wrong shapes raise and leave the plan usable, FFTW-double extent flag 0, malloc and plan bookkeeping balanced; the sub-space rank<=3, extents<=3 (quick) / <=5 (thorough), nt<=3 is enumerated exhaustively.",
  note="FFTW is replaced by a test double implementing the documented advanced interface (manual 4.4, rdft2-pad); the MKL back end cannot be built here."),
})

PENDING = {}
