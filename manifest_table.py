CHECKS = {
 "C12": dict(
  technique="property-based testing (Hypothesis): finite-difference and transpose oracles over generated maps/normalisers",
  text="Generated search over all 21 registered feature-map classes (enumerated from the registry), drawn indices incl. coincident ones, log-uniform parameters, four normaliser classes + factory functions and FeatNormalizerList in all four semilocal modes; each derivative routine is compared with a two-step 4th-order finite difference of its own value routine, additivity and the forward/reverse transpose identity are checked at 1e-12. Exploration: holds on every generated case, not a proof.",
  note="Trusted: numpy arithmetic; finite differences resolve relative errors >= 1e-6; densities below the 1e-10 clamp are outside this check (C08)."),
}
PENDING = {}
