#!/venv/bin/python
"""Regenerates MANIFEST.json from the table below (kept in one place so it is always valid)."""
import json, os, sys
HERE = os.path.dirname(os.path.abspath(__file__))
sys.path.insert(0, HERE)
from manifest_table import CHECKS, PENDING  # noqa

def main():
    props = [json.loads(l)["id"] for l in open(os.path.join(HERE, "properties.jsonl"))]
    checks = []
    for pid in props:
        if pid not in CHECKS:
            continue
        c = CHECKS[pid]
        checks.append({
            "property_id": pid,
            "quick_cmd": "bin/check %s --tier quick" % pid,
            "thorough_cmd": "bin/check %s --tier thorough" % pid,
            "evidence_file": "evidence/%s.json" % pid,
            "replay_cmd_template": "bin/check --replay {path}",
            "engine": "cpverif",
            "level_claimed": {"category": "exploration", "text": c["text"], "design_ref": "DESIGN.md section 5, " + pid},
            "level_note": c["note"],
            "technique": c["technique"],
        })
    na = [{"property_id": p, "reason": PENDING.get(p, "check not built yet")} for p in props if p not in CHECKS]
    m = {
        "version": 1,
        "setup_cmd": "/venv/bin/pip install -q --no-index --find-links /opt/veriftools/wheels hypothesis && /venv/bin/python native/build.py && /venv/bin/python native/build.py --asan",
        "hooks": {"guard": "none (no repository hooks: the harness redirects ciderpress.lib.load.load_library from its own process, see DESIGN.md F1)",
                  "enable": "not needed; checks compile /repo/ciderpress/lib/**/*.c into /verif/.build/<content hash> and load them from there",
                  "baseline_off_cmd": "cd /repo && /venv/bin/python -m pytest -q -p no:cacheprovider --timeout=900 --continue-on-collection-errors",
                  "source_commits": [], "add_only": True},
        "engines": [{"name": "cpverif", "path": "cpverif/", "serves_properties": sorted(CHECKS),
                     "kind_free_text": "Hypothesis-driven sharded generated-input search (collect-then-shrink, JSON replay files), gcc ASan/UBSan build as crash oracle, FFTW test double"}],
        "checks": checks,
        "notes": "All checks: exit 0 held / exit 1 + VIOLATION line / exit 2 harness error. VERIF_SEED selects the Hypothesis seeds; VERIF_REPO (default /repo) selects the tree under test.",
        "not_applicable": na,
    }
    json.dump(m, open(os.path.join(HERE, "MANIFEST.json"), "w"), indent=1)
    try:
        import jsonschema
        jsonschema.validate(m, json.load(open("/root/.vp/MANIFEST.schema.json")))
        print("MANIFEST.json valid: %d checks, %d not_applicable" % (len(checks), len(na)))
    except ImportError:
        print("MANIFEST.json written (jsonschema not available to validate)")

main()
